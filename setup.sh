#!/bin/sh
# Build the harness once, offline, and warm the Go build cache (incl. -race std).
set -e
cd "$(dirname "$0")"
GO=/root/go/pkg/mod/golang.org/toolchain@v0.0.1-go1.25.0.linux-amd64/bin/go
export GOFLAGS=-mod=mod GOPROXY=off
if [ -x "$GO" ]; then export GOTOOLCHAIN=local PATH="$(dirname $GO):$PATH"; else GO=go; export GOTOOLCHAIN=auto; fi
cd harness
$GO vet -tags verif ./lib/... >/dev/null 2>&1 || true
mkdir -p ../.bin/repo
for d in props/*/; do
  p=$(basename "$d")
  $GO test -c -tags verif -vet=off -o ../.bin/repo/warm.test "./props/$p" >/dev/null
done
rm -f ../.bin/repo/warm.test
echo "setup ok"

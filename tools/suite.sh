#!/bin/bash
# usage: tools/suite.sh [repo-dir]  — runs the repository's own test suite (guard off) and prints failures
R=${1:-/repo}
export GOTOOLCHAIN=local GOFLAGS=-mod=mod GOPROXY=off
GO=/root/go/pkg/mod/golang.org/toolchain@v0.0.1-go1.25.0.linux-amd64/bin/go
rc=0
(cd $R && $GO test -vet=off -count=1 -timeout 25m ./... 2>&1 | grep -v "^ok\|no test files" ) && rc=1
(cd $R/test && $GO test -vet=off -count=1 -timeout 25m ./... 2>&1 | grep -v "^ok\|no test files") && rc=1
git -C $R status --short | grep -v "test/compare/cmd/cmd"
echo "suite done rc=$rc (rc=1 means some non-ok lines were printed above)"

#!/usr/bin/env python3
"""Regenerate MANIFEST.json from checks.json (single source of per-check metadata)."""
import json, os, subprocess
V = os.path.dirname(os.path.dirname(os.path.abspath(__file__)))
cfg = json.load(open(os.path.join(V, "checks.json")))
props = [json.loads(l) for l in open(os.path.join(V, "properties.jsonl"))]
checks = []
for p in props:
    c = cfg["checks"].get(p["id"])
    if not c or c.get("disabled"):
        continue
    checks.append({
        "property_id": p["id"],
        "quick_cmd": "./check %s quick" % p["id"],
        "thorough_cmd": "./check %s thorough" % p["id"],
        "evidence_file": "/verif/evidence/%s.json" % p["id"],
        "replay_cmd_template": "./check %s --replay {path}" % p["id"],
        "engine": "harness",
        "level_claimed": {"category": c.get("level", "exploration"), "text": c["level_text"], "design_ref": "DESIGN.md §5 " + p["id"]},
        "level_note": c["level_note"],
        "technique": c["technique"],
    })
na = []
for p in props:
    c = cfg["checks"].get(p["id"])
    if not c or c.get("disabled"):
        na.append({"property_id": p["id"], "reason": (cfg.get("not_applicable") or {}).get(p["id"], "check not built yet in this round; no claim is made")})
hooks = cfg.get("hooks", {})
m = {
    "version": 1,
    "setup_cmd": "./setup.sh",
    "hooks": {
        "guard": "verif",
        "enable": "go build/test with -tags verif (the driver ./check always passes it)",
        "baseline_off_cmd": "cd /repo && go test -mod=mod -vet=off -count=1 -timeout 25m ./... && cd /repo/test && go test -mod=mod -vet=off -count=1 -timeout 25m ./...",
        "source_commits": hooks.get("source_commits", []),
        "add_only": True,
    },
    "engines": [{"name": "harness", "path": "/verif/harness", "serves_properties": [c["property_id"] for c in checks],
                 "kind_free_text": "Go test module: pgregory.net/rapid properties, exhaustive enumerations and native fuzz targets with executable oracles; python driver ./check shards, merges evidence and maps outcomes to exit codes"}],
    "checks": checks,
    "not_applicable": na,
    "notes": cfg.get("notes", ""),
}
json.dump(m, open(os.path.join(V, "MANIFEST.json"), "w"), indent=1)
open(os.path.join(V, "MANIFEST.json"), "a").write("\n")
print("MANIFEST.json: %d checks, %d not claimed" % (len(checks), len(na)))

#!/bin/bash
# usage: tools/seedcheck.sh <PROP> [name]   — verify a seeded change from /tmp/seed/<PROP> and run the check against it
# Confirms independently: demo passes on the unchanged tree, fails with the patch, full suite passes with the patch.
set -u
P=$1; NAME=${2:-$P-a}
export GOFLAGS=-mod=mod GOPROXY=off
WT=${SEED_WT:-/tmp/wt0}
[ -d $WT ] || git -C /repo worktree add --detach $WT HEAD -q
cd $WT && git checkout -q --detach main 2>/dev/null; git checkout -q -- .; git clean -fdq
SRC=/tmp/seed/$P
PATCH=/tmp/seed/$P.patch.diff
[ -f $PATCH ] || (cd $SRC && git diff > $PATCH)
DEMO_REL=$(cd $SRC && git status --short | grep '^??' | grep -v 'test/compare/cmd/cmd' | awk '{print $2}' | head -1)
echo "demo file: $DEMO_REL"
PKG=./$(dirname $DEMO_REL); MODDIR=$WT
case $DEMO_REL in test/*) MODDIR=$WT/test; PKG=./$(dirname ${DEMO_REL#test/});; esac
cp $SRC/$DEMO_REL $WT/$DEMO_REL
echo "== demo on unchanged tree (expect ok)"
(cd $MODDIR && go test -vet=off -count=1 -run 'TestSeed' $PKG 2>&1 | tail -3)
git -C $WT apply $PATCH || { echo "PATCH DOES NOT APPLY"; exit 1; }
echo "== demo with patch (expect FAIL)"
(cd $MODDIR && go test -vet=off -count=1 -run 'TestSeed' $PKG 2>&1 | tail -4 | cut -c1-200)
rm $WT/$DEMO_REL
echo "== full suite with patch (expect no failures)"
(cd $WT && go test -vet=off -count=1 ./... 2>&1 | grep -v "^ok\|no test files" | head -5; cd test && go test -vet=off -count=1 ./... 2>&1 | grep -v "^ok\|no test files" | head -5)
echo "== check $P quick against the patched tree"
cd /verif && VERIF_REPO=$WT ./check $P quick 2>&1 | grep -v KNOWN | head -3 | cut -c1-200
mkdir -p /verif/seeded/$NAME
cp $PATCH /verif/seeded/$NAME/patch.diff
cp $SRC/$DEMO_REL /verif/seeded/$NAME/$(basename $DEMO_REL)
echo "$DEMO_REL" > /verif/seeded/$NAME/demo_path.txt
cd $WT && git checkout -q -- .; git clean -fdq

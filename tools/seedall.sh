#!/bin/bash
# usage: tools/seedall.sh [ids...] — applies every seeded change to a scratch worktree of /repo's HEAD and runs the
# quick check of its property against it; prints one line per change (CAUGHT / MISSED / DOES NOT APPLY).
cd "$(dirname "$0")/.."
WT=/tmp/wt_seed
git -C /repo worktree remove --force $WT >/dev/null 2>&1
git -C /repo worktree add --detach $WT HEAD -q || exit 2
for d in seeded/*/; do
  n=$(basename $d); p=${n%%-*}
  [ $# -gt 0 ] && [[ " $* " != *" $p "* ]] && continue
  (cd $WT && git checkout -q -- . && git clean -fdq)
  if ! git -C $WT apply $PWD/$d/patch.diff 2>/dev/null; then echo "$n DOES NOT APPLY"; continue; fi
  out=$(VERIF_REPO=$WT ./check $p quick 2>&1 | grep -v "^KNOWN-FINDING")
  if echo "$out" | grep -q "^VIOLATION"; then echo "$n CAUGHT ($(echo "$out" | grep -c '^VIOLATION') violation lines)"; else echo "$n MISSED: $(echo "$out" | tail -1 | cut -c1-150)"; fi
done
(cd $WT && git checkout -q -- . && git clean -fdq)
git -C /repo worktree remove --force $WT

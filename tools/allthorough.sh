#!/bin/bash
# usage: tools/allthorough.sh [ids...] — runs thorough checks one after the other and prints one line each
cd "$(dirname "$0")/.."
ids="$@"
[ -z "$ids" ] && ids=$(python3 -c "import json;print(' '.join(sorted(json.load(open('checks.json'))['checks'])))")
for id in $ids; do
  out=$(./check $id thorough 2>&1 | grep -v "^KNOWN-FINDING" | head -4 | cut -c1-200 | tr '\n' ' ')
  echo "$(date +%H:%M:%S) $id: $out"
  # keep the evidence of the deep run next to the quick one (evidence/<id>.json is rewritten by every run)
  mkdir -p evidence_thorough && cp evidence/$id.json evidence_thorough/$id.json 2>/dev/null
done

#!/usr/bin/env python3
"""Regenerates the machine-derived parts of DESIGN.md section 10 (findings list, seeded changes table)
between the marker lines, from known_findings.json and seeded/*/meta.json."""
import json, os, glob, re
V = "/verif"
k = json.load(open(os.path.join(V, "known_findings.json")))
lines = []
props = sorted({e["property"] for e in k})
for p in props:
    es = [e for e in k if e["property"] == p]
    lines.append(f"**{p}** — {sum(e['status']=='fixed' for e in es)} fixed, {sum(e['status']=='known' for e in es)} known")
    lines.append("")
    for e in es:
        tag = f"fixed in {e.get('commit','?')}" if e["status"] == "fixed" else "KNOWN (not repaired)"
        lines.append(f"* `{e['id']}` — {tag}. {e['what']} Witness: `{e.get('witness','')}`.")
    lines.append("")
findings = "\n".join(lines)
rows = ["| seeded change | property | caught by quick check | needs to manifest |", "|---|---|---|---|"]
for d in sorted(glob.glob(os.path.join(V, "seeded", "*"))):
    mp = os.path.join(d, "meta.json")
    if not os.path.exists(mp):
        continue
    m = json.load(open(mp))
    need = m.get("needs_to_manifest", "").replace("|", "\\|").replace("\n", " ")
    rows.append(f"| `seeded/{os.path.basename(d)}` | {m.get('breaks_property','')} | {m.get('caught_by_quick_check','')} | {need} |")
seeds = "\n".join(rows)
s = open(os.path.join(V, "DESIGN.md")).read()
def put(s, name, body):
    a, b = f"<!-- BEGIN {name} -->", f"<!-- END {name} -->"
    if a not in s:
        return s
    i, j = s.index(a) + len(a), s.index(b)
    return s[:i] + "\n" + body + "\n" + s[j:]
cfg = json.load(open(os.path.join(V, "checks.json")))["checks"]
prows = ["| id | package | deciding method (technique field of MANIFEST.json) | quick evaluations / distinct non-trivial (last committed evidence) |", "|---|---|---|---|"]
for pid in sorted(cfg):
    c = cfg[pid]
    evp = os.path.join(V, "evidence", pid + ".json")
    cov = ""
    if os.path.exists(evp):
        e = json.load(open(evp))
        cov = "%s: %d / %d" % (e.get("tier", "?"), e["coverage"]["evaluations"], e["coverage"]["distinct_nontrivial"])
    prows.append("| %s | props/%s%s | %s | %s |" % (pid, c["pkg"], " (-race)" if c.get("race") else "", c["technique"].replace("|", "\\|"), cov))
s = put(s, "PERPROP", "\n".join(prows))
s = put(s, "FINDINGS", findings)
s = put(s, "SEEDS", seeds)
open(os.path.join(V, "DESIGN.md"), "w").write(s)
print("DESIGN.md: %d findings, %d seeded changes" % (len(k), len(rows) - 2))

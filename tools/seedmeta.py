#!/usr/bin/env python3
"""usage: seedmeta.py <dir-name> <property> <caught yes|no|after-strengthening> <needs text> [notes]"""
import json,sys,os
d,prop,caught,needs=sys.argv[1:5]
notes=sys.argv[5] if len(sys.argv)>5 else ""
p='/verif/seeded/%s/meta.json'%d
json.dump({"breaks_property":prop,"needs_to_manifest":needs,"verified":"tools/seedcheck.sh: demo passes on the unchanged tree, fails with patch.diff applied, full existing suite (root module and ./test) passes with the patch; then ./check %s quick with VERIF_REPO pointing at the patched scratch worktree"%prop,"caught_by_quick_check":caught,"notes":notes,"origin":"independent sub-agent given only the property text and a scratch worktree"},open(p,'w'),indent=1)
print(open(p).read()[:200])

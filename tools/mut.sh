#!/bin/bash
# usage: tools/mut.sh <name> <file-in-repo> <sed-expr> <ID> [tier]
# applies a sed mutation in the scratch worktree /tmp/wt0 (created on demand) and runs a check against it
set -u
WT=/tmp/wt0
[ -d $WT ] || git -C /repo worktree add --detach $WT HEAD -q
cd $WT && git checkout -q --detach main 2>/dev/null; git checkout -q -- .
sed -i "$3" "$2"
if git diff --quiet; then echo "$1: MUTATION DID NOT APPLY"; exit 0; fi
cd /verif
echo -n "$1: "
VERIF_REPO=$WT ./check $4 ${5:-quick} 2>&1 | grep -v KNOWN | head -1 | cut -c1-160
cd $WT && git checkout -q -- .

#!/bin/bash
# usage: tools/allquick.sh [seed] — runs every registered quick check and prints one line each
cd /verif
for id in $(python3 -c "import json;print(' '.join(sorted(json.load(open('checks.json'))['checks'])))"); do
  out=$(VERIF_SEED=${1:-20260921} ./check $id quick 2>&1 | grep -v "^KNOWN-FINDING" | head -3 | cut -c1-160 | tr '\n' ' ')
  echo "$id: $out"
done

// buildall: development aid — builds every .go file of a directory as a program under recover and reports the
// panics, and compares acceptance with go/types.
package main

import (
	"fmt"
	"go/ast"
	"go/parser"
	"go/token"
	"go/types"
	"os"
	"path/filepath"
	"sort"
	"strings"

	"verif/harness/lib/sg"
)

func goAccepts(src string) (bool, string) {
	fset := token.NewFileSet()
	f, err := parser.ParseFile(fset, "main.go", src, 0)
	if err != nil {
		return false, "PARSE " + err.Error()
	}
	var first error
	conf := types.Config{Error: func(e error) {
		if first == nil {
			first = e
		}
	}}
	conf.Check("main", fset, []*ast.File{f}, nil)
	if first != nil {
		return false, first.Error()
	}
	return true, ""
}

func main() {
	files, _ := filepath.Glob(filepath.Join(os.Args[1], "*.go"))
	sort.Strings(files)
	for _, f := range files {
		b, _ := os.ReadFile(f)
		src := string(b)
		_, res := sg.BuildProgram(src, sg.Opts{AllowGo: true})
		line := strings.Split(src, "\n")
		stmt := line[len(line)-3]
		ok, why := goAccepts(src)
		switch {
		case res.BuildPanic != nil:
			fmt.Printf("PANIC %s: %v   [%s]\n", filepath.Base(f), res.BuildPanic, strings.TrimSpace(stmt))
		case ok && res.BuildErr != nil:
			fmt.Printf("REJECTS-VALID %s: %v   [%s]\n", filepath.Base(f), res.BuildErr, strings.TrimSpace(stmt))
		case !ok && res.BuildErr == nil:
			fmt.Printf("ACCEPTS-INVALID %s: go: %s   [%s]\n", filepath.Base(f), why, strings.TrimSpace(stmt))
		}
	}
}

// scriptmin: development aid — reduces a program whose script-block form prints something else than its
// program form (both under Scriggo), removing lines while the difference stays.
package main

import (
	"fmt"
	"os"
	"strings"
	"time"

	"verif/harness/gen/goprog"
	"verif/harness/lib/sg"
)

func differs(src string) bool {
	done := make(chan bool, 1)
	go func() {
		pp, pres := sg.BuildProgram(src, sg.Opts{})
		if pres.BuildErr != nil || pres.BuildPanic != nil {
			done <- false
			return
		}
		script := "{%%\n" + goprog.AsScript(src) + "\n%%}\n"
		tm, res := sg.BuildTemplate(map[string]string{"index.txt": script}, "index.txt", sg.Opts{})
		if res.BuildErr != nil || res.BuildPanic != nil {
			done <- false
			return
		}
		rp := sg.RunProgram(pp, sg.Opts{})
		rt := sg.RunTemplate(tm, sg.Opts{PrintLikeGo: true})
		if rp.RunPanic != nil || rt.RunPanic != nil {
			done <- false
			return
		}
		done <- rp.Printed != rt.Printed
	}()
	select {
	case d := <-done:
		return d
	case <-time.After(5 * time.Second):
		return false
	}
}

func main() {
	b, _ := os.ReadFile(os.Args[1])
	lines := strings.Split(string(b), "\n")
	if !differs(strings.Join(lines, "\n")) {
		fmt.Println("no difference")
		return
	}
	for n := len(lines) / 2; n >= 1; {
		removed := false
		for i := 0; i+n <= len(lines); {
			cand := append(append([]string{}, lines[:i]...), lines[i+n:]...)
			if differs(strings.Join(cand, "\n")) {
				lines = cand
				removed = true
			} else {
				i += n
			}
		}
		if !removed || n == 1 {
			if n == 1 && !removed {
				break
			}
			if n > 1 {
				n /= 2
			}
		}
	}
	fmt.Println(strings.Join(lines, "\n"))
}

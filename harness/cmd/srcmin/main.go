// Command srcmin minimises a C04/C21 replay file: it deletes chunks of the files while
// the build keeps failing in the same way (same first line of the oracle's message).
// usage: srcmin <violation.json> [substring the message must keep]
package main

import (
	"encoding/json"
	"fmt"
	"os"
	"sort"
	"strings"

	"verif/harness/gen/srcmut"
	"verif/harness/lib/probe"
)

func sig(c srcmut.Case) string {
	o := probe.Build(c.Input)
	d := o.Describe()
	if d == "" {
		return ""
	}
	fr := ""
	for _, l := range strings.Split(o.Stack, "\n") {
		l = strings.TrimSpace(l)
		if strings.HasPrefix(l, "/repo/internal/compiler/") && !strings.Contains(l, "parser.go:197") && !strings.Contains(l, "parser.go:262") && !strings.Contains(l, "checker_package.go:553") && !strings.Contains(l, "compiler.go") {
			fr = strings.Fields(l)[0]
			break
		}
	}
	return strings.SplitN(d, "\n", 2)[0] + " @ " + fr
}

func main() {
	b, err := os.ReadFile(os.Args[1])
	if err != nil {
		panic(err)
	}
	var rec struct {
		Case srcmut.Case `json:"case"`
	}
	if err := json.Unmarshal(b, &rec); err != nil {
		panic(err)
	}
	c := rec.Case
	if c.Files == nil {
		_ = json.Unmarshal(b, &c)
	}
	want := sig(c)
	if want == "" {
		fmt.Println("the case does not fail")
		return
	}
	fmt.Println("signature:", want)
	var names []string
	for n := range c.Files {
		names = append(names, n)
	}
	sort.Strings(names)
	try := func(name, s string) bool {
		old := c.Files[name]
		c.Files[name] = s
		if sig(c) == want {
			return true
		}
		c.Files[name] = old
		return false
	}
	// drop whole files first
	for _, n := range names {
		if n == "go.mod" || n == "main.go" || n == c.Main {
			continue
		}
		old := c.Files[n]
		delete(c.Files, n)
		if sig(c) != want {
			c.Files[n] = old
		}
	}
	for round := 0; round < 4; round++ {
		for _, n := range names {
			s, ok := c.Files[n]
			if !ok || n == "go.mod" {
				continue
			}
			for chunk := len(s) / 2; chunk >= 1; chunk /= 2 {
				for i := 0; i+chunk <= len(c.Files[n]); {
					cur := c.Files[n]
					if try(n, cur[:i]+cur[i+chunk:]) {
						continue
					}
					i += chunk
				}
			}
		}
	}
	for _, n := range names {
		if s, ok := c.Files[n]; ok && n != "go.mod" {
			fmt.Printf("--- %s\n%s\n--- (quoted) %q\n", n, s, s)
		}
	}
	out, _ := json.MarshalIndent(map[string]any{"property": "C04", "test": "build", "case": c}, "", " ")
	_ = os.WriteFile(os.Args[1]+".min.json", out, 0o644)
}

package main

import (
	"fmt"
	"os"

	"verif/harness/gen/goprog"
)

func main() {
	b, _ := os.ReadFile(os.Args[1])
	fmt.Print("{%%\n" + goprog.AsScript(string(b)) + "\n%%}\n")
}

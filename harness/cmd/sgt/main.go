// sgt: development aid — renders the template file given as argument (format from its extension) and
// prints the output, the text printed with print/println and the outcome.
package main

import (
	"fmt"
	"os"
	"path/filepath"

	"verif/harness/lib/sg"
)

func main() {
	b, err := os.ReadFile(os.Args[1])
	if err != nil {
		panic(err)
	}
	name := "index" + filepath.Ext(os.Args[1])
	res := sg.Render(map[string]string{name: string(b)}, name, sg.Opts{Markdown: true, AllowGo: true})
	fmt.Printf("== out\n%s\n== printed\n%s\n== outcome: %s\n", res.Out, res.Printed, res.Describe())
}

// sgdiff: development aid — runs one Go source file under Scriggo and gc and prints both transcripts.
package main

import (
	"fmt"
	"os"
	"strings"

	"github.com/open2b/scriggo"

	"verif/harness/gen/gopkgs"
	"verif/harness/lib/gcref"
	"verif/harness/lib/sg"
)

func main() {
	asm := false
	if len(os.Args) > 2 && os.Args[1] == "-S" {
		asm = true
		os.Args = os.Args[1:]
	}
	b, err := os.ReadFile(os.Args[1])
	if err != nil {
		panic(err)
	}
	src := string(b)
	useHost := strings.Contains(src, "import \"host\"")
	var ts []gcref.Transcript
	if useHost {
		ts, err = gcref.RunModules([]map[string]string{{"go.mod": "module m\n", "main.go": src}})
	} else {
		ts, err = gcref.Run([]string{src})
	}
	if err != nil {
		fmt.Println("gc:", err)
		os.Exit(2)
	}
	fmt.Printf("== gc (exit %d, builderr %q, fatal %q)\n%s== gc panic: %q\n", ts[0].Exit, ts[0].BuildErr, ts[0].Fatal, ts[0].Out, ts[0].Panic)
	o := sg.Opts{AllowGo: true}
	if useHost {
		o.Packages = gopkgs.HostPackage()
	}
	p, res := sg.BuildProgram(src, o)
	if res.BuildErr != nil || res.BuildPanic != nil {
		fmt.Println("== scriggo build:", res.Describe())
		return
	}
	if asm {
		d, _ := p.Disassemble("main"); fmt.Printf("%s\n", d)
	}
	r := sg.RunProgram(p, sg.Opts{})
	fmt.Printf("== scriggo\n%s", r.Printed)
	if r.RunPanic != nil {
		fmt.Printf("== scriggo HOST PANIC: %v\n", r.RunPanic)
		if asm {
			fmt.Println(r.Stack)
		}
	}
	if pe, ok := r.RunErr.(*scriggo.PanicError); ok {
		fmt.Printf("== scriggo panic: %q\n", strings.TrimRight(pe.Error(), "\n"))
	} else if r.RunErr != nil {
		fmt.Printf("== scriggo err: %v\n", r.RunErr)
	}
	scPanic := ""
	if pe, ok := r.RunErr.(*scriggo.PanicError); ok {
		scPanic = strings.TrimRight(pe.Error(), "\n")
	}
	if r.Printed == ts[0].Out && scPanic != ts[0].Panic {
		fmt.Println("== PANIC TEXT DIFFERS")
	} else if r.Printed == ts[0].Out {
		fmt.Println("== outputs equal")
	} else {
		fmt.Println("== OUTPUTS DIFFER")
	}
}

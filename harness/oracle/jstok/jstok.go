// Package jstok is a strict tokenizer for the ECMAScript lexical grammar and a
// parser for the value sub-language Scriggo emits. It is an oracle: it never
// guesses — anything it cannot tokenize is an Error token.
package jstok

import (
	"fmt"
	"math"
	"strconv"
	"strings"
	"unicode"
	"unicode/utf16"
	"unicode/utf8"
)

type Kind int

const (
	WS Kind = iota
	LineTerm
	LineComment
	BlockComment
	String   // Value holds the decoded string
	Template // whole template literal `…`, nested ${} included
	Regex
	Number
	Ident
	Punct
	Error // unterminated or illegal input; Text is the rest of the source
)

var kindNames = [...]string{"ws", "lt", "linecomment", "blockcomment", "string", "template", "regex", "number", "ident", "punct", "error"}

func (k Kind) String() string { return kindNames[k] }

type Token struct {
	Kind  Kind
	Text  string
	Start int
	Value string // decoded value for String tokens
}

func (t Token) String() string { return fmt.Sprintf("%s(%q)", t.Kind, t.Text) }

func isLT(r rune) bool { return r == '\n' || r == '\r' || r == '\u2028' || r == '\u2029' }
func isWS(r rune) bool {
	return r == '\t' || r == '\v' || r == '\f' || r == ' ' || r == '\u00a0' || r == '\ufeff' || (r > 127 && unicode.Is(unicode.Zs, r))
}
func isIDStart(r rune) bool {
	return r == '$' || r == '_' || r == '\\' || unicode.IsLetter(r) || unicode.Is(unicode.Nl, r)
}
func isIDPart(r rune) bool {
	return isIDStart(r) || unicode.IsDigit(r) || unicode.Is(unicode.Mn, r) || unicode.Is(unicode.Mc, r) || unicode.Is(unicode.Pc, r) || r == '\u200c' || r == '\u200d'
}

var keywordsBeforeRegex = map[string]bool{"return": true, "typeof": true, "instanceof": true, "in": true, "of": true, "new": true, "delete": true, "void": true, "throw": true, "case": true, "do": true, "else": true, "yield": true, "await": true}

var puncts = []string{">>>=", "...", "===", "!==", "**=", "<<=", ">>=", ">>>", "&&=", "||=", "??=", "=>", "==", "!=", "<=", ">=", "&&", "||", "??", "?.", "++", "--", "+=", "-=", "*=", "/=", "%=", "&=", "|=", "^=", "<<", ">>", "**",
	"{", "}", "(", ")", "[", "]", ";", ",", "<", ">", "+", "-", "*", "/", "%", "&", "|", "^", "!", "~", "?", ":", "=", ".", "#", "@"}

// Tokenize splits src into tokens covering every byte.
func Tokenize(src string) []Token {
	var toks []Token
	regexAllowed := true
	i := 0
	emit := func(k Kind, end int, val string) {
		toks = append(toks, Token{Kind: k, Text: src[i:end], Start: i, Value: val})
		switch k {
		case WS, LineTerm, LineComment, BlockComment:
		case Punct:
			t := src[i:end]
			regexAllowed = !(t == ")" || t == "]" || t == "}" || t == "++" || t == "--")
		case Ident:
			regexAllowed = keywordsBeforeRegex[src[i:end]]
		default:
			regexAllowed = false
		}
		i = end
	}
	for i < len(src) {
		r, sz := utf8.DecodeRuneInString(src[i:])
		switch {
		case isLT(r):
			emit(LineTerm, i+sz, "")
		case isWS(r):
			j := i + sz
			for j < len(src) {
				r2, s2 := utf8.DecodeRuneInString(src[j:])
				if !isWS(r2) {
					break
				}
				j += s2
			}
			emit(WS, j, "")
		case r == '/' && strings.HasPrefix(src[i:], "//"):
			j := i + 2
			for j < len(src) {
				r2, s2 := utf8.DecodeRuneInString(src[j:])
				if isLT(r2) {
					break
				}
				j += s2
			}
			emit(LineComment, j, "")
		case r == '/' && strings.HasPrefix(src[i:], "/*"):
			end := strings.Index(src[i+2:], "*/")
			if end < 0 {
				emit(Error, len(src), "")
			} else {
				emit(BlockComment, i+2+end+2, "")
			}
		case r == '"' || r == '\'':
			end, val, ok := scanString(src, i)
			if !ok {
				emit(Error, len(src), "")
			} else {
				emit(String, end, val)
			}
		case r == '`':
			end, ok := scanTemplate(src, i)
			if !ok {
				emit(Error, len(src), "")
			} else {
				emit(Template, end, "")
			}
		case r == '/' && regexAllowed:
			end, ok := scanRegex(src, i)
			if !ok {
				emit(Error, len(src), "")
			} else {
				emit(Regex, end, "")
			}
		case r >= '0' && r <= '9' || r == '.' && i+1 < len(src) && src[i+1] >= '0' && src[i+1] <= '9':
			emit(Number, scanNumber(src, i), "")
		case isIDStart(r):
			j := i + sz
			for j < len(src) {
				r2, s2 := utf8.DecodeRuneInString(src[j:])
				if !isIDPart(r2) {
					break
				}
				j += s2
			}
			emit(Ident, j, "")
		default:
			matched := false
			for _, p := range puncts {
				if strings.HasPrefix(src[i:], p) {
					emit(Punct, i+len(p), "")
					matched = true
					break
				}
			}
			if !matched {
				emit(Error, len(src), "")
			}
		}
		if len(toks) > 0 && toks[len(toks)-1].Kind == Error {
			break
		}
	}
	return toks
}

func hexVal(s string) (rune, bool) {
	if s == "" {
		return 0, false
	}
	v, err := strconv.ParseUint(s, 16, 32)
	if err != nil {
		return 0, false
	}
	return rune(v), true
}

// scanString scans a string literal starting at the quote at i.
func scanString(src string, i int) (end int, val string, ok bool) {
	q := src[i]
	var units []uint16 // UTF-16 code units, as the language defines string values
	addRune := func(r rune) {
		if r >= 0x10000 {
			r1, r2 := utf16.EncodeRune(r)
			units = append(units, uint16(r1), uint16(r2))
		} else {
			units = append(units, uint16(r))
		}
	}
	j := i + 1
	for j < len(src) {
		r, sz := utf8.DecodeRuneInString(src[j:])
		switch {
		case src[j] == q:
			return j + 1, string(utf16.Decode(units)), true
		case r == '\n' || r == '\r':
			return 0, "", false // unescaped line terminator (U+2028/9 are allowed since ES2019)
		case r == '\\':
			j++
			if j >= len(src) {
				return 0, "", false
			}
			e, esz := utf8.DecodeRuneInString(src[j:])
			switch {
			case e == 'n':
				addRune('\n')
			case e == 't':
				addRune('\t')
			case e == 'r':
				addRune('\r')
			case e == 'b':
				addRune('\b')
			case e == 'f':
				addRune('\f')
			case e == 'v':
				addRune('\v')
			case e == 'x':
				if j+3 > len(src) {
					return 0, "", false
				}
				v, ok := hexVal(src[j+1 : j+3])
				if !ok {
					return 0, "", false
				}
				units = append(units, uint16(v))
				j += 2
			case e == 'u':
				if j+1 < len(src) && src[j+1] == '{' {
					c := strings.IndexByte(src[j:], '}')
					if c < 0 {
						return 0, "", false
					}
					v, ok := hexVal(src[j+2 : j+c])
					if !ok || v > 0x10FFFF {
						return 0, "", false
					}
					addRune(v)
					j += c
				} else {
					if j+5 > len(src) {
						return 0, "", false
					}
					v, ok := hexVal(src[j+1 : j+5])
					if !ok {
						return 0, "", false
					}
					units = append(units, uint16(v))
					j += 4
				}
			case e == '\r':
				if j+1 < len(src) && src[j+1] == '\n' {
					j++
				}
			case e == '\n' || e == '\u2028' || e == '\u2029':
				// line continuation
			case e >= '0' && e <= '7':
				// legacy octal (sloppy mode) / \0
				k := j
				n := 0
				max := 3
				if e >= '4' {
					max = 2
				}
				v := 0
				for k < len(src) && n < max && src[k] >= '0' && src[k] <= '7' {
					v = v*8 + int(src[k]-'0')
					k++
					n++
				}
				units = append(units, uint16(v))
				j = k - 1
				esz = 1
			default:
				addRune(e)
			}
			j += esz
		default:
			if r == utf8.RuneError && sz == 1 {
				addRune(0xFFFD)
			} else {
				addRune(r)
			}
			j += sz
		}
	}
	return 0, "", false
}

// scanTemplate scans a template literal with nested ${ } substitutions.
func scanTemplate(src string, i int) (end int, ok bool) {
	j := i + 1
	for j < len(src) {
		switch src[j] {
		case '`':
			return j + 1, true
		case '\\':
			j += 2
		case '$':
			if j+1 < len(src) && src[j+1] == '{' {
				// substitution: tokenize until the matching brace
				depth := 1
				k := j + 2
				for k < len(src) && depth > 0 {
					rest := Tokenize1(src, k)
					if rest.Kind == Error {
						return 0, false
					}
					if rest.Kind == Punct && rest.Text == "{" {
						depth++
					} else if rest.Kind == Punct && rest.Text == "}" {
						depth--
					}
					k = rest.Start + len(rest.Text)
				}
				if depth != 0 {
					return 0, false
				}
				j = k
			} else {
				j++
			}
		default:
			j++
		}
	}
	return 0, false
}

// Tokenize1 returns the token starting at offset k (regex allowed).
func Tokenize1(src string, k int) Token {
	t := Tokenize(src[k:])
	if len(t) == 0 {
		return Token{Kind: Error, Start: k}
	}
	t[0].Start += k
	return t[0]
}

func scanRegex(src string, i int) (end int, ok bool) {
	j := i + 1
	inClass := false
	for j < len(src) {
		r, sz := utf8.DecodeRuneInString(src[j:])
		switch {
		case isLT(r):
			return 0, false
		case r == '\\':
			j += sz
			if j >= len(src) {
				return 0, false
			}
			r2, s2 := utf8.DecodeRuneInString(src[j:])
			if isLT(r2) {
				return 0, false
			}
			j += s2
			continue
		case r == '[':
			inClass = true
		case r == ']':
			inClass = false
		case r == '/' && !inClass:
			j++
			for j < len(src) {
				r2, s2 := utf8.DecodeRuneInString(src[j:])
				if !isIDPart(r2) || r2 == '\\' {
					break
				}
				j += s2
			}
			return j, true
		}
		j += sz
	}
	return 0, false
}

func scanNumber(src string, i int) int {
	j := i
	isd := func(c byte) bool { return c >= '0' && c <= '9' || c == '_' }
	if src[j] == '0' && j+1 < len(src) && strings.ContainsRune("xXoObB", rune(src[j+1])) {
		j += 2
		for j < len(src) && (isd(src[j]) || src[j] >= 'a' && src[j] <= 'f' || src[j] >= 'A' && src[j] <= 'F') {
			j++
		}
	} else {
		for j < len(src) && isd(src[j]) {
			j++
		}
		if j < len(src) && src[j] == '.' {
			j++
			for j < len(src) && isd(src[j]) {
				j++
			}
		}
		if j < len(src) && (src[j] == 'e' || src[j] == 'E') {
			k := j + 1
			if k < len(src) && (src[k] == '+' || src[k] == '-') {
				k++
			}
			if k < len(src) && src[k] >= '0' && src[k] <= '9' {
				j = k
				for j < len(src) && isd(src[j]) {
					j++
				}
			}
		}
	}
	if j < len(src) && src[j] == 'n' {
		j++
	}
	return j
}

// Significant returns the tokens that are not white space, line terminators or comments.
func Significant(toks []Token) []Token {
	var out []Token
	for _, t := range toks {
		switch t.Kind {
		case WS, LineTerm, LineComment, BlockComment:
		default:
			out = append(out, t)
		}
	}
	return out
}

// ---------------------------------------------------------------- values

// Value is the data model of the value sub-language.
type Value struct {
	Kind   string // null undefined bool number string array object date
	Bool   bool
	Num    float64
	Str    string
	Arr    []Value
	Keys   []string // object keys in source order
	Fields map[string]Value
}

// ParseValue parses src as exactly one value expression of the sub-language:
// null, undefined, true, false, [-+]number, NaN, Infinity, string, [v,…],
// {"k":v,…}, new Date("…"). Anything else is an error.
func ParseValue(src string) (Value, error) {
	toks := Significant(Tokenize(src))
	for _, t := range toks {
		if t.Kind == Error {
			return Value{}, fmt.Errorf("lexical error at offset %d", t.Start)
		}
	}
	p := &vparser{toks: toks}
	v, err := p.value()
	if err != nil {
		return Value{}, err
	}
	if p.pos != len(p.toks) {
		return Value{}, fmt.Errorf("unexpected token %s after the value", p.toks[p.pos])
	}
	return v, nil
}

type vparser struct {
	toks []Token
	pos  int
}

func (p *vparser) peek() *Token {
	if p.pos < len(p.toks) {
		return &p.toks[p.pos]
	}
	return nil
}

func (p *vparser) expectPunct(s string) error {
	t := p.peek()
	if t == nil || t.Kind != Punct || t.Text != s {
		return fmt.Errorf("expected %q, found %v", s, t)
	}
	p.pos++
	return nil
}

func (p *vparser) value() (Value, error) {
	t := p.peek()
	if t == nil {
		return Value{}, fmt.Errorf("empty expression")
	}
	switch t.Kind {
	case String:
		p.pos++
		return Value{Kind: "string", Str: t.Value}, nil
	case Number:
		p.pos++
		f, err := parseNumber(t.Text)
		if err != nil {
			return Value{}, err
		}
		return Value{Kind: "number", Num: f}, nil
	case Ident:
		p.pos++
		switch t.Text {
		case "null":
			return Value{Kind: "null"}, nil
		case "undefined":
			return Value{Kind: "undefined"}, nil
		case "true":
			return Value{Kind: "bool", Bool: true}, nil
		case "false":
			return Value{Kind: "bool"}, nil
		case "NaN":
			return Value{Kind: "number", Num: math.NaN()}, nil
		case "Infinity":
			return Value{Kind: "number", Num: math.Inf(1)}, nil
		case "new":
			d := p.peek()
			if d == nil || d.Kind != Ident || d.Text != "Date" {
				return Value{}, fmt.Errorf("only new Date(...) is in the value language")
			}
			p.pos++
			if err := p.expectPunct("("); err != nil {
				return Value{}, err
			}
			s := p.peek()
			if s == nil || s.Kind != String {
				return Value{}, fmt.Errorf("new Date expects a string")
			}
			p.pos++
			if err := p.expectPunct(")"); err != nil {
				return Value{}, err
			}
			return Value{Kind: "date", Str: s.Value}, nil
		}
		return Value{}, fmt.Errorf("identifier %q is not a value", t.Text)
	case Punct:
		switch t.Text {
		case "-", "+":
			p.pos++
			v, err := p.value()
			if err != nil {
				return Value{}, err
			}
			if v.Kind != "number" {
				return Value{}, fmt.Errorf("sign before non-number")
			}
			if t.Text == "-" {
				v.Num = -v.Num
			}
			return v, nil
		case "[":
			p.pos++
			arr := Value{Kind: "array", Arr: []Value{}}
			if n := p.peek(); n != nil && n.Kind == Punct && n.Text == "]" {
				p.pos++
				return arr, nil
			}
			for {
				v, err := p.value()
				if err != nil {
					return Value{}, err
				}
				arr.Arr = append(arr.Arr, v)
				n := p.peek()
				if n != nil && n.Kind == Punct && n.Text == "," {
					p.pos++
					continue
				}
				if err := p.expectPunct("]"); err != nil {
					return Value{}, err
				}
				return arr, nil
			}
		case "{":
			p.pos++
			obj := Value{Kind: "object", Fields: map[string]Value{}}
			if n := p.peek(); n != nil && n.Kind == Punct && n.Text == "}" {
				p.pos++
				return obj, nil
			}
			for {
				k := p.peek()
				if k == nil || k.Kind != String {
					return Value{}, fmt.Errorf("object key must be a string literal, found %v", k)
				}
				p.pos++
				if err := p.expectPunct(":"); err != nil {
					return Value{}, err
				}
				v, err := p.value()
				if err != nil {
					return Value{}, err
				}
				// duplicate keys are legal in an object literal (the last one wins)
				obj.Keys = append(obj.Keys, k.Value)
				obj.Fields[k.Value] = v
				n := p.peek()
				if n != nil && n.Kind == Punct && n.Text == "," {
					p.pos++
					continue
				}
				if err := p.expectPunct("}"); err != nil {
					return Value{}, err
				}
				return obj, nil
			}
		}
	}
	return Value{}, fmt.Errorf("unexpected token %s", *t)
}

func parseNumber(s string) (float64, error) {
	if strings.HasSuffix(s, "n") {
		return 0, fmt.Errorf("bigint literal")
	}
	if len(s) > 1 && s[0] == '0' && s[1] >= '0' && s[1] <= '9' {
		return 0, fmt.Errorf("legacy octal or leading-zero literal %q", s)
	}
	t := strings.ReplaceAll(s, "_", "")
	if len(t) > 2 && t[0] == '0' && strings.ContainsRune("xXoObB", rune(t[1])) {
		v, err := strconv.ParseUint(t[2:], map[byte]int{'x': 16, 'X': 16, 'o': 8, 'O': 8, 'b': 2, 'B': 2}[t[1]], 64)
		return float64(v), err
	}
	return strconv.ParseFloat(t, 64)
}

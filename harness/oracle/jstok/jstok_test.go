package jstok

import (
	"encoding/json"
	"strconv"
	"testing"

	"pgregory.net/rapid"
)

// string decoding agrees with encoding/json on JSON string literals
func TestStringVsJSON(t *testing.T) {
	rapid.Check(t, func(t *rapid.T) {
		s := rapid.String().Draw(t, "s")
		b, _ := json.Marshal(s)
		toks := Tokenize(string(b))
		if len(toks) != 1 || toks[0].Kind != String || toks[0].Value != s {
			t.Fatalf("%q tokenized to %v", b, toks)
		}
		q := strconv.Quote(s) // Go quoting is also valid JS for \x, \u, \U excluded
		_ = q
	})
}

func TestTokens(t *testing.T) {
	cases := map[string][]Kind{
		`a / b`:                 {Ident, WS, Punct, WS, Ident},
		`a = /re"x/g;`:          {Ident, WS, Punct, WS, Regex, Punct},
		"x = `a${ {b:`c`} }d`;": {Ident, WS, Punct, WS, Template, Punct},
		`/* c */ "s" // x`:      {BlockComment, WS, String, WS, LineComment},
		`"unterminated`:         {Error},
		`f(1)/2`:                {Ident, Punct, Number, Punct, Punct, Number},
		"'\u2028'":              {String},
	}
	for src, want := range cases {
		toks := Tokenize(src)
		if len(toks) != len(want) {
			t.Errorf("%q: %v", src, toks)
			continue
		}
		for i := range want {
			if toks[i].Kind != want[i] {
				t.Errorf("%q: token %d is %v want %v", src, i, toks[i], want[i])
			}
		}
	}
	v, err := ParseValue(`{"a":[1,-2.5e3,null,true,"x'"],"b":new Date("2020-01-02T03:04:05.000Z")}`)
	if err != nil || v.Fields["a"].Arr[4].Str != "x'" || v.Fields["b"].Kind != "date" {
		t.Fatalf("%v %v", v, err)
	}
	for _, bad := range []string{`+Inf`, `1 2`, `[1,]`, `{a:1}`, `f()`, `1;`, `"a" + "b"`, "", `undefined/* x */ y`} {
		if _, err := ParseValue(bad); err == nil {
			t.Errorf("ParseValue(%q) accepted", bad)
		}
	}
}

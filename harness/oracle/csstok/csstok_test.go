package csstok

import "testing"

func TestBasics(t *testing.T) {
	toks := Significant(Tokenize(`a { content: "x\3c c\22 \\"; background: url( a\29 b ) } /* c */`))
	if toks[4].Kind != String || toks[4].Value != "x<c\"\\" {
		t.Fatalf("%v %q", toks, toks[4].Value)
	}
	var u *Token
	for i := range toks {
		if toks[i].Kind == URL {
			u = &toks[i]
		}
	}
	if u == nil || u.Value != "a)b" {
		t.Fatalf("%v", toks)
	}
	if k := Tokenize("\"a\nb\"")[0].Kind; k != BadString {
		t.Fatalf("%v", k)
	}
	if v := Tokenize(`"\3cc"`)[0].Value; v != "ό" {
		t.Fatalf("%q", v)
	}
	if v := Tokenize(`"\3c c"`)[0].Value; v != "<c" {
		t.Fatalf("%q", v)
	}
	if v := Tokenize("'a\\\nb'")[0].Value; v != "ab" {
		t.Fatalf("%q", v)
	}
}

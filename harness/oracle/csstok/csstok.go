// Package csstok is a tokenizer following CSS Syntax Module Level 3 §4.3,
// including the escape decoder. It is an oracle for the scriggo checks.
package csstok

import (
	"fmt"
	"strings"
	"unicode/utf8"
)

type Kind int

const (
	WS Kind = iota
	Comment
	String
	BadString
	URL
	BadURL
	Ident
	Function
	AtKeyword
	Hash
	Number
	Percentage
	Dimension
	Delim
	CDO
	CDC
	Colon
	Semicolon
	Comma
	LBracket
	RBracket
	LParen
	RParen
	LBrace
	RBrace
	UnclosedComment
)

var names = [...]string{"ws", "comment", "string", "bad-string", "url", "bad-url", "ident", "function", "at-keyword", "hash", "number", "percentage", "dimension", "delim", "cdo", "cdc", "colon", "semicolon", "comma", "[", "]", "(", ")", "{", "}", "unclosed-comment"}

func (k Kind) String() string { return names[k] }

type Token struct {
	Kind  Kind
	Text  string // source text
	Value string // decoded value (strings, urls, idents)
	Start int
}

func (t Token) String() string { return fmt.Sprintf("%s(%q)", t.Kind, t.Text) }

// Preprocess applies §3.3: CR, FF and CRLF become LF; NUL becomes U+FFFD.
func Preprocess(s string) string {
	s = strings.ReplaceAll(s, "\r\n", "\n")
	s = strings.ReplaceAll(s, "\r", "\n")
	s = strings.ReplaceAll(s, "\f", "\n")
	s = strings.ReplaceAll(s, "\x00", "\uFFFD")
	return s
}

type lexer struct {
	s string
	i int
}

func isNL(c byte) bool  { return c == '\n' }
func isWSb(c byte) bool { return c == '\n' || c == '\t' || c == ' ' }
func isHex(c byte) bool {
	return c >= '0' && c <= '9' || c >= 'a' && c <= 'f' || c >= 'A' && c <= 'F'
}
func isDigit(c byte) bool { return c >= '0' && c <= '9' }
func isNameStart(r rune) bool {
	return r >= 'a' && r <= 'z' || r >= 'A' && r <= 'Z' || r == '_' || r >= 0x80
}
func isName(r rune) bool { return isNameStart(r) || r >= '0' && r <= '9' || r == '-' }

func (l *lexer) peek(n int) byte {
	if l.i+n < len(l.s) {
		return l.s[l.i+n]
	}
	return 0
}
func (l *lexer) has(n int) bool { return l.i+n < len(l.s) }

func (l *lexer) validEscape(off int) bool {
	return l.has(off+1) && l.s[l.i+off] == '\\' && l.s[l.i+off+1] != '\n'
}

func (l *lexer) runeAt(off int) rune {
	if !l.has(off) {
		return -1
	}
	r, _ := utf8.DecodeRuneInString(l.s[l.i+off:])
	return r
}

func (l *lexer) startsIdent() bool {
	c := l.peek(0)
	switch {
	case c == '-':
		r := l.runeAt(1)
		return r >= 0 && isNameStart(r) || l.peek(1) == '-' || l.validEscape(1)
	case c == '\\':
		return l.validEscape(0)
	}
	r := l.runeAt(0)
	return r >= 0 && isNameStart(r)
}

func (l *lexer) startsNumber() bool {
	c := l.peek(0)
	switch {
	case c == '+' || c == '-':
		if isDigit(l.peek(1)) {
			return true
		}
		return l.peek(1) == '.' && isDigit(l.peek(2))
	case c == '.':
		return isDigit(l.peek(1))
	}
	return isDigit(c)
}

// consumeEscape assumes the backslash was consumed and a valid escape follows.
func (l *lexer) consumeEscape() rune {
	if l.i >= len(l.s) {
		return 0xFFFD
	}
	if isHex(l.s[l.i]) {
		v := 0
		n := 0
		for l.i < len(l.s) && n < 6 && isHex(l.s[l.i]) {
			c := l.s[l.i]
			switch {
			case c <= '9':
				v = v*16 + int(c-'0')
			case c >= 'a':
				v = v*16 + int(c-'a'+10)
			default:
				v = v*16 + int(c-'A'+10)
			}
			l.i++
			n++
		}
		if l.i < len(l.s) && isWSb(l.s[l.i]) {
			l.i++
		}
		if v == 0 || v >= 0xD800 && v <= 0xDFFF || v > 0x10FFFF {
			return 0xFFFD
		}
		return rune(v)
	}
	r, sz := utf8.DecodeRuneInString(l.s[l.i:])
	l.i += sz
	return r
}

func (l *lexer) consumeName() string {
	var b strings.Builder
	for l.i < len(l.s) {
		r, sz := utf8.DecodeRuneInString(l.s[l.i:])
		if isName(r) {
			if r == utf8.RuneError && sz == 1 {
				b.WriteByte(l.s[l.i])
			} else {
				b.WriteRune(r)
			}
			l.i += sz
		} else if l.validEscape(0) {
			l.i++
			b.WriteRune(l.consumeEscape())
		} else {
			break
		}
	}
	return b.String()
}

func (l *lexer) consumeString(q byte) (Kind, string) {
	var b strings.Builder
	for l.i < len(l.s) {
		c := l.s[l.i]
		switch {
		case c == q:
			l.i++
			return String, b.String()
		case c == '\n':
			return BadString, b.String()
		case c == '\\':
			if l.i+1 >= len(l.s) {
				l.i++
				continue
			}
			if l.s[l.i+1] == '\n' {
				l.i += 2
				continue
			}
			l.i++
			b.WriteRune(l.consumeEscape())
		default:
			b.WriteByte(c)
			l.i++
		}
	}
	return String, b.String() // EOF: parse error, but the string token is returned
}

func (l *lexer) consumeNumber() {
	if c := l.peek(0); c == '+' || c == '-' {
		l.i++
	}
	for isDigit(l.peek(0)) && l.has(0) {
		l.i++
	}
	if l.peek(0) == '.' && isDigit(l.peek(1)) {
		l.i += 2
		for l.has(0) && isDigit(l.peek(0)) {
			l.i++
		}
	}
	if c := l.peek(0); c == 'e' || c == 'E' {
		if isDigit(l.peek(1)) {
			l.i += 2
		} else if (l.peek(1) == '+' || l.peek(1) == '-') && isDigit(l.peek(2)) {
			l.i += 3
		} else {
			return
		}
		for l.has(0) && isDigit(l.peek(0)) {
			l.i++
		}
	}
}

func (l *lexer) consumeURL() (Kind, string) {
	for l.has(0) && isWSb(l.peek(0)) {
		l.i++
	}
	var b strings.Builder
	for l.i < len(l.s) {
		c := l.s[l.i]
		switch {
		case c == ')':
			l.i++
			return URL, b.String()
		case isWSb(c):
			for l.has(0) && isWSb(l.peek(0)) {
				l.i++
			}
			if !l.has(0) {
				return URL, b.String()
			}
			if l.peek(0) == ')' {
				l.i++
				return URL, b.String()
			}
			l.badURLRemnants()
			return BadURL, ""
		case c == '"' || c == '\'' || c == '(' || c <= 8 || c == 0x0B || c >= 0x0E && c <= 0x1F || c == 0x7F:
			l.badURLRemnants()
			return BadURL, ""
		case c == '\\':
			if l.validEscape(0) {
				l.i++
				b.WriteRune(l.consumeEscape())
			} else {
				l.badURLRemnants()
				return BadURL, ""
			}
		default:
			b.WriteByte(c)
			l.i++
		}
	}
	return URL, b.String()
}

func (l *lexer) badURLRemnants() {
	for l.i < len(l.s) {
		if l.s[l.i] == ')' {
			l.i++
			return
		}
		if l.validEscape(0) {
			l.i++
			l.consumeEscape()
			continue
		}
		l.i++
	}
}

// Tokenize tokenizes preprocessed CSS source. Comments are returned as tokens.
func Tokenize(src string) []Token {
	l := &lexer{s: src}
	var out []Token
	for l.i < len(l.s) {
		start := l.i
		kind, val := l.next()
		out = append(out, Token{Kind: kind, Text: l.s[start:l.i], Value: val, Start: start})
	}
	return out
}

func (l *lexer) next() (Kind, string) {
	c := l.s[l.i]
	switch {
	case c == '/' && l.peek(1) == '*':
		end := strings.Index(l.s[l.i+2:], "*/")
		if end < 0 {
			l.i = len(l.s)
			return UnclosedComment, ""
		}
		l.i += 2 + end + 2
		return Comment, ""
	case isWSb(c):
		for l.has(0) && isWSb(l.peek(0)) {
			l.i++
		}
		return WS, ""
	case c == '"' || c == '\'':
		l.i++
		return l.consumeString(c)
	case c == '#':
		if r := l.runeAt(1); r >= 0 && isName(r) || l.validEscape(1) {
			l.i++
			return Hash, l.consumeName()
		}
		l.i++
		return Delim, "#"
	case c == '(':
		l.i++
		return LParen, ""
	case c == ')':
		l.i++
		return RParen, ""
	case c == '+' || c == '.':
		if l.startsNumber() {
			return l.numeric()
		}
		l.i++
		return Delim, string(c)
	case c == ',':
		l.i++
		return Comma, ""
	case c == '-':
		if l.startsNumber() {
			return l.numeric()
		}
		if l.peek(1) == '-' && l.peek(2) == '>' {
			l.i += 3
			return CDC, ""
		}
		if l.startsIdent() {
			return l.identLike()
		}
		l.i++
		return Delim, "-"
	case c == ':':
		l.i++
		return Colon, ""
	case c == ';':
		l.i++
		return Semicolon, ""
	case c == '<':
		if strings.HasPrefix(l.s[l.i:], "<!--") {
			l.i += 4
			return CDO, ""
		}
		l.i++
		return Delim, "<"
	case c == '@':
		l.i++
		if l.startsIdent() {
			return AtKeyword, l.consumeName()
		}
		return Delim, "@"
	case c == '[':
		l.i++
		return LBracket, ""
	case c == ']':
		l.i++
		return RBracket, ""
	case c == '{':
		l.i++
		return LBrace, ""
	case c == '}':
		l.i++
		return RBrace, ""
	case c == '\\':
		if l.validEscape(0) {
			return l.identLike()
		}
		l.i++
		return Delim, "\\"
	case isDigit(c):
		return l.numeric()
	}
	if r := l.runeAt(0); isNameStart(r) {
		return l.identLike()
	}
	_, sz := utf8.DecodeRuneInString(l.s[l.i:])
	l.i += sz
	return Delim, l.s[l.i-sz : l.i]
}

func (l *lexer) numeric() (Kind, string) {
	l.consumeNumber()
	if l.startsIdent() {
		l.consumeName()
		return Dimension, ""
	}
	if l.peek(0) == '%' && l.has(0) {
		l.i++
		return Percentage, ""
	}
	return Number, ""
}

func (l *lexer) identLike() (Kind, string) {
	name := l.consumeName()
	if strings.EqualFold(name, "url") && l.peek(0) == '(' && l.has(0) {
		l.i++
		// skip whitespace but keep one look-ahead to see a quote
		j := l.i
		for j < len(l.s) && isWSb(l.s[j]) {
			j++
		}
		if j < len(l.s) && (l.s[j] == '"' || l.s[j] == '\'') {
			return Function, name
		}
		return l.consumeURL()
	}
	if l.peek(0) == '(' && l.has(0) {
		l.i++
		return Function, name
	}
	return Ident, name
}

// Significant drops whitespace and comments.
func Significant(toks []Token) []Token {
	var out []Token
	for _, t := range toks {
		if t.Kind != WS && t.Kind != Comment {
			out = append(out, t)
		}
	}
	return out
}

// Package skel flattens a rendered document into a token list using the
// standard parser of its format (and, recursively, of embedded languages), so
// that two renders of the same template can be compared structurally.
package skel

import (
	"bytes"
	"encoding/json"
	"fmt"
	"strings"

	"golang.org/x/net/html"

	"verif/harness/oracle/csstok"
	"verif/harness/oracle/jstok"
)

// Tok is one structural unit. Kind identifies the slot kind; Text is its
// content (decoded where the language has a decoding); Raw is the source text.
type Tok struct {
	Kind string
	Text string
	Raw  string
}

func (t Tok) String() string { return fmt.Sprintf("%s‹%s›", t.Kind, t.Text) }

// Tokens tokenizes out according to format: html, js, css, json, text.
func Tokens(out, format string) ([]Tok, error) {
	switch format {
	case "html":
		return htmlTokens(out)
	case "js":
		return jsTokens(out)
	case "css":
		return cssTokens(out)
	case "json":
		return jsonTokens(out)
	}
	return []Tok{{Kind: "TEXT", Text: out, Raw: out}}, nil
}

func attrOf(t html.Token, key string) (string, bool) {
	for _, a := range t.Attr {
		if a.Key == key {
			return a.Val, true
		}
	}
	return "", false
}

func htmlTokens(out string) ([]Tok, error) {
	z := html.NewTokenizer(strings.NewReader(out))
	var toks []Tok
	raw := "" // name of the raw-text element we are inside, with its language
	lang := ""
	for {
		tt := z.Next()
		if tt == html.ErrorToken {
			break
		}
		t := z.Token()
		switch tt {
		case html.StartTagToken, html.SelfClosingTagToken:
			toks = append(toks, Tok{Kind: "S", Text: t.Data})
			for _, a := range t.Attr {
				toks = append(toks, Tok{Kind: "AK", Text: a.Key}, Tok{Kind: "AV", Text: a.Val})
			}
			if tt == html.StartTagToken {
				switch t.Data {
				case "script":
					raw = "script"
					typ, _ := attrOf(t, "type")
					typ = strings.ToLower(strings.TrimSpace(typ))
					switch {
					case typ == "" || typ == "text/javascript" || typ == "module" || typ == "application/javascript":
						lang = "js"
					case typ == "application/ld+json" || typ == "application/json":
						lang = "json"
					default:
						lang = "data"
					}
				case "style":
					raw = "style"
					lang = "css"
				}
			}
		case html.EndTagToken:
			toks = append(toks, Tok{Kind: "E", Text: t.Data})
			raw, lang = "", ""
		case html.TextToken:
			if raw != "" {
				// the tokenizer does not unescape raw text
				var sub []Tok
				var err error
				switch lang {
				case "js":
					sub, err = jsTokens(t.Data)
				case "css":
					sub, err = cssTokens(t.Data)
				case "json":
					sub, err = jsonTokens(t.Data)
				default:
					sub = []Tok{{Kind: "DATA", Text: t.Data, Raw: t.Data}}
				}
				if err != nil {
					// keep going: an untokenizable embedded script is itself a structural fact
					sub = []Tok{{Kind: strings.ToUpper(lang) + ":BROKEN", Text: err.Error(), Raw: t.Data}}
				}
				toks = append(toks, sub...)
			} else {
				toks = append(toks, Tok{Kind: "TX", Text: t.Data, Raw: t.Data})
			}
		case html.CommentToken:
			toks = append(toks, Tok{Kind: "CM", Text: t.Data})
		case html.DoctypeToken:
			toks = append(toks, Tok{Kind: "DT", Text: t.Data})
		}
	}
	return toks, nil
}

func jsTokens(src string) ([]Tok, error) {
	var out []Tok
	for _, t := range jstok.Tokenize(src) {
		switch t.Kind {
		case jstok.WS, jstok.LineTerm:
			continue
		case jstok.Error:
			return nil, fmt.Errorf("JavaScript does not tokenize at offset %d: %q", t.Start, trunc(t.Text))
		case jstok.String:
			out = append(out, Tok{Kind: "JS:string", Text: t.Value, Raw: t.Text})
		default:
			out = append(out, Tok{Kind: "JS:" + t.Kind.String(), Text: t.Text, Raw: t.Text})
		}
	}
	return out, nil
}

func cssTokens(src string) ([]Tok, error) {
	var out []Tok
	for _, t := range csstok.Tokenize(csstok.Preprocess(src)) {
		switch t.Kind {
		case csstok.WS:
			continue
		case csstok.String, csstok.URL, csstok.Ident, csstok.Function, csstok.Hash, csstok.AtKeyword:
			out = append(out, Tok{Kind: "CSS:" + t.Kind.String(), Text: t.Value, Raw: t.Text})
		default:
			out = append(out, Tok{Kind: "CSS:" + t.Kind.String(), Text: t.Text, Raw: t.Text})
		}
	}
	return out, nil
}

func jsonTokens(src string) ([]Tok, error) {
	d := json.NewDecoder(bytes.NewReader([]byte(src)))
	d.UseNumber()
	var out []Tok
	for {
		t, err := d.Token()
		if err != nil {
			if err.Error() == "EOF" {
				break
			}
			return nil, fmt.Errorf("JSON does not parse: %v", err)
		}
		switch v := t.(type) {
		case json.Delim:
			out = append(out, Tok{Kind: "J:" + v.String(), Text: v.String(), Raw: v.String()})
		case string:
			b, _ := json.Marshal(v)
			out = append(out, Tok{Kind: "J:string", Text: v, Raw: string(b)})
		case json.Number:
			out = append(out, Tok{Kind: "J:number", Text: v.String(), Raw: v.String()})
		case bool:
			out = append(out, Tok{Kind: "J:bool", Text: fmt.Sprint(v), Raw: fmt.Sprint(v)})
		case nil:
			out = append(out, Tok{Kind: "J:null", Text: "null", Raw: "null"})
		}
	}
	return out, nil
}

func trunc(s string) string {
	if len(s) > 60 {
		return s[:60] + "…"
	}
	return s
}

// Diff returns the common prefix length, the differing middles of a and b and
// the common suffix length.
func Diff(a, b []Tok) (prefix int, ma, mb []Tok, suffix int) {
	for prefix < len(a) && prefix < len(b) && a[prefix].Kind == b[prefix].Kind && a[prefix].Text == b[prefix].Text {
		prefix++
	}
	for suffix < len(a)-prefix && suffix < len(b)-prefix {
		x, y := a[len(a)-1-suffix], b[len(b)-1-suffix]
		if x.Kind != y.Kind || x.Text != y.Text {
			break
		}
		suffix++
	}
	return prefix, a[prefix : len(a)-suffix], b[prefix : len(b)-suffix], suffix
}

// Package probe builds arbitrary sources under a watchdog and reports everything the build
// did that a caller can observe: result or error, host panic, hang, goroutines left behind,
// the files it opened, and whether Disassemble of a successful build panics.
package probe

import (
	"fmt"
	"io"
	"io/fs"
	"runtime"
	"runtime/debug"
	"sync"
	"time"

	"github.com/open2b/scriggo"
	"github.com/open2b/scriggo/native"
)

// Input is a file set built as a program or as a template.
type Input struct {
	Kind  string            `json:"kind"` // program | template
	Files map[string]string `json:"files"`
	Main  string            `json:"main,omitempty"` // template file to build
}

// Outcome of one build.
type Outcome struct {
	Err              error
	Panic            any
	Stack            string
	Hung             bool
	LeakedGoroutines int
	Opened           []string // names successfully opened, in order
	DisasmPanic      any
	Built            bool
}

// HangLimit is the time after which a build that has not returned is declared hung.
const HangLimit = 30 * time.Second

type recFS struct {
	files scriggo.Files
	mu    sync.Mutex
	names []string
}

func (r *recFS) Open(name string) (fs.File, error) {
	f, err := r.files.Open(name)
	if _, isFile := r.files[name]; err == nil && isFile {
		r.mu.Lock()
		r.names = append(r.names, name)
		r.mu.Unlock()
	}
	return f, err
}

var globals = native.Declarations{
	"v": (*string)(nil),
	"n": (*int)(nil),
	"l": (*[]int)(nil),
	"f": func(s string) string { return s },
	"T": "const",
}

// Build runs the build.
func Build(in Input) (o Outcome) {
	base := runtime.NumGoroutine()
	files := scriggo.Files{}
	for n, s := range in.Files {
		files[n] = []byte(s)
	}
	rec := &recFS{files: files}
	type res struct {
		prog  *scriggo.Program
		tmpl  *scriggo.Template
		err   error
		panic any
		stack string
	}
	ch := make(chan res, 1)
	go func() {
		var r res
		defer func() {
			if e := recover(); e != nil {
				r.panic = e
				r.stack = string(debug.Stack())
			}
			ch <- r
		}()
		if in.Kind == "program" {
			r.prog, r.err = scriggo.Build(rec, &scriggo.BuildOptions{AllowGoStmt: true})
		} else {
			r.tmpl, r.err = scriggo.BuildTemplate(rec, in.Main, &scriggo.BuildOptions{Globals: globals, AllowGoStmt: true, MarkdownConverter: func(src []byte, out io.Writer) error { _, err := out.Write(src); return err }})
		}
	}()
	var r res
	select {
	case r = <-ch:
	case <-time.After(HangLimit):
		o.Hung = true
		return o
	}
	o.Err, o.Panic, o.Stack = r.err, r.panic, r.stack
	rec.mu.Lock()
	o.Opened = append([]string(nil), rec.names...)
	rec.mu.Unlock()
	// goroutines started by the build (the lexer) must end
	deadline := time.Now().Add(5 * time.Second)
	for runtime.NumGoroutine() > base {
		if time.Now().After(deadline) {
			o.LeakedGoroutines = runtime.NumGoroutine() - base
			break
		}
		time.Sleep(100 * time.Microsecond)
	}
	if r.panic == nil && r.err == nil {
		o.Built = true
		func() {
			defer func() {
				if e := recover(); e != nil {
					o.DisasmPanic = e
					o.Stack = string(debug.Stack())
				}
			}()
			if r.prog != nil {
				_, _ = r.prog.Disassemble("main")
			}
			if r.tmpl != nil {
				_ = r.tmpl.Disassemble(-1)
				_ = r.tmpl.Disassemble(5)
				_ = r.tmpl.UsedVars()
			}
		}()
	}
	return o
}

// Describe summarises what is wrong with an outcome for C04, "" when nothing is.
func (o Outcome) Describe() string {
	switch {
	case o.Hung:
		return fmt.Sprintf("the build has not returned after %v", HangLimit)
	case o.Panic != nil:
		return fmt.Sprintf("the build panicked: %v", o.Panic)
	case o.LeakedGoroutines > 0:
		return fmt.Sprintf("%d goroutine(s) started by the build are still running 5 s after it returned", o.LeakedGoroutines)
	case o.DisasmPanic != nil:
		return fmt.Sprintf("Disassemble of the built artefact panicked: %v", o.DisasmPanic)
	}
	return ""
}

// Package sg wraps the public scriggo API for the property packages: build and
// run under a host-side recover, with plain-data results.
package sg

import (
	"bytes"
	"context"
	"fmt"
	"io"
	"runtime/debug"
	"strings"

	"github.com/open2b/scriggo"
	"github.com/open2b/scriggo/native"
	"github.com/yuin/goldmark"
	ghtml "github.com/yuin/goldmark/renderer/html"
)

// Result is the observable outcome of building and running a template or program.
type Result struct {
	Out        string // rendered output / nothing for programs
	Printed    string // text given to the Print hook
	BuildErr   error
	RunErr     error
	BuildPanic any // panic value that escaped Build/BuildTemplate
	RunPanic   any // panic value that escaped Run
	Stack      string
}

// Goldmark is a CommonMark converter usable as scriggo.Converter.
var gm = goldmark.New(goldmark.WithRendererOptions(ghtml.WithUnsafe()))

// GoldmarkConverter converts Markdown to HTML with goldmark (CommonMark defaults, raw HTML passed through).
func GoldmarkConverter(src []byte, out io.Writer) error { return gm.Convert(src, out) }

// MarkdownToHTML converts with goldmark defaults.
func MarkdownToHTML(src string) string {
	var b bytes.Buffer
	_ = gm.Convert([]byte(src), &b)
	return b.String()
}

// Files converts a string map to scriggo.Files.
func Files(files map[string]string) scriggo.Files {
	f := scriggo.Files{}
	for k, v := range files {
		f[k] = []byte(v)
	}
	return f
}

// Opts bundles build and run options.
type Opts struct {
	Globals  native.Declarations
	Vars     map[string]any
	Packages native.Importer
	Markdown bool // install the goldmark converter
	AllowGo  bool
	Ctx      context.Context
	NoPrint  bool // leave RunOptions.Print nil
	Writer   io.Writer
	NoShort  bool
}

// BuildTemplate builds under recover.
func BuildTemplate(files map[string]string, name string, o Opts) (tmpl *scriggo.Template, res Result) {
	defer func() {
		if e := recover(); e != nil {
			res.BuildPanic = e
			res.Stack = string(debug.Stack())
		}
	}()
	bo := &scriggo.BuildOptions{Globals: o.Globals, Packages: o.Packages, AllowGoStmt: o.AllowGo, NoParseShortShowStmt: o.NoShort}
	if o.Markdown {
		bo.MarkdownConverter = GoldmarkConverter
	}
	t, err := scriggo.BuildTemplate(Files(files), name, bo)
	res.BuildErr = err
	return t, res
}

// RunTemplate runs under recover.
func RunTemplate(t *scriggo.Template, o Opts) (res Result) {
	var out bytes.Buffer
	var printed strings.Builder
	defer func() {
		if e := recover(); e != nil {
			res.RunPanic = e
			res.Stack = string(debug.Stack())
		}
		res.Out = out.String()
		res.Printed = printed.String()
	}()
	ro := &scriggo.RunOptions{Context: o.Ctx}
	if !o.NoPrint {
		ro.Print = func(v any) { fmt.Fprint(&printed, v) }
	}
	var w io.Writer = &out
	if o.Writer != nil {
		w = o.Writer
	}
	res.RunErr = t.Run(w, o.Vars, ro)
	return res
}

// Render builds and runs a template.
func Render(files map[string]string, name string, o Opts) Result {
	t, res := BuildTemplate(files, name, o)
	if res.BuildErr != nil || res.BuildPanic != nil {
		return res
	}
	return RunTemplate(t, o)
}

// BuildProgram builds under recover.
func BuildProgram(src string, o Opts) (p *scriggo.Program, res Result) {
	defer func() {
		if e := recover(); e != nil {
			res.BuildPanic = e
			res.Stack = string(debug.Stack())
		}
	}()
	bo := &scriggo.BuildOptions{Packages: o.Packages, AllowGoStmt: o.AllowGo}
	p, err := scriggo.Build(scriggo.Files{"main.go": []byte(src)}, bo)
	res.BuildErr = err
	return p, res
}

// RunProgram runs under recover with a Print hook that mimics print/println formatting.
func RunProgram(p *scriggo.Program, o Opts) (res Result) {
	var printed strings.Builder
	defer func() {
		if e := recover(); e != nil {
			res.RunPanic = e
			res.Stack = string(debug.Stack())
		}
		res.Printed = printed.String()
	}()
	ro := &scriggo.RunOptions{Context: o.Ctx}
	if !o.NoPrint {
		ro.Print = func(v any) { printed.WriteString(FormatPrint(v)) }
	}
	res.RunErr = p.Run(ro)
	return res
}

// Describe summarises a result's failure mode, "" when it rendered.
func (r Result) Describe() string {
	switch {
	case r.BuildPanic != nil:
		return fmt.Sprintf("build panic: %v", r.BuildPanic)
	case r.BuildErr != nil:
		return fmt.Sprintf("build error: %v", r.BuildErr)
	case r.RunPanic != nil:
		return fmt.Sprintf("run panic: %v", r.RunPanic)
	case r.RunErr != nil:
		return fmt.Sprintf("run error: %v", r.RunErr)
	}
	return ""
}

// FormatPrint formats a value given to the Print hook. It is only used to
// compare scriggo runs with each other (the gc differential uses the real
// default print path in a subprocess), so fmt's formatting is enough.
func FormatPrint(v any) string { return fmt.Sprint(v) }

// Package sg wraps the public scriggo API for the property packages: build and
// run under a host-side recover, with plain-data results.
package sg

import (
	"bytes"
	"context"
	"fmt"
	"io"
	"reflect"
	"runtime/debug"
	"strconv"
	"strings"

	"github.com/open2b/scriggo"
	"github.com/open2b/scriggo/native"
	"github.com/yuin/goldmark"
	ghtml "github.com/yuin/goldmark/renderer/html"
)

// Result is the observable outcome of building and running a template or program.
type Result struct {
	Out        string // rendered output / nothing for programs
	Printed    string // text given to the Print hook
	BuildErr   error
	RunErr     error
	BuildPanic any // panic value that escaped Build/BuildTemplate
	RunPanic   any // panic value that escaped Run
	Stack      string
}

// Goldmark is a CommonMark converter usable as scriggo.Converter.
var gm = goldmark.New(goldmark.WithRendererOptions(ghtml.WithUnsafe()))

// GoldmarkConverter converts Markdown to HTML with goldmark (CommonMark defaults, raw HTML passed through).
func GoldmarkConverter(src []byte, out io.Writer) error { return gm.Convert(src, out) }

// MarkdownToHTML converts with goldmark defaults.
func MarkdownToHTML(src string) string {
	var b bytes.Buffer
	_ = gm.Convert([]byte(src), &b)
	return b.String()
}

// Files converts a string map to scriggo.Files.
func Files(files map[string]string) scriggo.Files {
	f := scriggo.Files{}
	for k, v := range files {
		f[k] = []byte(v)
	}
	return f
}

// Opts bundles build and run options.
type Opts struct {
	PrintLikeGo bool // RunTemplate: format printed values as RunProgram does (as gc's print)
	Globals  native.Declarations
	Vars     map[string]any
	Packages native.Importer
	Markdown bool // install the goldmark converter
	AllowGo  bool
	Ctx      context.Context
	NoPrint  bool // leave RunOptions.Print nil
	Writer   io.Writer
	NoShort  bool
}

// BuildTemplate builds under recover.
func BuildTemplate(files map[string]string, name string, o Opts) (tmpl *scriggo.Template, res Result) {
	defer func() {
		if e := recover(); e != nil {
			res.BuildPanic = e
			res.Stack = string(debug.Stack())
		}
	}()
	bo := &scriggo.BuildOptions{Globals: o.Globals, Packages: o.Packages, AllowGoStmt: o.AllowGo, NoParseShortShowStmt: o.NoShort}
	if o.Markdown {
		bo.MarkdownConverter = GoldmarkConverter
	}
	t, err := scriggo.BuildTemplate(Files(files), name, bo)
	res.BuildErr = err
	return t, res
}

// RunTemplate runs under recover.
func RunTemplate(t *scriggo.Template, o Opts) (res Result) {
	var out bytes.Buffer
	var printed strings.Builder
	defer func() {
		if e := recover(); e != nil {
			res.RunPanic = e
			res.Stack = string(debug.Stack())
		}
		res.Out = out.String()
		res.Printed = printed.String()
	}()
	ro := &scriggo.RunOptions{Context: o.Ctx}
	if !o.NoPrint {
		ro.Print = func(v any) {
			if printed.Len() >= 16<<20 {
				return // a runaway template must not exhaust the memory of the checker
			}
			if o.PrintLikeGo {
				printed.WriteString(FormatPrint(v))
			} else {
				fmt.Fprint(&printed, v)
			}
		}
	}
	var w io.Writer = &out
	if o.Writer != nil {
		w = o.Writer
	}
	res.RunErr = t.Run(w, o.Vars, ro)
	return res
}

// Render builds and runs a template.
func Render(files map[string]string, name string, o Opts) Result {
	t, res := BuildTemplate(files, name, o)
	if res.BuildErr != nil || res.BuildPanic != nil {
		return res
	}
	return RunTemplate(t, o)
}

// BuildProgram builds under recover.
func BuildProgram(src string, o Opts) (p *scriggo.Program, res Result) {
	defer func() {
		if e := recover(); e != nil {
			res.BuildPanic = e
			res.Stack = string(debug.Stack())
		}
	}()
	bo := &scriggo.BuildOptions{Packages: o.Packages, AllowGoStmt: o.AllowGo}
	p, err := scriggo.Build(scriggo.Files{"main.go": []byte(src)}, bo)
	res.BuildErr = err
	return p, res
}

// RunProgram runs under recover with a Print hook that mimics print/println formatting.
func RunProgram(p *scriggo.Program, o Opts) (res Result) {
	var printed strings.Builder
	defer func() {
		if e := recover(); e != nil {
			res.RunPanic = e
			res.Stack = string(debug.Stack())
		}
		res.Printed = printed.String()
	}()
	ro := &scriggo.RunOptions{Context: o.Ctx}
	if !o.NoPrint {
		ro.Print = func(v any) {
			// a runaway program must not exhaust the memory of the checker: text beyond 16 MiB is dropped
			if printed.Len() < 16<<20 {
				printed.WriteString(FormatPrint(v))
			}
		}
	}
	res.RunErr = p.Run(ro)
	return res
}

// Describe summarises a result's failure mode, "" when it rendered.
func (r Result) Describe() string {
	switch {
	case r.BuildPanic != nil:
		return fmt.Sprintf("build panic: %v", r.BuildPanic)
	case r.BuildErr != nil:
		return fmt.Sprintf("build error: %v", r.BuildErr)
	case r.RunPanic != nil:
		return fmt.Sprintf("run panic: %v", r.RunPanic)
	case r.RunErr != nil:
		return fmt.Sprintf("run error: %v", r.RunErr)
	}
	return ""
}

// FormatPrint formats a value given to the Print hook exactly as the print
// and println builtins of gc do (runtime/print.go of go1.25), so that the text
// can be compared with the stderr of the same program built by gc.
func FormatPrint(v any) string {
	switch x := v.(type) {
	case nil:
		return "(0x0,0x0)"
	case string:
		return x
	case bool:
		if x {
			return "true"
		}
		return "false"
	}
	r := reflect.ValueOf(v)
	switch r.Kind() {
	case reflect.Bool:
		return fmt.Sprint(r.Bool())
	case reflect.Int, reflect.Int8, reflect.Int16, reflect.Int32, reflect.Int64:
		return strconv.FormatInt(r.Int(), 10)
	case reflect.Uint, reflect.Uint8, reflect.Uint16, reflect.Uint32, reflect.Uint64, reflect.Uintptr:
		return strconv.FormatUint(r.Uint(), 10)
	case reflect.Float32, reflect.Float64:
		return printFloat(r.Float())
	case reflect.Complex64, reflect.Complex128:
		c := r.Complex()
		return "(" + printFloat(real(c)) + printFloat(imag(c)) + "i)"
	case reflect.String:
		return r.String()
	}
	return fmt.Sprintf("<unprintable %T>", v)
}

// printFloat is a port of runtime.printfloat.
func printFloat(v float64) string {
	switch {
	case v != v:
		return "NaN"
	case v+v == v && v > 0:
		return "+Inf"
	case v+v == v && v < 0:
		return "-Inf"
	}
	const n = 7
	var buf [n + 7]byte
	buf[0] = '+'
	e := 0
	if v == 0 {
		if 1/v < 0 {
			buf[0] = '-'
		}
	} else {
		if v < 0 {
			v = -v
			buf[0] = '-'
		}
		for v >= 10 {
			e++
			v /= 10
		}
		for v < 1 {
			e--
			v *= 10
		}
		h := 5.0
		for i := 0; i < n; i++ {
			h /= 10
		}
		v += h
		if v >= 10 {
			e++
			v /= 10
		}
	}
	for i := 0; i < n; i++ {
		s := int(v)
		buf[i+2] = byte(s + '0')
		v -= float64(s)
		v *= 10
	}
	buf[1] = buf[2]
	buf[2] = '.'
	buf[n+2] = 'e'
	buf[n+3] = '+'
	if e < 0 {
		e = -e
		buf[n+3] = '-'
	}
	buf[n+4] = byte(e/100) + '0'
	buf[n+5] = byte(e/10)%10 + '0'
	buf[n+6] = byte(e%10) + '0'
	return string(buf[:])
}

// Package gcref runs Go programs with the gc toolchain and returns their
// transcripts: the reference semantics for the differential properties.
// Programs are compiled in batches (one package per program, one driver) and
// transcripts are cached on disk by source hash: gc's behaviour does not
// depend on the scriggo tree, so the cache is sound across edits of /repo.
package gcref

import (
	"bytes"
	"crypto/sha256"
	"encoding/hex"
	"encoding/json"
	"fmt"
	"os"
	"os/exec"
	"path/filepath"
	"regexp"
	"runtime"
	"strconv"
	"strings"
	"sync"
	"time"
)

// Transcript is the observable behaviour of one program.
type Transcript struct {
	Out      string `json:"-"`     // text printed with print/println (stderr) before any panic
	OutB     []byte `json:"out_b"` // Out as bytes (JSON strings cannot carry invalid UTF-8)
	Panic    string `json:"panic"` // panic text as gc prints it after "panic: ", up to the goroutine dump; "" if none
	Exit     int    `json:"exit"`  // process exit status
	Fatal    string `json:"fatal"` // "fatal error: …" (deadlock, stack overflow, timeout): the program is outside the domain
	BuildErr string `json:"build_err,omitempty"`
}

const goBin = "/root/go/pkg/mod/golang.org/toolchain@v0.0.1-go1.25.0.linux-amd64/bin/go"

func cacheDir() string {
	d := os.Getenv("VERIF_DIR")
	if d == "" {
		d = "/verif"
	}
	return filepath.Join(d, ".cache", "gcref")
}

func key(src string) string {
	h := sha256.Sum256([]byte("go1.25.0/v2\x00" + src))
	return hex.EncodeToString(h[:])
}

func load(src string) (Transcript, bool) {
	b, err := os.ReadFile(filepath.Join(cacheDir(), key(src)+".json"))
	if err != nil {
		return Transcript{}, false
	}
	var t Transcript
	if json.Unmarshal(b, &t) != nil {
		return Transcript{}, false
	}
	t.Out = string(t.OutB)
	t.markHuge()
	return t, true
}

// MaxPrint is the longest single print gc is trusted with: the runtime writes a printed string
// with one write system call and does not continue a short write (a write to a pipe longer than
// its buffer is cut when a preemption signal arrives), so longer lines can be truncated by gc
// itself. A transcript with a longer line is marked Fatal and the program is outside the domain.
const MaxPrint = 32 << 10

func (t *Transcript) markHuge() {
	if t.Fatal != "" {
		return
	}
	n := 0
	for i := 0; i < len(t.Out); i++ {
		if t.Out[i] == '\n' {
			n = 0
		} else if n++; n > MaxPrint {
			t.Fatal = "output line too long: gc may truncate it"
			return
		}
	}
}

func store(src string, t Transcript) {
	_ = os.MkdirAll(cacheDir(), 0o755)
	t.OutB = []byte(t.Out)
	b, _ := json.Marshal(t)
	tmp := filepath.Join(cacheDir(), key(src)+fmt.Sprintf(".%d.tmp", os.Getpid()))
	if os.WriteFile(tmp, b, 0o644) == nil {
		_ = os.Rename(tmp, filepath.Join(cacheDir(), key(src)+".json"))
	}
}

var (
	rePkg  = regexp.MustCompile(`(?m)^package main\b`)
	reMain = regexp.MustCompile(`(?m)^func main\(\)`)
)

func goEnv() []string {
	env := os.Environ()
	out := env[:0:0]
	for _, e := range env {
		if strings.HasPrefix(e, "GOFLAGS=") || strings.HasPrefix(e, "GOPROXY=") || strings.HasPrefix(e, "GOTOOLCHAIN=") || strings.HasPrefix(e, "GOMAXPROCS=") {
			continue
		}
		out = append(out, e)
	}
	return append(out, "GOFLAGS=-mod=mod", "GOPROXY=off", "GOTOOLCHAIN=local", "GOWORK=off")
}

// parse splits the stderr of a run into printed output and panic text.
func parse(stderr string, exit int) (t Transcript) {
	defer t.markHuge()
	t = Transcript{Exit: exit}
	if i := strings.Index(stderr, "fatal error: "); i >= 0 && (i == 0 || stderr[i-1] == '\n') {
		t.Out = stderr[:i]
		t.Fatal = firstLine(stderr[i:])
		return t
	}
	i := -1
	if strings.HasPrefix(stderr, "panic: ") {
		i = 0
	} else if j := strings.Index(stderr, "\npanic: "); j >= 0 {
		i = j + 1
	}
	if i < 0 || exit == 0 {
		t.Out = stderr
		return t
	}
	t.Out = stderr[:i]
	rest := stderr[i+len("panic: "):]
	if k := strings.Index(rest, "\n\ngoroutine "); k >= 0 {
		rest = rest[:k]
	}
	// drop "[signal …]" lines
	var lines []string
	for _, l := range strings.Split(rest, "\n") {
		if strings.HasPrefix(l, "[signal ") {
			continue
		}
		lines = append(lines, l)
	}
	t.Panic = strings.TrimRight(strings.Join(lines, "\n"), "\n")
	return t
}

func firstLine(s string) string {
	if i := strings.IndexByte(s, '\n'); i >= 0 {
		return s[:i]
	}
	return s
}

var mu sync.Mutex

// Run returns the transcripts of the programs (each a complete `package main`
// source with a `func main()` and no other use of the identifier main).
func Run(sources []string) ([]Transcript, error) {
	out := make([]Transcript, len(sources))
	var missing []int
	seen := map[string]int{}
	for i, s := range sources {
		if t, ok := load(s); ok {
			out[i] = t
			continue
		}
		if j, dup := seen[s]; dup {
			_ = j
		}
		seen[s] = i
		missing = append(missing, i)
	}
	if len(missing) == 0 {
		return out, nil
	}
	mu.Lock() // one gc batch at a time per process
	defer mu.Unlock()
	dir, err := os.MkdirTemp("", "gcref-*")
	if err != nil {
		return nil, err
	}
	defer os.RemoveAll(dir)
	var drv bytes.Buffer
	drv.WriteString("package main\nimport (\n\t\"os\"\n")
	for n, i := range missing {
		src := sources[i]
		src = rePkg.ReplaceAllString(src, fmt.Sprintf("package p%d", n))
		src = reMain.ReplaceAllString(src, "func Main()")
		pd := filepath.Join(dir, fmt.Sprintf("p%d", n))
		_ = os.MkdirAll(pd, 0o755)
		if err := os.WriteFile(filepath.Join(pd, "p.go"), []byte(src), 0o644); err != nil {
			return nil, err
		}
		fmt.Fprintf(&drv, "\tp%d \"gcbatch/p%d\"\n", n, n)
	}
	drv.WriteString(")\nfunc main() {\n\tswitch os.Args[1] {\n")
	for n := range missing {
		fmt.Fprintf(&drv, "\tcase \"%d\":\n\t\tp%d.Main()\n", n, n)
	}
	drv.WriteString("\t}\n}\n")
	_ = os.WriteFile(filepath.Join(dir, "main.go"), drv.Bytes(), 0o644)
	_ = os.WriteFile(filepath.Join(dir, "go.mod"), []byte("module gcbatch\n\ngo 1.25.0\n"), 0o644)
	build := exec.Command(goBin, "build", buildJobs(), "-o", "drv", ".")
	build.Dir = dir
	build.Env = goEnv()
	if b, err := build.CombinedOutput(); err != nil {
		// attribute compile errors to their packages; the others are rebuilt alone
		msg := string(b)
		bad := map[int]string{}
		for n := range missing {
			tag := fmt.Sprintf("p%d/p.go:", n)
			if k := strings.Index(msg, tag); k >= 0 {
				bad[n] = firstLine(msg[k:])
			}
		}
		if len(bad) == 0 {
			return nil, fmt.Errorf("gc batch build failed: %s", msg)
		}
		var rest []string
		var restIdx []int
		for n, i := range missing {
			if e, ok := bad[n]; ok {
				out[i] = Transcript{BuildErr: e}
				store(sources[i], out[i])
			} else {
				rest = append(rest, sources[i])
				restIdx = append(restIdx, i)
			}
		}
		mu.Unlock()
		ts, err := Run(rest)
		mu.Lock()
		if err != nil {
			return nil, err
		}
		for k, i := range restIdx {
			out[i] = ts[k]
		}
		return out, nil
	}
	var wg sync.WaitGroup
	sem := make(chan struct{}, 12)
	for n, i := range missing {
		wg.Add(1)
		sem <- struct{}{}
		go func(n, i int) {
			defer wg.Done()
			defer func() { <-sem }()
			cmd := exec.Command(filepath.Join(dir, "drv"), fmt.Sprint(n))
			cmd.Env = append(os.Environ(), "GOTRACEBACK=single")
			var stderr, stdout bytes.Buffer
			cmd.Stderr = &stderr
			cmd.Stdout = &stdout
			done := make(chan error, 1)
			if err := cmd.Start(); err != nil {
				out[i] = Transcript{Fatal: "cannot start: " + err.Error()}
				return
			}
			go func() { done <- cmd.Wait() }()
			var t Transcript
			select {
			case err := <-done:
				exit := 0
				if err != nil {
					if ee, ok := err.(*exec.ExitError); ok {
						exit = ee.ExitCode()
					} else {
						exit = -1
					}
				}
				t = parse(stderr.String(), exit)
			case <-time.After(20 * time.Second):
				_ = cmd.Process.Kill()
				t = Transcript{Fatal: "timeout"}
			}
			out[i] = t
			store(sources[i], t)
		}(n, i)
	}
	wg.Wait()
	return out, nil
}

// HostSource is the gc counterpart of the native package "host" that the multi-package
// programs may import (see gen/gopkgs.HostPackage for the Scriggo side).
const HostSource = `package host

// Yield is a scheduling point. It does not call runtime.Gosched because the package must not
// import anything: gc initialises packages in import path order among those whose imports are
// initialised, and a dependency on the standard library would move this package, and the
// packages importing it, after the generated packages without imports ("gcbatch/..." sorts
// before "internal/..." and "runtime"); a native package of Scriggo is always initialised.
func Yield() {
	c := make(chan struct{})
	go func() { close(c) }()
	<-c
}

var Counter int

const Name string = "host"
const Seven int = 7
const Size = 12

type Pair struct {
	A int
	B string
}

func (p Pair) Sum() int { return p.A + len(p.B) }

func (p *Pair) Inc() int { p.A++; return p.A }

func Add(a, b int) int { return a + b }

func Join(a, b string) string { return a + "+" + b }
`

func moduleKey(files map[string]string) string {
	var names []string
	for n := range files {
		names = append(names, n)
	}
	sortStrings(names)
	var b strings.Builder
	b.WriteString("module/v2\x00" + HostSource + "\x00")
	for _, n := range names {
		b.WriteString(n + "\x00" + files[n] + "\x00")
	}
	return b.String()
}

func sortStrings(a []string) {
	for i := 1; i < len(a); i++ {
		for j := i; j > 0 && a[j] < a[j-1]; j-- {
			a[j], a[j-1] = a[j-1], a[j]
		}
	}
}

// RunModules returns the transcripts of programs made of several packages: each program is
// a file set with a go.mod declaring "module m", a main.go and one directory per imported
// package ("m/a" is a/a.go). Packages may import "host". Every program becomes its own
// binary (package initialisation is part of the observed behaviour), all built by one go
// command.
func RunModules(progs []map[string]string) ([]Transcript, error) {
	out := make([]Transcript, len(progs))
	var missing []int
	for i, p := range progs {
		if t, ok := load(moduleKey(p)); ok {
			out[i] = t
			continue
		}
		missing = append(missing, i)
	}
	if len(missing) == 0 {
		return out, nil
	}
	mu.Lock()
	defer mu.Unlock()
	dir, err := os.MkdirTemp("", "gcmod-*")
	if err != nil {
		return nil, err
	}
	defer os.RemoveAll(dir)
	_ = os.WriteFile(filepath.Join(dir, "go.mod"), []byte("module gcbatch\n\ngo 1.25.0\n"), 0o644)
	_ = os.MkdirAll(filepath.Join(dir, "host"), 0o755)
	_ = os.WriteFile(filepath.Join(dir, "host", "host.go"), []byte(HostSource), 0o644)
	args := []string{"build", buildJobs(), "-o", "bin/"}
	for n, i := range missing {
		for name, src := range progs[i] {
			if name == "go.mod" {
				continue
			}
			src = strings.ReplaceAll(src, "\"m/", fmt.Sprintf("\"gcbatch/q%d/", n))
			src = strings.ReplaceAll(src, "import \"host\"", "import \"gcbatch/host\"")
			p := filepath.Join(dir, fmt.Sprintf("q%d", n), filepath.FromSlash(name))
			_ = os.MkdirAll(filepath.Dir(p), 0o755)
			if err := os.WriteFile(p, []byte(src), 0o644); err != nil {
				return nil, err
			}
		}
		args = append(args, fmt.Sprintf("./q%d", n))
	}
	_ = os.MkdirAll(filepath.Join(dir, "bin"), 0o755)
	build := exec.Command(goBin, args...)
	build.Dir = dir
	build.Env = goEnv()
	if b, err := build.CombinedOutput(); err != nil {
		msg := string(b)
		bad := map[int]string{}
		for n := range missing {
			for _, tag := range []string{fmt.Sprintf("q%d/", n), fmt.Sprintf("gcbatch/q%d\n", n), fmt.Sprintf("gcbatch/q%d/", n)} {
				if k := strings.Index(msg, tag); k >= 0 {
					ls := strings.LastIndexByte(msg[:k], '\n') + 1
					bad[n] = firstLine(msg[ls:])
					break
				}
			}
		}
		if len(bad) == 0 {
			return nil, fmt.Errorf("gc module batch build failed: %s", msg)
		}
		var rest []map[string]string
		var restIdx []int
		for n, i := range missing {
			if e, ok := bad[n]; ok {
				// the go command stops listing errors after a few packages: a program is
				// only charged with an error that names it
				out[i] = Transcript{BuildErr: e}
				store(moduleKey(progs[i]), out[i])
			} else {
				rest = append(rest, progs[i])
				restIdx = append(restIdx, i)
			}
		}
		mu.Unlock()
		ts, err := RunModules(rest)
		mu.Lock()
		if err != nil {
			return nil, err
		}
		for k, i := range restIdx {
			out[i] = ts[k]
		}
		return out, nil
	}
	var wg sync.WaitGroup
	sem := make(chan struct{}, 12)
	for n, i := range missing {
		wg.Add(1)
		sem <- struct{}{}
		go func(n, i int) {
			defer wg.Done()
			defer func() { <-sem }()
			cmd := exec.Command(filepath.Join(dir, "bin", fmt.Sprintf("q%d", n)))
			cmd.Env = append(os.Environ(), "GOTRACEBACK=single")
			var stderr bytes.Buffer
			cmd.Stderr = &stderr
			done := make(chan error, 1)
			if err := cmd.Start(); err != nil {
				out[i] = Transcript{Fatal: "cannot start: " + err.Error()}
				return
			}
			go func() { done <- cmd.Wait() }()
			var t Transcript
			select {
			case err := <-done:
				exit := 0
				if err != nil {
					if ee, ok := err.(*exec.ExitError); ok {
						exit = ee.ExitCode()
					} else {
						exit = -1
					}
				}
				t = parse(stderr.String(), exit)
			case <-time.After(20 * time.Second):
				_ = cmd.Process.Kill()
				t = Transcript{Fatal: "timeout"}
			}
			out[i] = t
			store(moduleKey(progs[i]), t)
		}(n, i)
	}
	wg.Wait()
	return out, nil
}

// buildJobs returns the -p flag of the go command: the shards of a check run at the same time, so each
// build gets its share of the processors instead of all of them.
func buildJobs() string {
	shards, _ := strconv.Atoi(os.Getenv("VERIF_SHARDS"))
	if shards < 1 {
		shards = 1
	}
	p := runtime.NumCPU() / shards
	if p < 1 {
		p = 1
	}
	return fmt.Sprintf("-p=%d", p)
}

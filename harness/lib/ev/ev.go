// Package ev is the small runtime shared by every property package: evidence
// counters, known-finding bookkeeping, failure → replay-file plumbing and the
// rapid wrapper that pins seeds and case counts from the driver's environment.
package ev

import (
	"encoding/json"
	"flag"
	"fmt"
	"hash/fnv"
	"os"
	"path/filepath"
	"sort"
	"strconv"
	"strings"
	"sync"
	"testing"
	"time"

	"pgregory.net/rapid"
)

// N is the number of rapid cases per tier (total over all shards).
type N struct{ Quick, Thorough int }

type knownHit struct {
	What  string `json:"what"`
	Count int    `json:"count"`
}

type shardEvidence struct {
	Property        string               `json:"property"`
	Evaluations     int                  `json:"evaluations"`
	Nontrivial      []uint64             `json:"nontrivial"`
	Labels          map[string]int       `json:"labels"`
	Excluded        map[string]int       `json:"excluded"`
	Samples         []any                `json:"samples"`
	Known           map[string]*knownHit `json:"known"`
	Violations      []string             `json:"violations"`
	Exhaustive      bool                 `json:"exhaustive"`
	NontrivialExtra int                  `json:"nontrivial_extra"`
	Notes           []string             `json:"notes"`
	WallS           float64              `json:"wall_s"`
}

var (
	mu           sync.Mutex
	property     string
	evals        int
	nontriv      = map[uint64]struct{}{}
	labels       = map[string]int{}
	excluded     = map[string]int{}
	samples      []any
	sampleH      []uint64
	known        = map[string]*knownHit{}
	viol         []string
	exhaust      bool
	extraNontriv int
	notes        []string
	start        = time.Now()

	outDir  string
	tier    string
	seed    uint64
	shard   int
	shards  int
	enabled map[string]Finding // known findings enabled for this property
	replays = map[string]func(t TB, raw json.RawMessage){}
)

// TB is the subset of testing.TB that both *testing.T and *rapid.T satisfy.
type TB interface {
	Helper()
	Fatalf(format string, args ...any)
	Logf(format string, args ...any)
	Errorf(format string, args ...any)
	Failed() bool
}

// Finding is one entry of /verif/known_findings.json.
type Finding struct {
	Status   string `json:"status"` // "known" | "fixed"
	Property string `json:"property"`
	ID       string `json:"id"`
	What     string `json:"what"`
	Witness  string `json:"witness,omitempty"`
	Commit   string `json:"commit,omitempty"`
	Note     string `json:"note,omitempty"`
}

func envInt(name string, def int) int {
	if s := os.Getenv(name); s != "" {
		if n, err := strconv.Atoi(s); err == nil {
			return n
		}
	}
	return def
}

// VerifDir returns the root of the verification tree (default /verif).
func VerifDir() string {
	if d := os.Getenv("VERIF_DIR"); d != "" {
		return d
	}
	return "/verif"
}

// RepoDir returns the scriggo tree being checked (default /repo).
func RepoDir() string {
	if d := os.Getenv("VERIF_REPO"); d != "" {
		return d
	}
	return "/repo"
}

// Main is called from TestMain of every property package.
func Main(m *testing.M, prop string) {
	property = prop
	outDir = os.Getenv("VERIF_OUT")
	if outDir == "" {
		outDir = filepath.Join(VerifDir(), "out", prop, "adhoc")
	}
	_ = os.MkdirAll(outDir, 0o755)
	tier = os.Getenv("VERIF_TIER")
	if tier == "" {
		tier = "quick"
	}
	s := envInt("VERIF_SEED", 20260921)
	if s == 0 {
		s = 1
	}
	seed = uint64(s)
	shard = envInt("VERIF_SHARD", 0)
	shards = envInt("VERIF_SHARDS", 1)
	loadKnown()
	flag.Parse()
	code := m.Run()
	Flush()
	os.Exit(code)
}

func loadKnown() {
	enabled = map[string]Finding{}
	p := os.Getenv("VERIF_KNOWN")
	if p == "" {
		p = filepath.Join(VerifDir(), "known_findings.json")
	}
	b, err := os.ReadFile(p)
	if err != nil {
		return
	}
	var all []Finding
	if err := json.Unmarshal(b, &all); err != nil {
		fmt.Fprintf(os.Stderr, "ev: cannot parse %s: %v\n", p, err)
		os.Exit(2)
	}
	for _, f := range all {
		if f.Property == property && f.Status == "known" {
			enabled[f.ID] = f
		}
	}
}

// Tier returns "quick" or "thorough".
func Tier() string { return tier }

// Thorough reports whether the thorough tier is running.
func Thorough() bool { return tier == "thorough" }

// Seed returns the run seed mixed with the shard number and a name.
func Seed(name string) uint64 {
	h := fnv.New64a()
	fmt.Fprintf(h, "%d/%d/%s", seed, shard, name)
	v := h.Sum64() >> 1
	if v == 0 {
		v = 1
	}
	return v
}

// Shard returns this process's shard index and the shard count.
func Shard() (int, int) { return shard, shards }

// Count returns the number of cases this shard must run for n.
func Count(n N) int {
	total := n.Quick
	if Thorough() {
		total = n.Thorough
	}
	if v := envInt("VERIF_CHECKS", 0); v > 0 {
		total = v
	}
	c := (total + shards - 1) / shards
	if c < 1 {
		c = 1
	}
	return c
}

// Check runs a rapid property with the seed and the case count fixed by the
// driver's environment.
func Check(t *testing.T, n N, prop func(t *rapid.T)) {
	t.Helper()
	_ = flag.Set("rapid.checks", strconv.Itoa(Count(n)))
	_ = flag.Set("rapid.seed", strconv.FormatUint(Seed(t.Name()), 10))
	_ = flag.Set("rapid.nofailfile", "true") // replay files are written by ev.Fail; rapid's own files would be replayed first on the next run
	st := "30s"
	if Thorough() {
		st = "3m"
	}
	if v := os.Getenv("VERIF_SHRINKTIME"); v != "" {
		st = v
	}
	_ = flag.Set("rapid.shrinktime", st)
	_ = flag.Set("rapid.steps", "30")
	rapid.Check(t, prop)
}

func sanitize(s string) string {
	return strings.Map(func(r rune) rune {
		if r >= 'a' && r <= 'z' || r >= 'A' && r <= 'Z' || r >= '0' && r <= '9' || r == '-' || r == '_' {
			return r
		}
		return '_'
	}, s)
}

// Eval counts one evaluated case.
func Eval() {
	mu.Lock()
	evals++
	mu.Unlock()
}

// EvalN counts n evaluated cases.
func EvalN(n int) {
	mu.Lock()
	evals += n
	mu.Unlock()
}

// Hash64 hashes the parts to a case identity.
func Hash64(parts ...string) uint64 {
	h := fnv.New64a()
	for _, p := range parts {
		h.Write([]byte(p))
		h.Write([]byte{0})
	}
	return h.Sum64()
}

// NontrivialCount adds n distinct non-trivial cases that the caller has
// counted itself (exhaustive enumerations, where every case is distinct by
// construction and storing one hash per case would be wasteful).
func NontrivialCount(n int) {
	mu.Lock()
	extraNontriv += n
	mu.Unlock()
}

// Nontrivial records a distinct non-trivial case, identified by the parts.
func Nontrivial(parts ...string) {
	k := Hash64(parts...)
	mu.Lock()
	if len(nontriv) < 4_000_000 {
		nontriv[k] = struct{}{}
	}
	mu.Unlock()
}

// NontrivialSample records a non-trivial case and offers it as a sample.
func NontrivialSample(sample any, parts ...string) {
	k := Hash64(parts...)
	mu.Lock()
	_, seen := nontriv[k]
	if !seen && len(nontriv) < 4_000_000 {
		nontriv[k] = struct{}{}
	}
	if !seen {
		offerSample(k, sample)
	}
	mu.Unlock()
}

// offerSample keeps the first two samples and the three with the smallest hash.
func offerSample(k uint64, s any) {
	if len(samples) < 5 {
		samples = append(samples, s)
		sampleH = append(sampleH, k)
		return
	}
	// replace the largest-hash sample among positions 2..4 when k is smaller
	mi := -1
	for i := 2; i < 5; i++ {
		if mi < 0 || sampleH[i] > sampleH[mi] {
			mi = i
		}
	}
	if k < sampleH[mi] {
		samples[mi] = s
		sampleH[mi] = k
	}
}

// Sample offers a sample case.
func Sample(s any) {
	mu.Lock()
	b, _ := json.Marshal(s)
	offerSample(Hash64(string(b)), s)
	mu.Unlock()
}

// Label counts a class of generated case.
func Label(name string) {
	mu.Lock()
	labels[name]++
	mu.Unlock()
}

// LabelN adds n to a class counter.
func LabelN(name string, n int) {
	mu.Lock()
	labels[name] += n
	mu.Unlock()
}

// Excluded counts a case (or a draw) excluded by a switch or precondition.
func Excluded(reason string) {
	mu.Lock()
	excluded[reason]++
	mu.Unlock()
}

// Exhaustive marks that a finite space was enumerated completely.
func Exhaustive() {
	mu.Lock()
	exhaust = true
	mu.Unlock()
}

// Note adds a free-text note to the evidence.
func Note(format string, args ...any) {
	mu.Lock()
	if len(notes) < 50 {
		notes = append(notes, fmt.Sprintf(format, args...))
	}
	mu.Unlock()
}

// IsKnown reports whether the finding id is listed as "known" for this
// property in known_findings.json. Checks use it both to switch generator
// features off and to classify live failures.
func IsKnown(id string) bool {
	_, ok := enabled[id]
	return ok
}

// Known records that a live failure matched a listed known finding.
// It returns false (and records nothing) when id is not listed, in which case
// the caller must treat the failure as a violation.
func Known(id string) bool {
	f, ok := enabled[id]
	if !ok {
		return false
	}
	mu.Lock()
	h := known[id]
	if h == nil {
		h = &knownHit{What: f.What}
		known[id] = h
	}
	h.Count++
	mu.Unlock()
	return true
}

// failRecord is the replay file format.
type failRecord struct {
	Property string `json:"property"`
	Test     string `json:"test"`
	Message  string `json:"message"`
	Case     any    `json:"case"`
}

// Fail writes the case as replay file and fails the test. With rapid the last
// failing invocation (the shrunk case) is the last writer.
func Fail(t TB, test string, c any, format string, args ...any) {
	t.Helper()
	msg := fmt.Sprintf(format, args...)
	rec := failRecord{Property: property, Test: test, Message: msg, Case: c}
	b, err := json.MarshalIndent(rec, "", " ")
	if err != nil {
		b, _ = json.Marshal(failRecord{Property: property, Test: test, Message: msg + " (case not serialisable: " + err.Error() + ")"})
	}
	p := filepath.Join(outDir, "fail-"+sanitize(test)+".json")
	_ = os.WriteFile(p, b, 0o644)
	mu.Lock()
	found := false
	for _, v := range viol {
		if v == p {
			found = true
		}
	}
	if !found {
		viol = append(viol, p)
	}
	mu.Unlock()
	t.Fatalf("%s: %s", test, msg)
}

// Journal records the case about to be run, so that if the code under test
// kills or hangs the test process the driver can attribute it to this case.
func Journal(test string, c any) {
	rec := failRecord{Property: property, Test: test, Message: "the test process died or hung while running this case", Case: c}
	b, err := json.Marshal(rec)
	if err != nil {
		return
	}
	_ = os.WriteFile(filepath.Join(outDir, "current.json"), b, 0o644)
}

// RegisterReplay registers the replay entry of a test: it decodes the case and
// judges it with the same oracle as the generated search.
func RegisterReplay(test string, f func(t TB, raw json.RawMessage)) {
	replays[test] = f
}

// Replay runs the replay file named by VERIF_REPLAY (used by TestReplay).
func Replay(t *testing.T) {
	p := os.Getenv("VERIF_REPLAY")
	if p == "" {
		t.Skip("VERIF_REPLAY not set")
	}
	ReplayFile(t, p)
}

// ReplayFile replays one file.
func ReplayFile(t TB, p string) {
	b, err := os.ReadFile(p)
	if err != nil {
		t.Fatalf("replay: %v", err)
	}
	var rec struct {
		Test string          `json:"test"`
		Case json.RawMessage `json:"case"`
	}
	if err := json.Unmarshal(b, &rec); err != nil {
		t.Fatalf("replay: %s: %v", p, err)
	}
	f := replays[rec.Test]
	if f == nil {
		t.Fatalf("replay: %s: no replay entry for test %q", p, rec.Test)
	}
	f(t, rec.Case)
}

// recorder is a TB that records failure instead of aborting the process's test.
type recorder struct {
	failed bool
	msg    string
}

type abort struct{}

func (r *recorder) Helper() {}
func (r *recorder) Fatalf(format string, args ...any) {
	r.failed = true
	r.msg = fmt.Sprintf(format, args...)
	panic(abort{})
}
func (r *recorder) Errorf(format string, args ...any) {
	r.failed = true
	r.msg = fmt.Sprintf(format, args...)
}
func (r *recorder) Logf(format string, args ...any) {}
func (r *recorder) Failed() bool                    { return r.failed }

// Try runs f with a recording TB and reports whether it failed and why.
func Try(f func(t TB)) (failed bool, msg string) {
	r := &recorder{}
	func() {
		defer func() {
			if e := recover(); e != nil {
				if _, ok := e.(abort); !ok {
					panic(e)
				}
			}
		}()
		f(r)
	}()
	return r.failed, r.msg
}

// Regress replays every witness under regress/<property>/ (used by
// TestRegress). A witness file is a replay file with two extra keys:
// "finding" (id in known_findings.json) and "expect" ("fail-known" for a
// recorded defect that is still present, "pass" for a fixed defect or a plain
// regression case).
func Regress(t *testing.T) {
	if shard != 0 {
		t.Skip("regress witnesses are replayed by shard 0")
	}
	dir := filepath.Join(VerifDir(), "regress", property)
	files, _ := filepath.Glob(filepath.Join(dir, "*.json"))
	sort.Strings(files)
	for _, p := range files {
		b, err := os.ReadFile(p)
		if err != nil {
			t.Fatalf("regress: %v", err)
		}
		var rec struct {
			Finding string `json:"finding"`
			Expect  string `json:"expect"`
		}
		if err := json.Unmarshal(b, &rec); err != nil {
			t.Fatalf("regress: %s: %v", p, err)
		}
		// Fail() inside the replayed oracle writes a fail file and registers a
		// violation; for known findings that must not count, so snapshot.
		mu.Lock()
		nv := len(viol)
		mu.Unlock()
		failed, msg := Try(func(tb TB) { ReplayFile(tb, p) })
		Eval()
		Label("regress")
		if !failed {
			continue
		}
		if rec.Expect == "fail-known" && rec.Finding != "" && IsKnown(rec.Finding) {
			mu.Lock()
			viol = viol[:nv]
			mu.Unlock()
			Known(rec.Finding)
			continue
		}
		// a fixed defect came back, or a known witness whose entry was removed
		mu.Lock()
		viol = viol[:nv]
		viol = append(viol, p)
		mu.Unlock()
		t.Errorf("regress witness %s fails: %s", filepath.Base(p), msg)
	}
}

// Flush writes the shard evidence file.
func Flush() {
	mu.Lock()
	defer mu.Unlock()
	se := shardEvidence{
		Property: property, Evaluations: evals, Labels: labels, Excluded: excluded,
		Samples: samples, Known: known, Violations: viol, Exhaustive: exhaust, Notes: notes, NontrivialExtra: extraNontriv,
		WallS: time.Since(start).Seconds(),
	}
	se.Nontrivial = make([]uint64, 0, len(nontriv))
	for k := range nontriv {
		se.Nontrivial = append(se.Nontrivial, k)
	}
	sort.Slice(se.Nontrivial, func(i, j int) bool { return se.Nontrivial[i] < se.Nontrivial[j] })
	b, err := json.Marshal(se)
	if err != nil {
		// samples not serialisable: drop them rather than lose the evidence
		se.Samples = []any{fmt.Sprintf("unserialisable samples: %v", err)}
		b, _ = json.Marshal(se)
	}
	_ = os.WriteFile(filepath.Join(outDir, "shard.json"), b, 0o644)
}

// Package asttree is an independent, reflection-based view of Scriggo syntax trees: it
// enumerates the nodes of a tree, renders a tree canonically (with or without positions)
// and mutates every mutable part of a tree. It deliberately does not use ast/astutil, which
// is what the properties that use it check.
package asttree

import (
	"errors"
	"fmt"
	"reflect"
	"sort"
	"strings"

	"github.com/open2b/scriggo"
	"github.com/open2b/scriggo/ast"
	"github.com/open2b/scriggo/native"
)

var (
	nodeType     = reflect.TypeOf((*ast.Node)(nil)).Elem()
	positionType = reflect.TypeOf((*ast.Position)(nil))
	reflectType  = reflect.TypeOf((*reflect.Type)(nil)).Elem()
)

// errStop aborts a build after the trees have been captured.
var errStop = errors.New("asttree: stop after parsing")

// Parse parses the template file name of files and returns its unexpanded tree (the parser's
// output before Extends, Import and Render are resolved). Only the named file is read.
func Parse(files map[string]string, name string) (tree *ast.Tree, err error) {
	fsys := scriggo.Files{}
	for n, s := range files {
		fsys[n] = []byte(s)
	}
	defer func() {
		if e := recover(); e != nil {
			err = fmt.Errorf("parser panic: %v", e)
		}
	}()
	_, berr := scriggo.BuildTemplate(fsys, name, &scriggo.BuildOptions{
		AllowGoStmt: true,
		Globals:     native.Declarations{},
		UnexpandedTransformer: func(t *ast.Tree) error {
			tree = t
			return errStop
		},
	})
	if tree != nil {
		return tree, nil
	}
	return nil, berr
}

// ParseExpanded builds far enough to obtain the expanded tree of the whole file set.
func ParseExpanded(files map[string]string, name string) (tree *ast.Tree, err error) {
	fsys := scriggo.Files{}
	for n, s := range files {
		fsys[n] = []byte(s)
	}
	defer func() {
		if e := recover(); e != nil {
			err = fmt.Errorf("parser panic: %v", e)
		}
	}()
	_, berr := scriggo.BuildTemplate(fsys, name, &scriggo.BuildOptions{
		AllowGoStmt: true,
		Globals:     native.Declarations{},
		ExpandedTransformer: func(t *ast.Tree) error {
			tree = t
			return errStop
		},
	})
	if tree != nil {
		return tree, nil
	}
	return nil, berr
}

// isNode reports whether v holds a non-nil AST node and returns it.
func isNode(v reflect.Value) (ast.Node, bool) {
	if !v.IsValid() || !v.CanInterface() {
		return nil, false
	}
	switch v.Kind() {
	case reflect.Ptr, reflect.Interface:
		if v.IsNil() {
			return nil, false
		}
	default:
		return nil, false
	}
	if v.Kind() == reflect.Interface {
		v = v.Elem()
	}
	if v.Type() == positionType {
		return nil, false // *Position implements Node but is not a node of the tree
	}
	if v.Kind() == reflect.Ptr && v.Type().Implements(nodeType) {
		return v.Interface().(ast.Node), true
	}
	return nil, false
}

// walkValue calls f for every node found below v without descending into the nodes.
func walkValue(v reflect.Value, f func(ast.Node)) {
	if n, ok := isNode(v); ok {
		f(n)
		return
	}
	switch v.Kind() {
	case reflect.Ptr, reflect.Interface:
		if !v.IsNil() {
			walkValue(v.Elem(), f)
		}
	case reflect.Struct:
		t := v.Type()
		for i := 0; i < v.NumField(); i++ {
			if t.Field(i).PkgPath != "" { // unexported
				continue
			}
			if t.Field(i).Type == positionType || t.Field(i).Type.Implements(reflectType) {
				continue
			}
			walkValue(v.Field(i), f)
		}
	case reflect.Slice, reflect.Array:
		for i := 0; i < v.Len(); i++ {
			walkValue(v.Index(i), f)
		}
	case reflect.Map:
		keys := v.MapKeys()
		sort.Slice(keys, func(i, j int) bool { return fmt.Sprint(keys[i]) < fmt.Sprint(keys[j]) })
		for _, k := range keys {
			walkValue(v.MapIndex(k), f)
		}
	}
}

// Edge is a child node with the name of the parent's field that holds it.
type Edge struct {
	Field string
	Node  ast.Node
}

// Edges returns the direct child nodes of n in field order with the top-level field each
// one is reached through.
func Edges(n ast.Node) []Edge {
	var out []Edge
	v := reflect.ValueOf(n)
	if v.Kind() != reflect.Ptr || v.IsNil() {
		return nil
	}
	v = v.Elem()
	if v.Kind() != reflect.Struct {
		return nil
	}
	t := v.Type()
	for i := 0; i < v.NumField(); i++ {
		f := t.Field(i)
		if f.PkgPath != "" || f.Type == positionType || f.Type.Implements(reflectType) {
			continue
		}
		walkValue(v.Field(i), func(c ast.Node) { out = append(out, Edge{f.Name, c}) })
	}
	return out
}

// Children returns the direct child nodes of n in field order.
func Children(n ast.Node) []ast.Node {
	var out []ast.Node
	v := reflect.ValueOf(n)
	if v.Kind() == reflect.Ptr && !v.IsNil() {
		walkValue(v.Elem(), func(c ast.Node) { out = append(out, c) })
	}
	return out
}

// All returns n and all its descendants in depth-first pre-order. A node reachable twice
// (a shared node) is listed twice.
func All(n ast.Node) []ast.Node {
	var out []ast.Node
	var rec func(ast.Node, int)
	rec = func(n ast.Node, depth int) {
		out = append(out, n)
		if depth > 10000 {
			return
		}
		for _, c := range Children(n) {
			rec(c, depth+1)
		}
	}
	rec(n, 0)
	return out
}

// IgnoreFields lists field names left out by Render when positions is false: attributes
// that, like positions, depend on where the node is and not on what it is.
var IgnoreFields = map[string]bool{}

// Render prints a node canonically. With positions false, *Position fields are left out, so
// two renders are equal exactly when the trees are structurally identical.
func Render(n any, positions bool) string {
	var b strings.Builder
	render(&b, reflect.ValueOf(n), positions, 0)
	return b.String()
}

func render(b *strings.Builder, v reflect.Value, positions bool, depth int) {
	if !v.IsValid() {
		b.WriteString("<invalid>")
		return
	}
	if depth > 5000 {
		b.WriteString("<deep>")
		return
	}
	switch v.Kind() {
	case reflect.Ptr:
		if v.IsNil() {
			b.WriteString("nil")
			return
		}
		if v.Type() == positionType {
			if positions {
				p := v.Interface().(*ast.Position)
				fmt.Fprintf(b, "@%d:%d[%d,%d]", p.Line, p.Column, p.Start, p.End)
			}
			return
		}
		b.WriteString("&")
		render(b, v.Elem(), positions, depth+1)
	case reflect.Interface:
		if v.IsNil() {
			b.WriteString("nil")
			return
		}
		if v.Type() == reflectType || v.Elem().Type().Implements(reflectType) {
			fmt.Fprintf(b, "type(%v)", v.Interface())
			return
		}
		render(b, v.Elem(), positions, depth+1)
	case reflect.Struct:
		t := v.Type()
		b.WriteString(t.Name() + "{")
		for i := 0; i < v.NumField(); i++ {
			f := t.Field(i)
			if f.PkgPath != "" {
				continue
			}
			if !positions && (f.Type == positionType || IgnoreFields[f.Name]) {
				continue
			}
			b.WriteString(f.Name + ":")
			render(b, v.Field(i), positions, depth+1)
			b.WriteString(" ")
		}
		b.WriteString("}")
	case reflect.Slice:
		if v.IsNil() {
			b.WriteString("[]")
			return
		}
		if v.Type().Elem().Kind() == reflect.Uint8 {
			fmt.Fprintf(b, "%q", v.Bytes())
			return
		}
		b.WriteString("[")
		for i := 0; i < v.Len(); i++ {
			render(b, v.Index(i), positions, depth+1)
			b.WriteString(", ")
		}
		b.WriteString("]")
	case reflect.Array:
		b.WriteString("[")
		for i := 0; i < v.Len(); i++ {
			render(b, v.Index(i), positions, depth+1)
			b.WriteString(", ")
		}
		b.WriteString("]")
	case reflect.Map:
		keys := v.MapKeys()
		sort.Slice(keys, func(i, j int) bool { return fmt.Sprint(keys[i]) < fmt.Sprint(keys[j]) })
		b.WriteString("map[")
		for _, k := range keys {
			fmt.Fprintf(b, "%v:", k)
			render(b, v.MapIndex(k), positions, depth+1)
			b.WriteString(", ")
		}
		b.WriteString("]")
	case reflect.String:
		fmt.Fprintf(b, "%q", v.String())
	case reflect.Func, reflect.Chan, reflect.UnsafePointer:
		b.WriteString("<" + v.Kind().String() + ">")
	default:
		if v.CanInterface() {
			fmt.Fprintf(b, "%v", v.Interface())
		} else {
			fmt.Fprintf(b, "%v", v)
		}
	}
}

// FirstDiff returns a short description of where two renders differ.
func FirstDiff(a, b string) string {
	i := 0
	for i < len(a) && i < len(b) && a[i] == b[i] {
		i++
	}
	lo := i - 60
	if lo < 0 {
		lo = 0
	}
	ha, hb := i+80, i+80
	if ha > len(a) {
		ha = len(a)
	}
	if hb > len(b) {
		hb = len(b)
	}
	return fmt.Sprintf("…%s⟦%s⟧ vs ⟦%s⟧", a[lo:i], a[i:ha], b[i:hb])
}

// Scramble changes every mutable part reachable from n: strings, numbers, booleans, the
// fields of positions, byte slices, and the order of slices. It is applied to a copy to
// show that the original does not share anything mutable with it.
func Scramble(n ast.Node) {
	seen := map[uintptr]bool{}
	scramble(reflect.ValueOf(n), seen, 0)
}

func scramble(v reflect.Value, seen map[uintptr]bool, depth int) {
	if !v.IsValid() || depth > 5000 {
		return
	}
	switch v.Kind() {
	case reflect.Ptr:
		if v.IsNil() || seen[v.Pointer()] {
			return
		}
		seen[v.Pointer()] = true
		scramble(v.Elem(), seen, depth+1)
	case reflect.Interface:
		if v.IsNil() {
			return
		}
		if v.Elem().Type().Implements(reflectType) {
			return
		}
		scramble(v.Elem(), seen, depth+1)
	case reflect.Struct:
		t := v.Type()
		for i := 0; i < v.NumField(); i++ {
			if t.Field(i).PkgPath != "" {
				continue
			}
			scramble(v.Field(i), seen, depth+1)
		}
	case reflect.Slice:
		for i := 0; i < v.Len(); i++ {
			scramble(v.Index(i), seen, depth+1)
		}
		if v.Len() >= 2 && v.Index(0).CanSet() {
			a, b := v.Index(0), v.Index(v.Len()-1)
			tmp := reflect.New(a.Type()).Elem()
			tmp.Set(a)
			a.Set(b)
			b.Set(tmp)
		}
	case reflect.String:
		if v.CanSet() {
			v.SetString(v.String() + "~mutated")
		}
	case reflect.Int, reflect.Int8, reflect.Int16, reflect.Int32, reflect.Int64:
		if v.CanSet() {
			v.SetInt(v.Int() + 1)
		}
	case reflect.Uint, reflect.Uint8, reflect.Uint16, reflect.Uint32, reflect.Uint64:
		if v.CanSet() {
			v.SetUint(v.Uint() + 1)
		}
	case reflect.Bool:
		if v.CanSet() {
			v.SetBool(!v.Bool())
		}
	}
}

// SharedPointers returns descriptions of the nodes and positions (by address) that occur
// in both trees.
func SharedPointers(a, b ast.Node) []string {
	addrs := map[uintptr]string{}
	for _, n := range All(a) {
		v := reflect.ValueOf(n)
		addrs[v.Pointer()] = fmt.Sprintf("%T", n)
		if p := n.Pos(); p != nil {
			addrs[reflect.ValueOf(p).Pointer()] = fmt.Sprintf("position of %T", n)
		}
	}
	var shared []string
	for _, n := range All(b) {
		v := reflect.ValueOf(n)
		if what, ok := addrs[v.Pointer()]; ok {
			shared = append(shared, what)
		}
		if p := n.Pos(); p != nil {
			if what, ok := addrs[reflect.ValueOf(p).Pointer()]; ok {
				shared = append(shared, what)
			}
		}
	}
	return shared
}

// Package tmpl generates template documents with show holes. Every hole is
// annotated with its TRUE context: the syntactic position the standard parser
// of the document's language will see, tracked by this generator's own
// grammar and never asked of Scriggo.
package tmpl

import (
	"fmt"
	"strings"

	"pgregory.net/rapid"
)

// Hole is a {{ vN }} in the document.
type Hole struct {
	Var  string `json:"var"`
	True string `json:"true"` // true context id, e.g. "html.attr.dq", "js.str.sq"
}

// Doc is a generated template.
type Doc struct {
	Format string `json:"format"` // html js css json md text
	File   string `json:"file"`
	Src    string `json:"src"`
	Holes  []Hole `json:"holes"`
}

// Off lists true-context ids the generator must not produce (known findings).
type Off map[string]bool

type builder struct {
	t     *rapid.T
	sb    strings.Builder
	holes []Hole
	off   Off
	max   int
}

func (b *builder) w(s string) { b.sb.WriteString(s) }

// hole writes a show of a fresh variable, or benign literal text when the
// context is switched off or the hole budget is used up.
func (b *builder) hole(ctx string, fallback string) {
	if b.off[ctx] || len(b.holes) >= b.max {
		b.w(fallback)
		return
	}
	v := fmt.Sprintf("v%d", len(b.holes))
	b.holes = append(b.holes, Hole{Var: v, True: ctx})
	switch rapid.IntRange(0, 3).Draw(b.t, "showform") {
	case 0:
		b.w("{{" + v + "}}")
	case 1:
		b.w("{{ " + v + " }}")
	case 2:
		b.w("{% show " + v + " %}")
	default:
		b.w("{{ " + v + " }}")
	}
}

func (b *builder) pick(label string, opts ...string) string {
	return rapid.SampledFrom(opts).Draw(b.t, label)
}

func (b *builder) chance(label string, n int) bool {
	return rapid.IntRange(0, n-1).Draw(b.t, label) == 0
}

var words = []string{"text", "a", "Hello world", "x &amp; y", "1 &lt; 2", "é", "it's", "say \"hi\"", "a/b", "100%", "q?", "tag", "", " ", "=", "a=b", "{", "}", "{ {", "% }", "#", "line\nbreak", "\t", "back\\slash", "`tick`", "$", "*", "_"}

func (b *builder) word() string { return rapid.SampledFrom(words).Draw(b.t, "word") }

// ---- HTML

func (b *builder) htmlText() {
	n := rapid.IntRange(1, 3).Draw(b.t, "ntext")
	for i := 0; i < n; i++ {
		if b.chance("thole", 2) {
			b.hole("html.text", "T")
		} else {
			b.w(strings.NewReplacer("{", "(", "}", ")", "#", "n", "%", "pc").Replace(b.word()))
		}
		if b.chance("sp", 2) {
			b.w(" ")
		}
	}
}

func safeText(s string) string {
	return strings.NewReplacer("{", "(", "}", ")", "#", "n", "%", "pc", "<", "&lt;", "\"", "'", "`", "'").Replace(s)
}

func (b *builder) attrValue(ctxBase string, quote string) {
	// value := text? hole text?
	b.w(quote)
	pre := safeText(b.pick("apre", "", "a", "x-", "1", "p ", "k="))
	suf := safeText(b.pick("asuf", "", "b", "-y", "2", " s", ";"))
	if quote == "" {
		pre = strings.NewReplacer(" ", "", "=", "", "'", "", ";", "").Replace(pre)
		suf = strings.NewReplacer(" ", "", "=", "", "'", "", ";", "").Replace(suf)
	}
	if quote == "'" {
		pre = strings.ReplaceAll(pre, "'", "")
		suf = strings.ReplaceAll(suf, "'", "")
	}
	b.w(pre)
	q := map[string]string{"\"": "dq", "'": "sq", "": "unq"}[quote]
	b.hole(ctxBase+"."+q, "V")
	b.w(suf)
	b.w(quote)
}

func (b *builder) quote() string { return b.pick("quote", "\"", "\"", "'", "") }

func (b *builder) htmlAttr() {
	switch rapid.IntRange(0, 9).Draw(b.t, "attr") {
	case 0, 1, 2:
		b.w(" " + b.pick("aname", "title", "class", "id", "data-x", "alt", "lang", "TITLE", "data-Role") + "=")
		b.attrValue("html.attr", b.quote())
	case 3:
		b.w(" title = ")
		b.attrValue("html.attr", b.pick("q2", "\"", "'"))
	case 4:
		b.w(" " + b.pick("bool", "hidden", "disabled", "checked", "data-flag"))
	case 5:
		b.w(" ")
		b.hole("html.tag", "data-h")
	case 6:
		b.w(" onclick=")
		b.attrValue("html.attr.event", b.pick("q3", "\"", "'"))
	case 7:
		b.w(" style=")
		b.attrValue("html.attr.style", b.pick("q4", "\"", "'"))
	default:
		b.w(" title=\"" + safeText(b.word()) + "\"")
	}
}

func (b *builder) urlAttr(tag string) string {
	switch tag {
	case "a":
		return "href"
	case "img":
		return b.pick("imgattr", "src", "srcset", "longdesc", "data-src")
	case "form":
		return "action"
	case "link":
		return "href"
	case "video":
		return b.pick("vidattr", "src", "poster")
	case "blockquote":
		return "cite"
	case "iframe":
		return "src"
	}
	return "href"
}

func (b *builder) htmlURLElement() {
	tag := b.pick("utag", "a", "a", "img", "form", "link", "video", "blockquote", "iframe")
	attr := b.urlAttr(tag)
	b.w("<" + tag)
	if b.chance("attrbefore", 3) {
		b.htmlAttr()
	}
	b.w(" " + attr + "=")
	q := b.pick("uq", "\"", "\"", "'", "")
	qn := map[string]string{"\"": "dq", "'": "sq", "": "unq"}[q]
	b.w(q)
	if attr == "srcset" {
		b.w("/img/")
		b.hole("html.attr.srcset."+qn, "a.png")
		if q != "" {
			b.w(" 2x, /img/b.png 1x")
		}
	} else {
		switch rapid.IntRange(0, 7).Draw(b.t, "urlshape") {
		case 6:
			// two adjacent shows, the first one's value opening the query (seeded/C06-b)
			b.hole("html.attr.url.whole."+qn, "/p?x=1")
			b.hole("html.attr.url.query."+qn, "y")
		case 7:
			b.hole("html.attr.url.whole."+qn, "/p")
			b.hole("html.attr.url.path."+qn, "x")
			b.w("?a=1")
		case 0:
			b.hole("html.attr.url.whole."+qn, "/p")
		case 1:
			b.w("/dir/")
			b.hole("html.attr.url.path."+qn, "p")
		case 2:
			b.w("/p?q=")
			b.hole("html.attr.url.query."+qn, "1")
			b.w("&amp;z=1")
		case 3:
			b.w("/p?")
			b.hole("html.attr.url.query."+qn, "a=1")
		case 4:
			b.w("https://h.com/")
			b.hole("html.attr.url.path."+qn, "p")
			b.w("?a=")
			b.hole("html.attr.url.query."+qn, "1")
			b.w("#f")
		default:
			b.w("/p/")
			b.hole("html.attr.url.path."+qn, "x")
			b.w("/q#")
			b.hole("html.attr.url.fragment."+qn, "frag")
		}
	}
	b.w(q)
	if b.chance("attrafter", 3) {
		b.htmlAttr()
	}
	if tag == "img" || tag == "link" {
		b.w(b.pick("selfclose", ">", " />", "/>"))
		return
	}
	b.w(">")
	b.htmlText()
	b.w("</" + tag + ">")
}

func (b *builder) htmlBlock(depth int) {
	switch rapid.IntRange(0, 13).Draw(b.t, "block") {
	case 0, 1:
		tag := b.pick("tag", "p", "div", "span", "h1", "li", "td", "b", "P", "section")
		b.w("<" + tag)
		for i := rapid.IntRange(0, 2).Draw(b.t, "nattr"); i > 0; i-- {
			b.htmlAttr()
		}
		b.w(">")
		b.htmlText()
		if depth > 0 && b.chance("nest", 3) {
			b.htmlBlock(depth - 1)
		}
		b.w("</" + tag + ">")
	case 2, 3:
		b.htmlURLElement()
	case 4:
		tag := b.pick("rcdata", "title", "textarea")
		b.w("<" + tag + ">")
		b.w(safeText(b.word()))
		b.hole("html.rcdata", "R")
		b.w(safeText(b.word()))
		b.w("</" + tag + ">")
	case 5:
		b.w("<!-- ")
		b.w(strings.ReplaceAll(safeText(b.word()), "--", "-"))
		b.hole("html.comment", "c")
		b.w(" -->")
	case 6, 7:
		b.script()
	case 8:
		b.style()
	case 9:
		b.w("<script type=\"application/ld+json\">")
		b.jsonValue(2, "json")
		b.w("</script>")
	case 10:
		b.w(b.pick("void", "<br>", "<hr/>", "<img alt=\"x\">", "<input value='v' disabled>", "<!DOCTYPE html>"))
	case 11:
		b.w("<script type=\"text/template\">")
		b.w("<p>")
		b.hole("html.script.data", "d")
		b.w("</p>")
		b.w("</script>")
	case 12:
		// a raw-text element whose end tag arrives while a string literal is open: for HTML the element
		// simply ends there (the rest is ordinary text); any lexer state about the open string must not
		// leak into the HTML that follows
		b.w(b.pick("endinstr",
			"<script>var s = \"a</script>",
			"<script>document.write('<b>x</b></script>",
			"<style>p { content: \"x</style>",
			"<style>p::before { content: 'y</style>",
			"<script type=\"application/ld+json\">{\"k\": \"v</script>",
			"<script>var t = \"it's</script>"))
		b.w("<" + b.pick("tagafter", "p", "input", "div", "a"))
		b.htmlAttr()
		b.w(">")
		b.htmlText()
	default:
		b.htmlText()
	}
}

func (b *builder) script() {
	typ := b.pick("stype", "", "", " type=\"text/javascript\"", " type=\"module\"", " TYPE=\"text/javascript\"", " type='text/javascript'", " async")
	b.w("<script" + typ + ">")
	b.jsStatements("js")
	b.w(b.pick("endscript", "</script>", "</script>", "</SCRIPT>", "</script >"))
}

func (b *builder) style() {
	typ := b.pick("ctype", "", "", " type=\"text/css\"", " media=\"print\"")
	b.w("<style" + typ + ">")
	b.cssRules("css")
	b.w("</style>")
}

// ---- JavaScript

func (b *builder) jsStatements(p string) {
	n := rapid.IntRange(1, 4).Draw(b.t, "nstmt")
	for i := 0; i < n; i++ {
		b.jsStatement(p)
		b.w(b.pick("jssep", "\n", " ", "\n\n"))
	}
}

func (b *builder) jsStatement(p string) {
	switch rapid.IntRange(0, 16).Draw(b.t, "jsstmt") {
	case 0, 1, 2:
		b.w("var a = ")
		b.hole(p+".expr", "1")
		b.w(";")
	case 3:
		b.w("f(")
		b.hole(p+".expr", "1")
		b.w(", 2, ")
		b.hole(p+".expr", "3")
		b.w(");")
	case 4, 5:
		b.w("var s = \"" + b.pick("jspre", "", "x ", "it's ", "a\\\"b "))
		b.hole(p+".str.dq", "s")
		b.w(b.pick("jssuf", "", " y", "\\n", "b") + "\";")
	case 6:
		b.w("var s = '" + b.pick("jspre2", "", "x ", "say \\'hi\\' ", "\"q\" "))
		b.hole(p+".str.sq", "s")
		b.w(b.pick("jssuf2", "", " y", "0") + "';")
	case 7:
		b.w("var o = {k: ")
		b.hole(p+".expr", "1")
		b.w(", \"j\": [")
		b.hole(p+".expr", "2")
		b.w("]};")
	case 8:
		b.w("/* note ")
		b.hole(p+".blockcomment", "c")
		b.w(" */ var z = 1;")
	case 9:
		b.w("// note ")
		b.hole(p+".linecomment", "c")
		b.w("\nvar z = 2;")
	case 10:
		b.w("var t = `x ")
		b.hole(p+".template", "t")
		b.w(" y`;")
	case 11:
		b.w("var r = /a")
		b.hole(p+".regex", "b")
		b.w("c/g;")
	case 12:
		b.w("var d = total / ")
		b.hole(p+".expr.afterdiv", "2")
		b.w("; var e = d / 3;")
	case 13:
		if b.off[p+".expr.afterregexquote"] {
			// the quote inside the regex would desynchronise the template lexer for every later hole
			b.w("var re = /[a-z]/;")
			break
		}
		b.w("var re = /[\"']/; var w = ")
		b.hole(p+".expr.afterregexquote", "1")
		b.w(";")
	case 16:
		// a string literal that ends with an escaped backslash, then a hole at expression position
		b.w(b.pick("bsq", "var p = \"c:\\\\\"; var w = ", "var p = 'a\\\\'; var w = ", "var p = \"\\\\\\\"\"; var w = "))
		b.hole(p+".expr.afterbackslash", "1")
		b.w(";")
	case 14:
		b.w("var q = \"it's\"; var w = ")
		b.hole(p+".expr", "1")
		b.w("; var q2 = 'say \"x\"'; var w2 = ")
		b.hole(p+".expr", "2")
		b.w(";")
	default:
		b.w("if (a < b && c > d) { g(\"</" + "p>\"); }")
	}
}

// ---- CSS

func (b *builder) cssRules(p string) {
	n := rapid.IntRange(1, 3).Draw(b.t, "nrule")
	for i := 0; i < n; i++ {
		b.w(b.pick("sel", "p", ".c", "#i", "a:hover", "div > p", "@media print { p", "p::before") + " { ")
		sel := b.sb.String()
		media := strings.HasSuffix(sel, "@media print { p { ")
		m := rapid.IntRange(1, 3).Draw(b.t, "ndecl")
		for j := 0; j < m; j++ {
			b.cssDecl(p)
			b.w(b.pick("declsep", "; ", ";", " ; "))
		}
		b.w("}")
		if media {
			b.w(" }")
		}
		b.w(b.pick("rulesep", "\n", " "))
	}
}

func (b *builder) cssDecl(p string) {
	switch rapid.IntRange(0, 9).Draw(b.t, "decl") {
	case 0, 1:
		b.w("width: ")
		b.hole(p+".value", "1")
	case 2:
		b.w("font-family: ")
		b.hole(p+".value", "serif")
		b.w(", serif")
	case 3, 4:
		b.w("content: \"" + b.pick("csspre", "", "x ", "it's ", "\\\" "))
		b.hole(p+".str.dq", "s")
		b.w(b.pick("csssuf", "", " y", "b", "0") + "\"")
	case 5:
		b.w("content: '" + b.pick("csspre2", "", "x ", "\"q\" "))
		b.hole(p+".str.sq", "s")
		b.w(b.pick("csssuf2", "", " y", "f") + "'")
	case 6:
		b.w("background: url(\"/img/")
		b.hole(p+".urlstr", "a.png")
		b.w("\")")
	case 7:
		b.w("background: url(/img/")
		b.hole(p+".url", "a.png")
		b.w(")")
	case 8:
		b.w("/* ")
		b.hole(p+".comment", "c")
		b.w(" */ color: red")
	default:
		b.w("color: " + b.pick("color", "red", "#fff", "rgb(1, 2, 3)"))
	}
}

// ---- JSON

func (b *builder) jsonValue(depth int, p string) {
	switch k := rapid.IntRange(0, 7).Draw(b.t, "jv"); {
	case k <= 1:
		b.hole(p+".value", "1")
	case k == 2:
		b.w("\"" + b.pick("jpre", "", "x ", "a\\\"b "))
		b.hole(p+".str", "s")
		b.w(b.pick("jsuf", "", " y") + "\"")
	case k == 3 && depth > 0:
		b.w("[")
		n := rapid.IntRange(0, 3).Draw(b.t, "jarr")
		for i := 0; i < n; i++ {
			if i > 0 {
				b.w(",")
			}
			b.jsonValue(depth-1, p)
		}
		b.w("]")
	case (k == 4 || k == 5) && depth > 0:
		b.w("{")
		n := rapid.IntRange(0, 3).Draw(b.t, "jobj")
		for i := 0; i < n; i++ {
			if i > 0 {
				b.w(", ")
			}
			if b.chance("keyhole", 4) {
				b.w("\"k")
				b.hole(p+".str", "k")
				b.w(fmt.Sprintf("%d\": ", i))
			} else {
				b.w(fmt.Sprintf("\"k%d\": ", i))
			}
			b.jsonValue(depth-1, p)
		}
		b.w("}")
	default:
		b.w(b.pick("jlit", "1", "true", "null", "\"x\"", "-2.5e3", "[]", "{}"))
	}
}

// ---- Markdown

func (b *builder) mdBlocks() {
	n := rapid.IntRange(1, 4).Draw(b.t, "nmd")
	for i := 0; i < n; i++ {
		switch rapid.IntRange(0, 7).Draw(b.t, "md") {
		case 0, 1, 2:
			b.w(b.pick("mdpre", "Some text ", "A *b* ", "", "1 < 2 and "))
			b.hole("md.text", "t")
			b.w(b.pick("mdsuf", " more text.", ".", "", " **x**") + "\n\n")
		case 3:
			b.w("# Heading ")
			b.hole("md.text", "h")
			b.w("\n\n")
		case 4:
			b.w("para\n\n\tcode ")
			b.hole("md.code.tab", "c")
			b.w("\n\n")
		case 5:
			b.w("para\n\n    code ")
			b.hole("md.code.spaces", "c")
			b.w("\n\n")
		case 6:
			b.w("see " + b.pick("mdurl", "http://h.com/p?q=", "https://h.com/", "http://h.com/a/"))
			b.hole("md.url", "x")
			b.w(" ok\n\n")
		default:
			b.w("- item ")
			b.hole("md.text", "i")
			b.w("\n- other\n\n")
		}
	}
}

// Gen draws a document of the given format with at most maxHoles holes.
func Gen(t *rapid.T, format string, maxHoles int, off Off) Doc {
	b := &builder{t: t, off: off, max: maxHoles}
	file := "index." + format
	switch format {
	case "html":
		n := rapid.IntRange(1, 4).Draw(t, "nblocks")
		for i := 0; i < n; i++ {
			b.htmlBlock(2)
			b.w(b.pick("blocksep", "", "\n", " "))
		}
	case "js":
		b.jsStatements("js")
	case "css":
		b.cssRules("css")
	case "json":
		b.jsonValue(3, "json")
	case "md":
		b.mdBlocks()
	default:
		file = "index.txt"
		b.w("text ")
		b.hole("text", "t")
		b.w(" end\n")
	}
	return Doc{Format: format, File: file, Src: b.sb.String(), Holes: b.holes}
}

// Package vals generates random Go values of random types (built with
// reflect) together with a serialisable description, so that a failing case
// can be replayed. It is shared by the show-related properties.
package vals

import (
	"errors"
	"fmt"
	"math"
	"reflect"
	"strconv"
	"time"
	"unsafe"

	"github.com/open2b/scriggo/native"
	"pgregory.net/rapid"
)

// T describes a type.
type T struct {
	K      string `json:"k"` // bool int int8 … uintptr float32 float64 complex64 complex128 string bytes slice array map ptr struct iface time lib
	Elem   *T     `json:"elem,omitempty"`
	Key    *T     `json:"key,omitempty"`
	N      int    `json:"n,omitempty"` // array length
	Fields []FT   `json:"fields,omitempty"`
	Lib    string `json:"lib,omitempty"` // name of a library type when K == "lib"
}

// FT is a struct field.
type FT struct {
	Name string `json:"name"`
	Tag  string `json:"tag,omitempty"`
	T    T      `json:"t"`
}

// V describes a value of some T.
type V struct {
	Nil   bool      `json:"nil,omitempty"`
	B     bool      `json:"b,omitempty"`
	I     int64     `json:"i,omitempty"`
	U     uint64    `json:"u,omitempty"`
	FBits uint64    `json:"fbits,omitempty"` // float64 bits (JSON cannot carry NaN/Inf)
	CBits [2]uint64 `json:"cbits,omitempty"`
	S     []byte    `json:"s,omitempty"`
	Elems []V       `json:"elems,omitempty"` // slice/array elements, map values, struct fields
	Keys  []V       `json:"keys,omitempty"`  // map keys
	Dyn   *TV       `json:"dyn,omitempty"`   // dynamic type and value of an interface
	Sec   int64     `json:"sec,omitempty"`
	Nsec  int64     `json:"nsec,omitempty"`
	Zone  int       `json:"zone,omitempty"` // zone offset in seconds; 0 = UTC
}

// TV is a typed value.
type TV struct {
	T T `json:"t"`
	V V `json:"v"`
}

func (v V) F() float64 { return math.Float64frombits(v.FBits) }

// ---- library of named types

type MyString string
type MyInt int
type MyFloat float64
type MyBool bool
type StrStringer string

func (s StrStringer) String() string { return "S(" + string(s) + ")" }

type IntStringer int

func (i IntStringer) String() string { return fmt.Sprintf("I<%d>", int(i)) }

type EnvStr string

func (s EnvStr) String(env native.Env) string { return "E{" + string(s) + "}" }

type MyErr struct{ Msg string }

func (e MyErr) Error() string { return "err:" + e.Msg }

type Inner struct {
	A int
	B string `json:"b,omitempty"`
}
type Outer struct {
	Inner
	C int `json:"c"`
}
type Tagged struct {
	Skip     int    `json:"-"`
	Ren      string `json:"renamed"`
	Omit     []int  `json:"omit,omitempty"`
	unexp    int
	OmitOnly int            `json:",omitempty"`
	OmitPtr  *int           `json:"p,omitempty"`
	OmitMap  map[string]int `json:"m,omitempty"`
	OmitStr  string         `json:"s,omitempty"`
	OmitB    bool           `json:"bb,omitempty"`
	OmitF    float64        `json:"f,omitempty"`
	OmitIf   any            `json:"i,omitempty"`
	Other    string         `xml:"x"`
}

// HTMLStr etc. are trusted stringers.
type HTMLStr string

func (s HTMLStr) HTML() native.HTML { return native.HTML(s) }

type CSSStr string

func (s CSSStr) CSS() native.CSS { return native.CSS(s) }

type JSStr string

func (s JSStr) JS() native.JS { return native.JS(s) }

type JSONStr string

func (s JSONStr) JSON() native.JSON { return native.JSON(s) }

type MDStr string

func (s MDStr) Markdown() native.Markdown { return native.Markdown(s) }

// named composite types (no methods)
type RawBytes []byte
type MyOctet uint8
type Octets []MyOctet
type MyInts []int
type MyStrMap map[string]int
type MyArr [2]int
type MyPtr *int
type MyFunc func()
type MyChan chan int
type MyPlain struct{ A int }
type MyIface interface{ M() }

type HTMLEnvStr string

func (s HTMLEnvStr) HTML(env native.Env) native.HTML { return native.HTML(s) }

type CSSEnvStr string

func (s CSSEnvStr) CSS(env native.Env) native.CSS { return native.CSS(s) }

type JSEnvStr string

func (s JSEnvStr) JS(env native.Env) native.JS { return native.JS(s) }

type JSONEnvStr string

func (s JSONEnvStr) JSON(env native.Env) native.JSON { return native.JSON(s) }

type MDEnvStr string

func (s MDEnvStr) Markdown(env native.Env) native.Markdown { return native.Markdown(s) }

// LibNamedComposites are named types whose underlying type is composite.
var LibNamedComposites = []string{"RawBytes", "MyOctet", "Octets", "MyInts", "MyStrMap", "MyArr", "MyPtr", "MyFunc", "MyChan", "MyPlain", "MyIface"}

var libTypes = map[string]reflect.Type{
	"RawBytes": reflect.TypeFor[RawBytes](), "MyOctet": reflect.TypeFor[MyOctet](), "Octets": reflect.TypeFor[Octets](), "MyInts": reflect.TypeFor[MyInts](), "MyStrMap": reflect.TypeFor[MyStrMap](),
	"MyArr": reflect.TypeFor[MyArr](), "MyPtr": reflect.TypeFor[MyPtr](), "MyFunc": reflect.TypeFor[MyFunc](), "MyChan": reflect.TypeFor[MyChan](), "MyPlain": reflect.TypeFor[MyPlain](), "MyIface": reflect.TypeFor[MyIface](),
	"HTMLEnvStr": reflect.TypeFor[HTMLEnvStr](), "CSSEnvStr": reflect.TypeFor[CSSEnvStr](), "JSEnvStr": reflect.TypeFor[JSEnvStr](), "JSONEnvStr": reflect.TypeFor[JSONEnvStr](), "MDEnvStr": reflect.TypeFor[MDEnvStr](),
	"MyString": reflect.TypeFor[MyString](), "MyInt": reflect.TypeFor[MyInt](), "MyFloat": reflect.TypeFor[MyFloat](), "MyBool": reflect.TypeFor[MyBool](),
	"StrStringer": reflect.TypeFor[StrStringer](), "IntStringer": reflect.TypeFor[IntStringer](), "EnvStr": reflect.TypeFor[EnvStr](),
	"MyErr": reflect.TypeFor[MyErr](), "error": reflect.TypeFor[error](), "Inner": reflect.TypeFor[Inner](), "Outer": reflect.TypeFor[Outer](), "Tagged": reflect.TypeFor[Tagged](),
	"native.HTML": reflect.TypeFor[native.HTML](), "native.CSS": reflect.TypeFor[native.CSS](), "native.JS": reflect.TypeFor[native.JS](), "native.JSON": reflect.TypeFor[native.JSON](), "native.Markdown": reflect.TypeFor[native.Markdown](),
	"HTMLStr": reflect.TypeFor[HTMLStr](), "CSSStr": reflect.TypeFor[CSSStr](), "JSStr": reflect.TypeFor[JSStr](), "JSONStr": reflect.TypeFor[JSONStr](), "MDStr": reflect.TypeFor[MDStr](),
}

// LibNames lists the library types by group.
var (
	LibUntrustedScalars = []string{"MyString", "MyInt", "MyFloat", "MyBool", "StrStringer", "IntStringer", "EnvStr", "MyErr", "error"}
	LibStructs          = []string{"Inner", "Outer", "Tagged"}
	LibTrusted          = []string{"native.HTML", "native.CSS", "native.JS", "native.JSON", "native.Markdown", "HTMLStr", "CSSStr", "JSStr", "JSONStr", "MDStr", "HTMLEnvStr", "CSSEnvStr", "JSEnvStr", "JSONEnvStr", "MDEnvStr"}
)

var basic = map[string]reflect.Type{
	"bool": reflect.TypeFor[bool](), "int": reflect.TypeFor[int](), "int8": reflect.TypeFor[int8](), "int16": reflect.TypeFor[int16](), "int32": reflect.TypeFor[int32](), "int64": reflect.TypeFor[int64](),
	"uint": reflect.TypeFor[uint](), "uint8": reflect.TypeFor[uint8](), "uint16": reflect.TypeFor[uint16](), "uint32": reflect.TypeFor[uint32](), "uint64": reflect.TypeFor[uint64](), "uintptr": reflect.TypeFor[uintptr](), "unsafeptr": reflect.TypeFor[unsafe.Pointer](),
	"float32": reflect.TypeFor[float32](), "float64": reflect.TypeFor[float64](), "complex64": reflect.TypeFor[complex64](), "complex128": reflect.TypeFor[complex128](),
	"string": reflect.TypeFor[string](), "bytes": reflect.TypeFor[[]byte](), "iface": reflect.TypeFor[any](), "time": reflect.TypeFor[time.Time](),
}

// Type builds the reflect.Type.
func (t T) Type() reflect.Type {
	if rt, ok := basic[t.K]; ok {
		return rt
	}
	switch t.K {
	case "lib":
		return libTypes[t.Lib]
	case "slice":
		return reflect.SliceOf(t.Elem.Type())
	case "array":
		return reflect.ArrayOf(t.N, t.Elem.Type())
	case "map":
		return reflect.MapOf(t.Key.Type(), t.Elem.Type())
	case "ptr":
		return reflect.PointerTo(t.Elem.Type())
	case "struct":
		fs := make([]reflect.StructField, len(t.Fields))
		for i, f := range t.Fields {
			fs[i] = reflect.StructField{Name: f.Name, Type: f.T.Type(), Tag: reflect.StructTag(f.Tag)}
		}
		return reflect.StructOf(fs)
	}
	panic("vals: unknown kind " + t.K)
}

func (t T) String() string { return t.Type().String() }

// Value builds the reflect.Value of type t.Type() described by v.
func (tv TV) Value() reflect.Value {
	t, v := tv.T, tv.V
	rt := t.Type()
	out := reflect.New(rt).Elem()
	switch t.K {
	case "bool":
		out.SetBool(v.B)
	case "int", "int8", "int16", "int32", "int64":
		out.SetInt(v.I)
	case "uint", "uint8", "uint16", "uint32", "uint64", "uintptr":
		out.SetUint(v.U)
	case "float32", "float64":
		out.SetFloat(v.F())
	case "complex64", "complex128":
		out.SetComplex(complex(math.Float64frombits(v.CBits[0]), math.Float64frombits(v.CBits[1])))
	case "string":
		out.SetString(string(v.S))
	case "bytes":
		if !v.Nil {
			out.SetBytes(append([]byte{}, v.S...))
		}
	case "iface":
		if v.Dyn != nil {
			out.Set(v.Dyn.Value())
		}
	case "time":
		loc := time.UTC
		if v.Zone != 0 {
			loc = time.FixedZone(fmt.Sprintf("Z%d", v.Zone), v.Zone)
		}
		out.Set(reflect.ValueOf(time.Unix(v.Sec, v.Nsec).In(loc)))
	case "slice":
		if !v.Nil {
			s := reflect.MakeSlice(rt, len(v.Elems), len(v.Elems))
			for i, e := range v.Elems {
				s.Index(i).Set(TV{*t.Elem, e}.Value())
			}
			out.Set(s)
		}
	case "array":
		for i, e := range v.Elems {
			out.Index(i).Set(TV{*t.Elem, e}.Value())
		}
	case "map":
		if !v.Nil {
			m := reflect.MakeMap(rt)
			for i, k := range v.Keys {
				m.SetMapIndex(TV{*t.Key, k}.Value(), TV{*t.Elem, v.Elems[i]}.Value())
			}
			out.Set(m)
		}
	case "ptr":
		if !v.Nil {
			p := reflect.New(rt.Elem())
			p.Elem().Set(TV{*t.Elem, v.Elems[0]}.Value())
			out.Set(p)
		}
	case "struct":
		for i, f := range t.Fields {
			out.Field(i).Set(TV{f.T, v.Elems[i]}.Value())
		}
	case "lib":
		switch t.Lib {
		case "MyString", "StrStringer", "EnvStr", "native.HTML", "native.CSS", "native.JS", "native.JSON", "native.Markdown", "HTMLStr", "CSSStr", "JSStr", "JSONStr", "MDStr", "HTMLEnvStr", "CSSEnvStr", "JSEnvStr", "JSONEnvStr", "MDEnvStr":
			out.SetString(string(v.S))
		case "MyInt", "IntStringer":
			out.SetInt(v.I)
		case "RawBytes":
			out.SetBytes(append([]byte{}, v.S...))
		case "MyOctet":
			out.SetUint(uint64(uint8(v.U)))
		case "Octets":
			o := Octets{}
			for _, b := range v.S {
				o = append(o, MyOctet(b))
			}
			out.Set(reflect.ValueOf(o))
		case "MyInts":
			out.Set(reflect.ValueOf(MyInts{int(v.I), 2}))
		case "MyStrMap":
			out.Set(reflect.ValueOf(MyStrMap{"k": int(v.I)}))
		case "MyArr":
			out.Set(reflect.ValueOf(MyArr{int(v.I), 1}))
		case "MyPtr":
			x := int(v.I)
			out.Set(reflect.ValueOf(MyPtr(&x)))
		case "MyFunc":
			out.Set(reflect.ValueOf(MyFunc(func() {})))
		case "MyChan":
			out.Set(reflect.ValueOf(make(MyChan)))
		case "MyPlain":
			out.Set(reflect.ValueOf(MyPlain{int(v.I)}))
		case "MyIface":
			// nil interface value
		case "MyFloat":
			out.SetFloat(v.F())
		case "MyBool":
			out.SetBool(v.B)
		case "MyErr":
			out.Set(reflect.ValueOf(MyErr{string(v.S)}))
		case "error":
			if !v.Nil {
				out.Set(reflect.ValueOf(errors.New(string(v.S))))
			}
		case "Inner":
			out.Set(reflect.ValueOf(Inner{A: int(v.I), B: string(v.S)}))
		case "Outer":
			out.Set(reflect.ValueOf(Outer{Inner: Inner{A: int(v.I), B: string(v.S)}, C: int(v.U)}))
		case "Tagged":
			tg := Tagged{Skip: 1, Ren: string(v.S), unexp: 2, OmitOnly: int(v.I), OmitStr: string(v.S), OmitB: v.B, OmitF: v.F(), Other: "o"}
			if v.U%2 == 1 {
				tg.Omit = []int{int(v.U)}
				x := int(v.U)
				tg.OmitPtr = &x
				tg.OmitMap = map[string]int{"k": x}
				tg.OmitIf = x
			} else if v.U%4 == 2 {
				tg.Omit = []int{}
				tg.OmitMap = map[string]int{}
			}
			out.Set(reflect.ValueOf(tg))
		}
	case "unsafeptr":
		// the zero value (nil)
	default:
		panic("vals: value of unknown kind " + t.K)
	}
	return out
}

// Interface returns the Go value.
func (tv TV) Interface() any { return tv.Value().Interface() }

// ---- generation

// Options restrict what Gen produces.
type Options struct {
	MaxDepth   int
	Complex    bool // allow complex kinds
	Trusted    bool // allow trusted format types
	Strings    []string
	NonFinite  bool // allow NaN and infinities
	Uintptr    bool
	Time       bool
	StructLib  bool
	ErrorIface bool
}

var scalarKinds = []string{"bool", "int", "int8", "int16", "int32", "int64", "uint", "uint8", "uint16", "uint32", "uint64", "float32", "float64", "string"}
var keyKinds = []string{"string", "int", "int8", "int64", "uint", "uint16", "uint64", "bool", "float64", "float32"}

var fieldNames = []string{"A", "Bb", "C1", "Name", "X", "Value", "Z_9"}
var tags = []string{"", "", `json:"a"`, `json:"x,omitempty"`, `json:",omitempty"`, `json:"-"`, `json:"-,"`, `json:"weird name"`, `json:"n,string2"`, `json:"q,omitempty,foo"`, `xml:"y"`, `json:"Value"`}

// GenT draws a type.
func GenT(t *rapid.T, depth int, o Options) T {
	if depth <= 0 || rapid.IntRange(0, 9).Draw(t, "scalar") < 4 {
		return genScalarT(t, o)
	}
	switch rapid.IntRange(0, 7).Draw(t, "comp") {
	case 0:
		e := GenT(t, depth-1, o)
		return T{K: "slice", Elem: &e}
	case 1:
		e := GenT(t, depth-1, o)
		return T{K: "array", Elem: &e, N: rapid.IntRange(0, 3).Draw(t, "alen")}
	case 2:
		k := T{K: rapid.SampledFrom(keyKinds).Draw(t, "key")}
		if rapid.IntRange(0, 5).Draw(t, "libkey") == 0 {
			k = T{K: "lib", Lib: rapid.SampledFrom([]string{"MyString", "MyInt", "StrStringer", "IntStringer"}).Draw(t, "lk")}
		}
		e := GenT(t, depth-1, o)
		return T{K: "map", Key: &k, Elem: &e}
	case 3:
		e := GenT(t, depth-1, o)
		return T{K: "ptr", Elem: &e}
	case 4, 5:
		n := rapid.IntRange(0, 4).Draw(t, "nfields")
		st := T{K: "struct"}
		used := map[string]bool{}
		for i := 0; i < n; i++ {
			name := rapid.SampledFrom(fieldNames).Draw(t, "fname")
			if used[name] {
				continue
			}
			used[name] = true
			st.Fields = append(st.Fields, FT{Name: name, Tag: rapid.SampledFrom(tags).Draw(t, "tag"), T: GenT(t, depth-1, o)})
		}
		return st
	case 6:
		return T{K: "iface"}
	}
	if o.StructLib {
		return T{K: "lib", Lib: rapid.SampledFrom(LibStructs).Draw(t, "slib")}
	}
	return T{K: "iface"}
}

func genScalarT(t *rapid.T, o Options) T {
	switch k := rapid.IntRange(0, 19).Draw(t, "sk"); {
	case k < 12:
		return T{K: rapid.SampledFrom(scalarKinds).Draw(t, "kind")}
	case k == 12:
		return T{K: "bytes"}
	case k == 13 && o.Time:
		return T{K: "time"}
	case k == 14 && o.Complex:
		return T{K: rapid.SampledFrom([]string{"complex64", "complex128"}).Draw(t, "ck")}
	case k == 15 && o.Uintptr:
		return T{K: "uintptr"}
	case k == 16 && o.Trusted:
		return T{K: "lib", Lib: rapid.SampledFrom(LibTrusted).Draw(t, "tlib")}
	case k == 17 || k == 18:
		l := rapid.SampledFrom(LibUntrustedScalars).Draw(t, "ulib")
		if l == "error" && !o.ErrorIface {
			l = "MyErr"
		}
		return T{K: "lib", Lib: l}
	}
	return T{K: "string"}
}

var floats = []float64{0, 1, -1, 0.5, -2.25, 1e21, 1e-7, 123456789.125, math.MaxFloat64, math.SmallestNonzeroFloat64, math.MaxFloat32, 3.4e38, 1e300, -1e-300, 9007199254740993, 0.1, 1.0 / 3}
var ints = []int64{0, 1, -1, 2, 7, -128, 127, 255, 256, 32767, -32768, 65535, 1 << 31, -(1 << 31), 1<<53 + 1, math.MaxInt64, math.MinInt64, 42}

func clampInt(k string, i int64) int64 {
	switch k {
	case "int8":
		return int64(int8(i))
	case "int16":
		return int64(int16(i))
	case "int32":
		return int64(int32(i))
	}
	return i
}
func clampUint(k string, u uint64) uint64 {
	switch k {
	case "uint8":
		return uint64(uint8(u))
	case "uint16":
		return uint64(uint16(u))
	case "uint32":
		return uint64(uint32(u))
	}
	return u
}

func genString(t *rapid.T, o Options) []byte {
	pool := o.Strings
	if len(pool) == 0 {
		pool = []string{"", "a", "x y", "<b>", "\"", "'", "é", "\n", "</script>", "\\", "😀", "\xff", "&amp;", "0", "k"}
	}
	switch rapid.IntRange(0, 5).Draw(t, "sgen") {
	case 0:
		return []byte(rapid.String().Draw(t, "rs"))
	case 1:
		return []byte(rapid.SampledFrom(pool).Draw(t, "s1") + rapid.SampledFrom(pool).Draw(t, "s2"))
	}
	return []byte(rapid.SampledFrom(pool).Draw(t, "s"))
}

func genFloat(t *rapid.T, k string, o Options) float64 {
	var f float64
	switch rapid.IntRange(0, 9).Draw(t, "fgen") {
	case 0:
		f = rapid.Float64().Draw(t, "rf")
	case 1:
		if o.NonFinite {
			f = rapid.SampledFrom([]float64{math.NaN(), math.Inf(1), math.Inf(-1), math.Copysign(0, -1)}).Draw(t, "nf")
		}
	default:
		f = rapid.SampledFrom(floats).Draw(t, "bf")
		if rapid.Bool().Draw(t, "neg") {
			f = -f
		}
	}
	if k == "float32" || k == "complex64" {
		f = float64(float32(f))
	}
	return f
}

// GenV draws a value of type ty.
func GenV(t *rapid.T, ty T, depth int, o Options) V {
	switch ty.K {
	case "unsafeptr":
		_ = rapid.Bool().Draw(t, "unsafeptr") // rapid requires a draw
		return V{Nil: true}                   // only the nil unsafe.Pointer is generated
	case "bool":
		return V{B: rapid.Bool().Draw(t, "b")}
	case "int", "int8", "int16", "int32", "int64":
		return V{I: clampInt(ty.K, rapid.SampledFrom(ints).Draw(t, "i"))}
	case "uint", "uint8", "uint16", "uint32", "uint64", "uintptr":
		return V{U: clampUint(ty.K, uint64(rapid.SampledFrom(ints).Draw(t, "u")))}
	case "float32", "float64":
		return V{FBits: math.Float64bits(genFloat(t, ty.K, o))}
	case "complex64", "complex128":
		return V{CBits: [2]uint64{math.Float64bits(genFloat(t, ty.K, o)), math.Float64bits(genFloat(t, ty.K, o))}}
	case "string":
		return V{S: genString(t, o)}
	case "bytes":
		if rapid.IntRange(0, 5).Draw(t, "nilb") == 0 {
			return V{Nil: true}
		}
		return V{S: rapid.SliceOfN(rapid.Byte(), 0, 5).Draw(t, "bytes")}
	case "time":
		return V{Sec: rapid.SampledFrom([]int64{0, 1, -1, 1616840474, 253402300799, -62135596800, 951782399, 4102444800, -2208988800}).Draw(t, "sec"),
			Nsec: rapid.SampledFrom([]int64{0, 0, 1, 999999999, 500000000, 123456789, 1000000}).Draw(t, "nsec"),
			Zone: rapid.SampledFrom([]int{0, 0, 3600, -18000, 19800, 45 * 60, -(9*3600 + 30*60), 14 * 3600, -30 * 60, -45 * 60, -60}).Draw(t, "zone")}
	case "iface":
		if depth <= 0 || rapid.IntRange(0, 4).Draw(t, "niliface") == 0 {
			return V{Nil: true}
		}
		dt := GenT(t, depth-1, o)
		if dt.K == "iface" {
			return V{Nil: true}
		}
		dv := GenV(t, dt, depth-1, o)
		return V{Dyn: &TV{dt, dv}}
	case "slice":
		if rapid.IntRange(0, 5).Draw(t, "nils") == 0 {
			return V{Nil: true}
		}
		n := rapid.IntRange(0, 3).Draw(t, "slen")
		v := V{Elems: []V{}}
		for i := 0; i < n; i++ {
			v.Elems = append(v.Elems, GenV(t, *ty.Elem, depth-1, o))
		}
		return v
	case "array":
		v := V{}
		for i := 0; i < ty.N; i++ {
			v.Elems = append(v.Elems, GenV(t, *ty.Elem, depth-1, o))
		}
		return v
	case "map":
		if rapid.IntRange(0, 5).Draw(t, "nilm") == 0 {
			return V{Nil: true}
		}
		n := rapid.IntRange(0, 3).Draw(t, "mlen")
		v := V{Keys: []V{}, Elems: []V{}}
		seen := map[string]bool{}
		for i := 0; i < n; i++ {
			k := GenV(t, *ty.Key, 0, Options{})
			if f := k.F(); f == 0 {
				k.FBits = 0 // -0 and +0 are the same map key
			}
			ks := KeyString(TV{*ty.Key, k})
			if seen[ks] {
				continue
			}
			seen[ks] = true
			v.Keys = append(v.Keys, k)
			v.Elems = append(v.Elems, GenV(t, *ty.Elem, depth-1, o))
		}
		return v
	case "ptr":
		// A nil pointer to a type whose value-receiver methods (Error, String, HTML, …) the renderer
		// calls makes the Go runtime panic inside the embedder's own method; Scriggo passes panics
		// of native code to the host by design, so such values are outside every show property.
		hasMethods := ty.Elem.K == "time" || ty.Elem.K == "lib" && ty.Elem.Lib != "MyString" && ty.Elem.Lib != "MyInt" && ty.Elem.Lib != "MyFloat" && ty.Elem.Lib != "MyBool" && ty.Elem.Lib != "Inner" && ty.Elem.Lib != "Outer" && ty.Elem.Lib != "Tagged"
		if !hasMethods && rapid.IntRange(0, 3).Draw(t, "nilp") == 0 {
			return V{Nil: true}
		}
		return V{Elems: []V{GenV(t, *ty.Elem, depth-1, o)}}
	case "struct":
		v := V{}
		for _, f := range ty.Fields {
			v.Elems = append(v.Elems, GenV(t, f.T, depth-1, o))
		}
		return v
	case "lib":
		switch ty.Lib {
		case "MyInt", "IntStringer":
			return V{I: rapid.SampledFrom(ints).Draw(t, "li")}
		case "MyFloat":
			return V{FBits: math.Float64bits(genFloat(t, "float64", o))}
		case "MyBool":
			return V{B: rapid.Bool().Draw(t, "lb")}
		case "error":
			if rapid.IntRange(0, 4).Draw(t, "nilerr") == 0 {
				return V{Nil: true}
			}
			return V{S: genString(t, o)}
		case "Inner", "Outer", "Tagged":
			return V{I: rapid.SampledFrom(ints).Draw(t, "si"), S: genString(t, o), U: uint64(rapid.IntRange(0, 7).Draw(t, "su")), B: rapid.Bool().Draw(t, "sb"), FBits: math.Float64bits(rapid.SampledFrom([]float64{0, 1.5}).Draw(t, "sf"))}
		}
		return V{S: genString(t, o)}
	}
	panic("vals: GenV of unknown kind " + ty.K)
}

// Gen draws a typed value.
func Gen(t *rapid.T, o Options) TV {
	ty := GenT(t, o.MaxDepth, o)
	return TV{ty, GenV(t, ty, o.MaxDepth, o)}
}

// KeyString is the string form Scriggo documents for map keys (Stringer, else
// the text form of the basic value).
func KeyString(tv TV) string {
	v := tv.Value()
	if s, ok := v.Interface().(fmt.Stringer); ok {
		return s.String()
	}
	switch v.Kind() {
	case reflect.String:
		return v.String()
	case reflect.Bool:
		return fmt.Sprint(v.Bool())
	case reflect.Int, reflect.Int8, reflect.Int16, reflect.Int32, reflect.Int64:
		return fmt.Sprint(v.Int())
	case reflect.Uint, reflect.Uint8, reflect.Uint16, reflect.Uint32, reflect.Uint64, reflect.Uintptr:
		return fmt.Sprint(v.Uint())
	case reflect.Float32:
		return strconv.FormatFloat(v.Float(), 'f', -1, 32)
	case reflect.Float64:
		return strconv.FormatFloat(v.Float(), 'f', -1, 64)
	}
	return fmt.Sprint(v.Interface())
}

// Package tmplset generates multi-file template sets: a page that optionally extends a
// layout, imported macro files, rendered partials, and a mix of declared globals (variables,
// a function, constants, a type) plus the native package "host".
package tmplset

import (
	"fmt"
	"strings"

	"github.com/open2b/scriggo/native"
	"pgregory.net/rapid"

	"verif/harness/gen/gopkgs"
)

// Set is a generated template set.
type Set struct {
	Files map[string]string
	Main  string
}

// Globals returns fresh declarations for a build and the values of the variables for a
// run. Every variable is declared with a nil pointer, so each run has its own copy
// initialised from vars. nvars extra string variables v0..v{n-1} are added.
func Globals(nvars int, salt int) (native.Declarations, map[string]any) {
	g := native.Declarations{}
	vars := map[string]any{}
	for i := 0; i < nvars; i++ {
		g[fmt.Sprintf("v%d", i)] = (*string)(nil)
		vars[fmt.Sprintf("v%d", i)] = fmt.Sprintf("x%d_%d", i, salt)
	}
	g["gs"] = (*string)(nil)
	g["gi"] = (*int)(nil)
	g["gl"] = (*[]int)(nil)
	g["gm"] = (*map[string]int)(nil)
	g["add"] = func(a, b int) int { return a + b }
	g["title"] = "T"
	g["limit"] = native.UntypedNumericConst("4")
	g["Pair"] = gopkgs.PairType
	g["unused1"] = (*int)(nil)
	g["unused2"] = func() {}
	vars["gs"] = fmt.Sprintf("S%d", salt)
	vars["gi"] = 3 + salt
	vars["gl"] = []int{1, 2, 3 + salt}
	vars["gm"] = map[string]int{"k": 1 + salt}
	return g, vars
}

// Gen draws a layout, a page extending it, imported macro files and rendered
// partials that use the declared globals in a random order.
func Gen(t *rapid.T) Set {
	uses := []string{"{{ gs }}", "{{ gi }}", "{{ len(gl) }}", "{{ gm[\"k\"] }}", "{{ add(gi, 1) }}", "{{ title }}", "{{ limit }}", "{{ Pair{A: 1, B: \"b\"}.Sum() }}",
		"{% for x in gl %}{{ x }},{% end %}", "{% if gi > 2 %}big{% end %}", "{% for i := 0; i < limit; i++ %}{{ i }}{% end %}", "{% gi = gi + 1 %}", "{{ host.Add(gi, 2) }}", "{{ host.Name }}",
		"<a href=\"/p?{{ gs }}\">l</a>", "<script>var x = {{ gl }};</script>", "<style>a { width: {{ gi }}px }</style>", "{% var loc = gs + title %}{{ loc }}", "{{ macro() string }}{{ gs }}{% end macro %}"}
	body := func(n int, useHost *bool) string {
		var b strings.Builder
		for i := 0; i < n; i++ {
			u := rapid.SampledFrom(uses).Draw(t, "use")
			if strings.Contains(u, "host.") {
				*useHost = true
			}
			if strings.HasPrefix(u, "{{ macro()") {
				u = "{{ gs }}"
			}
			b.WriteString(u)
			b.WriteString(rapid.SampledFrom([]string{" ", "\n", "<b>t</b>", ""}).Draw(t, "sep"))
		}
		return b.String()
	}
	files := map[string]string{}
	nlibs := rapid.IntRange(0, 2).Draw(t, "nlibs")
	nparts := rapid.IntRange(0, 2).Draw(t, "nparts")
	withLayout := rapid.Bool().Draw(t, "layout")
	hostIn := map[string]bool{}
	for i := 0; i < nlibs; i++ {
		h := false
		var b strings.Builder
		nm := rapid.IntRange(1, 3).Draw(t, "nmacros")
		for j := 0; j < nm; j++ {
			fmt.Fprintf(&b, "{%% macro L%dM%d(p int) %%}[%s{{ p }}]{%% end %%}\n", i, j, body(rapid.IntRange(0, 3).Draw(t, "mlen"), &h))
		}
		if rapid.Bool().Draw(t, "libvar") {
			fmt.Fprintf(&b, "{%% var L%dV = gi + %d %%}\n", i, i)
		}
		src := b.String()
		if h {
			src = "{% import \"host\" %}\n" + src
		}
		files[fmt.Sprintf("lib%d.html", i)] = src
		hostIn[fmt.Sprintf("lib%d.html", i)] = h
	}
	for i := 0; i < nparts; i++ {
		h := false
		src := fmt.Sprintf("<p>part%d %s</p>", i, body(rapid.IntRange(1, 4).Draw(t, "plen"), &h))
		if h {
			src = "{% import \"host\" %}" + src
		}
		files[fmt.Sprintf("part%d.html", i)] = src
	}
	imports := func(b *strings.Builder) []string {
		var calls []string
		for i := 0; i < nlibs; i++ {
			switch rapid.IntRange(0, 3).Draw(t, "impform") {
			case 0:
				continue
			case 1:
				fmt.Fprintf(b, "{%% import \"lib%d.html\" %%}", i)
				calls = append(calls, fmt.Sprintf("{{ L%dM0(%d) }}", i, i))
			case 2:
				fmt.Fprintf(b, "{%% import l%d \"lib%d.html\" %%}", i, i)
				calls = append(calls, fmt.Sprintf("{{ l%d.L%dM0(7) }}", i, i))
			default:
				fmt.Fprintf(b, "{%% import \"lib%d.html\" for L%dM0 %%}", i, i)
				calls = append(calls, fmt.Sprintf("{{ L%dM0(gi) }}", i))
			}
			if len(calls) > 0 && rapid.IntRange(0, 2).Draw(t, "macrovalue") == 0 {
				// an imported macro used as a value
				last := calls[len(calls)-1]
				name := last[3:strings.Index(last, "(")]
				calls = append(calls, fmt.Sprintf("{%% if true %%}{%% mv := %s %%}{{ mv(2) }}{%% end %%}", name))
			}
		}
		return calls
	}
	content := func(calls []string) string {
		h := false
		var b strings.Builder
		n := rapid.IntRange(1, 5).Draw(t, "clen")
		for i := 0; i < n; i++ {
			switch rapid.IntRange(0, 3).Draw(t, "ck") {
			case 0:
				if len(calls) > 0 {
					b.WriteString(rapid.SampledFrom(calls).Draw(t, "call"))
					continue
				}
				fallthrough
			case 1:
				if nparts > 0 {
					fmt.Fprintf(&b, "{{ render \"part%d.html\" }}", rapid.IntRange(0, nparts-1).Draw(t, "part"))
					continue
				}
				fallthrough
			default:
				b.WriteString(body(2, &h))
			}
		}
		if h {
			return "{% import \"host\" %}" + b.String()
		}
		return b.String()
	}
	var page strings.Builder
	if withLayout {
		var lay strings.Builder
		lcalls := imports(&lay)
		lc := content(lcalls)
		if strings.HasPrefix(lc, "{% import \"host\" %}") {
			lay.WriteString("{% import \"host\" %}")
			lc = strings.TrimPrefix(lc, "{% import \"host\" %}")
		}
		fmt.Fprintf(&lay, "<html><head><title>{{ Title() }}</title></head><body>%s{{ Body() }}%s</body></html>", lc, "{{ Side(1) }}")
		files["layout.html"] = lay.String()
		page.WriteString("{% extends \"layout.html\" %}")
		calls := imports(&page)
		decls := []string{}
		for _, m := range []string{"Title", "Body", "Side(n int)"} {
			c := content(calls)
			if strings.HasPrefix(c, "{% import \"host\" %}") {
				page.WriteString("{% import \"host\" %}")
				c = strings.TrimPrefix(c, "{% import \"host\" %}")
				// a second import of the same package in one file is fine only once
			}
			decls = append(decls, fmt.Sprintf("{%% macro %s %%}%s{%% end %%}", m, c))
		}
		for _, d := range rapid.Permutation(decls).Draw(t, "macroorder") {
			page.WriteString(d + "\n")
		}
	} else {
		var head strings.Builder
		calls := imports(&head)
		c := content(calls)
		if strings.HasPrefix(c, "{% import \"host\" %}") {
			head.WriteString("{% import \"host\" %}")
			c = strings.TrimPrefix(c, "{% import \"host\" %}")
		}
		page.WriteString(head.String())
		page.WriteString(c)
	}
	src := page.String()
	// at most one host import per file
	if strings.Count(src, "{% import \"host\" %}") > 1 {
		first := strings.Index(src, "{% import \"host\" %}")
		rest := strings.ReplaceAll(src[first+len("{% import \"host\" %}"):], "{% import \"host\" %}", "")
		src = src[:first+len("{% import \"host\" %}")] + rest
	}
	files["index.html"] = src
	return Set{Files: files, Main: "index.html"}
}

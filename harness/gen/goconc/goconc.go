// Package goconc generates concurrent Go programs whose printed output does not depend on
// the schedule: every block synchronises through channels (pipelines, fan-in/fan-out,
// close/range, select merges, channel semaphores, start barriers) and prints only values
// that are fixed by the program text. host.Yield() (runtime.Gosched) is sprinkled in to move
// the interleavings around.
package goconc

import (
	"fmt"
	"strings"

	"pgregory.net/rapid"
)

// Prog is a generated program.
type Prog struct {
	Src      string
	Patterns []string
}

type gen struct {
	t  *rapid.T
	b  strings.Builder
	id int
}

func (g *gen) n(label string, lo, hi int) int { return rapid.IntRange(lo, hi).Draw(g.t, label) }

func (g *gen) yield() string {
	if g.n("yield", 0, 2) == 0 {
		return "host.Yield()\n"
	}
	return ""
}

func (g *gen) w(format string, args ...any) { fmt.Fprintf(&g.b, format, args...) }

// Patterns lists the pattern names.
var Patterns = []string{"fanin", "pipeline", "close-range", "select-merge", "semaphore", "go-args", "ping-pong", "loop-var", "barrier", "struct-results", "nested", "nil-case", "buffer-len", "worker-pool", "done-signal", "select-closed", "select-two-sends"}

// Off lists pattern names that must not be generated (recorded findings).
type Off map[string]bool

// Gen draws a program of one to four blocks.
func Gen(t *rapid.T) Prog { return GenOff(t, nil) }

// GenOff is Gen without the patterns of off.
func GenOff(t *rapid.T, off Off) Prog {
	g := &gen{t: t}
	var used []string
	nb := g.n("nblocks", 1, 4)
	var blocks []string
	for i := 0; i < nb; i++ {
		g.id++
		p := rapid.SampledFrom(Patterns).Draw(t, "pattern")
		if off[p] {
			p = "fanin"
		}
		used = append(used, p)
		g.b.Reset()
		g.block(p)
		blocks = append(blocks, g.b.String())
	}
	var s strings.Builder
	s.WriteString("package main\n\nimport \"host\"\n\ntype R struct {\n\tID int\n\tV  int\n}\n\nfunc square(x int) int {\n\thost.Yield()\n\treturn x * x\n}\n\nfunc main() {\n")
	for _, b := range blocks {
		s.WriteString("\t{\n")
		for _, l := range strings.Split(strings.TrimSuffix(b, "\n"), "\n") {
			if l == "" {
				continue
			}
			s.WriteString("\t\t" + l + "\n")
		}
		s.WriteString("\t}\n")
	}
	s.WriteString("\tprintln(\"end\")\n}\n")
	return Prog{Src: s.String(), Patterns: used}
}

func (g *gen) chanMake(typ string) string {
	if b := g.n("buf", 0, 3); b > 0 {
		return fmt.Sprintf("make(chan %s, %d)", typ, b)
	}
	return fmt.Sprintf("make(chan %s)", typ)
}

func (g *gen) block(p string) {
	switch p {
	case "fanin":
		n, k := g.n("workers", 1, 5), g.n("each", 1, 4)
		g.w("res := %s\n", g.chanMake("[2]int"))
		g.w("for w := 0; w < %d; w++ {\n\tgo func(w int) {\n\t\tfor j := 0; j < %d; j++ {\n\t\t\t%s\t\t\tres <- [2]int{w, w*100 + j}\n\t\t}\n\t}(w)\n}\n", n, k, g.yield())
		g.w("sums := make([]int, %d)\nfor i := 0; i < %d; i++ {\n\tv := <-res\n\tsums[v[0]] += v[1]\n}\n", n, n*k)
		g.w("for w, s := range sums {\n\tprintln(\"fanin\", w, s)\n}\n")
	case "pipeline":
		stages, k := g.n("stages", 1, 4), g.n("count", 1, 6)
		g.w("src := %s\n", g.chanMake("int"))
		g.w("go func() {\n\tfor i := 0; i < %d; i++ {\n\t\tsrc <- i\n\t}\n\tclose(src)\n}()\n", k)
		prev := "src"
		for s := 0; s < stages; s++ {
			cur := fmt.Sprintf("st%d", s)
			op := rapid.SampledFrom([]string{"v + 1", "v * 2", "square(v)", "v - 3"}).Draw(g.t, "stageop")
			g.w("%s := %s\n", cur, g.chanMake("int"))
			g.w("go func(in <-chan int, out chan<- int) {\n\tfor v := range in {\n\t\t%s\t\tout <- %s\n\t}\n\tclose(out)\n}(%s, %s)\n", g.yield(), op, prev, cur)
			prev = cur
		}
		g.w("for v := range %s {\n\tprintln(\"pipeline\", v)\n}\n", prev)
	case "close-range":
		k := g.n("count", 0, 5)
		g.w("ch := %s\n", g.chanMake("string"))
		g.w("go func() {\n\tfor i := 0; i < %d; i++ {\n\t\t%s\t\tch <- \"m\" + string(rune('a'+i))\n\t}\n\tclose(ch)\n}()\n", k, g.yield())
		g.w("n := 0\nfor s := range ch {\n\tprintln(\"got\", s)\n\tn++\n}\nv, ok := <-ch\nprintln(\"closed\", n, v == \"\", ok)\n")
	case "select-merge":
		ka, kb := g.n("ka", 0, 4), g.n("kb", 0, 4)
		g.w("a := %s\nb := %s\n", g.chanMake("int"), g.chanMake("int"))
		g.w("go func() {\n\tfor i := 1; i <= %d; i++ {\n\t\t%s\t\ta <- i\n\t}\n\tclose(a)\n}()\n", ka, g.yield())
		g.w("go func() {\n\tfor i := 1; i <= %d; i++ {\n\t\t%s\t\tb <- i * 10\n\t}\n\tclose(b)\n}()\n", kb, g.yield())
		g.w("sum, na, nb := 0, 0, 0\nfor a != nil || b != nil {\n\tselect {\n\tcase v, ok := <-a:\n\t\tif !ok {\n\t\t\ta = nil\n\t\t\tcontinue\n\t\t}\n\t\tsum += v\n\t\tna++\n\tcase v, ok := <-b:\n\t\tif !ok {\n\t\t\tb = nil\n\t\t\tcontinue\n\t\t}\n\t\tsum += v\n\t\tnb++\n\t}\n}\nprintln(\"merge\", sum, na, nb)\n")
	case "semaphore":
		n, k := g.n("workers", 1, 5), g.n("each", 1, 5)
		g.w("sem := make(chan struct{}, 1)\ndone := make(chan bool)\ncounter := 0\n")
		g.w("for w := 0; w < %d; w++ {\n\tgo func() {\n\t\tfor j := 0; j < %d; j++ {\n\t\t\tsem <- struct{}{}\n\t\t\tc := counter\n\t\t\t%s\t\t\tcounter = c + 1\n\t\t\t<-sem\n\t\t}\n\t\tdone <- true\n\t}()\n}\n", n, k, g.yield())
		g.w("for w := 0; w < %d; w++ {\n\t<-done\n}\nprintln(\"counter\", counter)\n", n)
	case "go-args":
		g.w("r := make(chan int, 2)\nx, s := %d, \"a\"\n", g.n("x", 0, 9))
		g.w("go func(a int, t string) {\n\t%s\tr <- a + len(t)\n}(x, s+\"bc\")\nx, s = 100, \"zzzzzz\"\nprintln(\"goargs\", <-r, x, s)\n", g.yield())
	case "ping-pong":
		k := g.n("rounds", 1, 4)
		g.w("ping, pong, fin := make(chan int), make(chan int), make(chan bool)\n")
		g.w("go func() {\n\tfor i := 0; i < %d; i++ {\n\t\tv := <-ping\n\t\tprintln(\"pong\", v)\n\t\t%s\t\tpong <- v + 1\n\t}\n\tfin <- true\n}()\n", k, g.yield())
		g.w("v := 0\nfor i := 0; i < %d; i++ {\n\tprintln(\"ping\", v)\n\tping <- v\n\tv = <-pong\n}\n<-fin\nprintln(\"rounds\", v)\n", k)
	case "loop-var":
		n := g.n("iters", 1, 5)
		g.w("out := make(chan int, %d)\nfor i := 0; i < %d; i++ {\n\tgo func() {\n\t\t%s\t\tout <- i * i\n\t}()\n}\nsum := 0\nfor j := 0; j < %d; j++ {\n\tsum += <-out\n}\nprintln(\"loopvar\", sum)\n", n, n, g.yield(), n)
	case "barrier":
		n := g.n("workers", 1, 6)
		g.w("start := make(chan struct{})\nids := %s\n", g.chanMake("int"))
		g.w("for w := 1; w <= %d; w++ {\n\tgo func(w int) {\n\t\t<-start\n\t\t%s\t\tids <- w\n\t}(w)\n}\nclose(start)\nseen := make([]bool, %d)\nfor i := 0; i < %d; i++ {\n\tseen[<-ids] = true\n}\nall := true\nfor w := 1; w <= %d; w++ {\n\tall = all && seen[w]\n}\nprintln(\"barrier\", all)\n", n, g.yield(), n+1, n, n)
	case "struct-results":
		n := g.n("workers", 1, 5)
		g.w("res := %s\n", g.chanMake("R"))
		g.w("for w := 0; w < %d; w++ {\n\tgo func(id int) {\n\t\tres <- R{ID: id, V: square(id + 1)}\n\t}(w)\n}\ntab := map[int]int{}\nfor i := 0; i < %d; i++ {\n\tr := <-res\n\ttab[r.ID] = r.V\n}\nfor w := 0; w < %d; w++ {\n\tprintln(\"result\", w, tab[w])\n}\n", n, n, n)
	case "nested":
		n, m := g.n("outer", 1, 3), g.n("inner", 1, 3)
		g.w("total := make(chan int)\nfor w := 0; w < %d; w++ {\n\tgo func(w int) {\n\t\tpart := make(chan int)\n\t\tfor k := 0; k < %d; k++ {\n\t\t\tgo func(k int) {\n\t\t\t\t%s\t\t\t\tpart <- w*10 + k\n\t\t\t}(k)\n\t\t}\n\t\ts := 0\n\t\tfor k := 0; k < %d; k++ {\n\t\t\ts += <-part\n\t\t}\n\t\ttotal <- s\n\t}(w)\n}\nsum := 0\nfor w := 0; w < %d; w++ {\n\tsum += <-total\n}\nprintln(\"nested\", sum)\n", n, m, g.yield(), m, n)
	case "nil-case":
		g.w("var never chan int\nready := make(chan int, 1)\nready <- %d\nselect {\ncase v := <-never:\n\tprintln(\"never\", v)\ncase v := <-ready:\n\tprintln(\"ready\", v)\n}\nselect {\ncase v := <-never:\n\tprintln(\"never\", v)\ndefault:\n\tprintln(\"default\")\n}\n", g.n("val", 0, 9))
	case "buffer-len":
		c, k := g.n("cap", 1, 5), 0
		k = g.n("fill", 0, c)
		g.w("ch := make(chan int, %d)\nfor i := 0; i < %d; i++ {\n\tch <- i\n}\nprintln(\"buffer\", len(ch), cap(ch))\nclose(ch)\nn := 0\nfor range ch {\n\tn++\n}\nprintln(\"drained\", n, len(ch))\n", c, k)
	case "worker-pool":
		n, jobs := g.n("workers", 1, 4), g.n("jobs", 0, 8)
		g.w("jobs := %s\nres := make(chan int, %d)\nfin := make(chan bool)\n", g.chanMake("int"), jobs+1)
		g.w("for w := 0; w < %d; w++ {\n\tgo func() {\n\t\tfor j := range jobs {\n\t\t\t%s\t\t\tres <- square(j)\n\t\t}\n\t\tfin <- true\n\t}()\n}\nfor j := 0; j < %d; j++ {\n\tjobs <- j\n}\nclose(jobs)\nfor w := 0; w < %d; w++ {\n\t<-fin\n}\nclose(res)\nsum := 0\nfor v := range res {\n\tsum += v\n}\nprintln(\"pool\", sum)\n", n, g.yield(), jobs, n)
	case "select-closed":
		// a receive case chosen because the channel is closed and drained assigns the zero value,
		// whatever was received before through a case of the same kind
		k := g.n("count", 1, 4)
		typ := rapid.SampledFrom([]string{"int", "string", "R", "float64"}).Draw(g.t, "sctyp")
		val := map[string]string{"int": "i + 7", "string": `"s" + string(rune('a'+i))`, "R": "R{i + 1, i * 3}", "float64": "float64(i) + 0.5"}[typ]
		show := map[string]string{"int": "v", "string": "v", "R": "v.ID, v.V", "float64": "v"}[typ]
		g.w("ch := make(chan %s, %d)\n", typ, k)
		g.w("go func() {\n\tfor i := 0; i < %d; i++ {\n\t\t%s\t\tch <- %s\n\t}\n\tclose(ch)\n}()\n", k, g.yield(), val)
		g.w("for i := 0; i < %d; i++ {\n\tselect {\n\tcase v, ok := <-ch:\n\t\tprintln(\"select-closed\", %s, ok)\n\t}\n}\n", k+2, show)
		g.w("var last %s\nselect {\ncase last = <-ch:\n}\n", typ)
		if typ == "R" {
			g.w("println(\"last\", last.ID, last.V)\n")
		} else {
			g.w("println(\"last\", last)\n")
		}
	case "select-two-sends":
		// two send cases of the same kind in one select: each channel gets its own value
		// (which case is chosen is not observable: only where each value went is printed)
		x, y := g.n("x", 1, 40), g.n("y", 51, 90)
		g.w("a, b := make(chan int, 2), make(chan int, 2)\n")
		g.w("for i := 0; i < 2; i++ {\n\tselect {\n\tcase a <- %d + i:\n\tcase b <- %d + i:\n\t}\n}\nclose(a)\nclose(b)\n", x, y)
		g.w("okA, okB, n := true, true, 0\nfor v := range a {\n\tn++\n\tif v < %d || v > %d {\n\t\tokA = false\n\t}\n}\nfor v := range b {\n\tn++\n\tif v < %d || v > %d {\n\t\tokB = false\n\t}\n}\n", x, x+1, y, y+1)
		g.w("println(\"two-sends\", okA, okB, n)\n")
	case "done-signal":
		g.w("quit := make(chan struct{})\nticks := make(chan int)\nstopped := make(chan int)\n")
		g.w("go func() {\n\tn := 0\n\tfor {\n\t\tselect {\n\t\tcase ticks <- n:\n\t\t\tn++\n\t\tcase <-quit:\n\t\t\tstopped <- n\n\t\t\treturn\n\t\t}\n\t}\n}()\n")
		k := g.n("take", 0, 5)
		g.w("last := -1\nfor i := 0; i < %d; i++ {\n\tlast = <-ticks\n}\nclose(quit)\nprintln(\"ticks\", last, <-stopped == last+1)\n", k)
	}
}

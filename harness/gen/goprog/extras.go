package goprog

import (
	"fmt"
	"strings"
)

// stmtExtra emits a self-contained snippet exercising one language feature with fresh names;
// values come from the expression generator, so they are not constants.
func (g *gen) stmtExtra() {
	if g.off["extras"] {
		g.stmtPrint()
		return
	}
	g.nvar++
	n := g.nvar
	x := func(s string) string { return fmt.Sprintf("%s%d", s, n) }
	// one statement holds at most one faulting operation and no call next to it (their order
	// is unspecified): the flags are reset when a new line starts, not between the
	// expressions of one line.
	at := -1
	e := func(typ string) string {
		if at != g.sb.Len() {
			g.curHasCall, g.curHasFault = false, false
		}
		v := g.expr(typ, 1)
		at = g.sb.Len()
		return v
	}
	k := g.pick("extra", 65)
	if k == 22 || k == 23 || k == 37 || k == 40 || k == 46 || k >= 56 && k <= 59 {
		if g.off["recover"] || g.rangeDepth > 0 && g.off["recover.in_range"] {
			k = 0
		} else {
			g.curRecovers = true
		}
	}
	switch k {
	case 0:
		g.feat("array_value")
		g.line("var %s [3]int", x("ar"))
		g.line("%s[1] = %s", x("ar"), e("int"))
		g.line("%s := %s", x("br"), x("ar"))
		g.line("%s[1]++", x("br"))
		g.line("println(%s[1], %s[1], len(%s), %s == %s)", x("ar"), x("br"), x("br"), x("ar"), x("br"))
	case 1:
		g.feat("struct_pointer")
		if !g.structs {
			g.stmtPrint()
			return
		}
		g.line("%s := S0{A: %s, B: %s}", x("st"), e("int"), e("string"))
		g.line("%s := &%s", x("sp"), x("st"))
		g.line("%s.A += 2", x("sp"))
		g.line("%s := *%s", x("sc"), x("sp"))
		g.line("%s.B += \"!\"", x("sc"))
		g.line("(*%s).A--", x("sp"))
		g.line("println(%s.A, %s.B, %s.A, %s.B, %s == %s)", x("st"), x("st"), x("sc"), x("sc"), x("st"), x("sc"))
	case 2:
		g.feat("slice_alias")
		g.line("%s := make([]int, 3, 6)", x("sl"))
		g.line("%s[0], %s[2] = %s, 5", x("sl"), x("sl"), e("int"))
		g.line("%s := %s[:2]", x("sm"), x("sl"))
		g.line("%s[0]++", x("sm"))
		g.line("%s := append(%s, 7)", x("sn"), x("sm"))
		g.line("println(%s[0], %s[2], len(%s), cap(%s), %s[2])", x("sl"), x("sl"), x("sn"), x("sm"), x("sn"))
	case 3:
		g.feat("named_result_defer")
		g.line("%s := func() (r int) {", x("nr"))
		g.line("\tdefer func() { r *= 2 }()")
		g.line("\tdefer func() { r += 1 }()")
		g.line("\treturn %s", e("int"))
		g.line("}")
		g.line("println(%s())", x("nr"))
	case 4:
		g.feat("variadic")
		g.line("%s := func(base int, xs ...int) int {", x("vf"))
		g.line("\tfor _, v := range xs {")
		g.line("\t\tbase += v")
		g.line("\t}")
		g.line("\treturn base + len(xs)")
		g.line("}")
		g.line("%s := []int{%s, 2}", x("va"), e("int"))
		g.line("println(%s(1), %s(1, 2, 3), %s(0, %s...), %s(5, %s[:1]...))", x("vf"), x("vf"), x("vf"), x("va"), x("vf"), x("va"))
	case 5:
		g.feat("swap")
		g.line("%s, %s := %s, %s", x("sa"), x("sb"), e("int"), e("int"))
		g.line("%s, %s = %s, %s", x("sa"), x("sb"), x("sb"), x("sa"))
		g.line("%s := []int{1, 2, 3}", x("sw"))
		g.line("%s[0], %s[2] = %s[2], %s[0]", x("sw"), x("sw"), x("sw"), x("sw"))
		g.line("%s := 0", x("si"))
		g.line("%s, %s[%s] = 2, 9", x("si"), x("sw"), x("si"))
		g.line("println(%s, %s, %s[0], %s[1], %s[2], %s)", x("sa"), x("sb"), x("sw"), x("sw"), x("sw"), x("si"))
	case 6:
		g.feat("switch_init")
		g.line("switch %s := %s; {", x("sv"), e("int"))
		g.line("case %s < 0:", x("sv"))
		g.line("\tprintln(\"neg\", %s)", x("sv"))
		g.line("case %s == 0:", x("sv"))
		g.line("\tprintln(\"zero\")")
		g.line("case %s > 100, %s == 7:", x("sv"), x("sv"))
		g.line("\tprintln(\"big or seven\", %s)", x("sv"))
		g.line("default:")
		g.line("\tprintln(\"other\", %s)", x("sv"))
		g.line("}")
	case 7:
		g.feat("type_switch_values")
		g.line("for _, %s := range []interface{}{%s, %s, %s, nil, []int{1}, %s} {", x("tv"), e("int"), e("string"), e("bool"), e("float64"))
		g.line("\tswitch %s := %s.(type) {", x("tw"), x("tv"))
		g.line("\tcase int, uint8:")
		g.line("\t\tprintln(\"integer\", %s != nil)", x("tw"))
		g.line("\tcase string:")
		g.line("\t\tprintln(\"string\", len(%s))", x("tw"))
		g.line("\tcase bool:")
		g.line("\t\tprintln(\"bool\", !%s)", x("tw"))
		g.line("\tcase nil:")
		g.line("\t\tprintln(\"nil\")")
		g.line("\tcase float64:")
		g.line("\t\tprintln(\"float\", %s < 0)", x("tw"))
		g.line("\tdefault:")
		g.line("\t\tprintln(\"other\")")
		g.line("\t}")
		g.line("}")
	case 8:
		g.feat("iota")
		g.line("const (")
		g.line("\t%s = iota * 2", x("ka"))
		g.line("\t%s", x("kb"))
		g.line("\t_")
		g.line("\t%s", x("kc"))
		g.line("\t%s = \"s\"", x("kd"))
		g.line("\t%s", x("ke"))
		g.line("\t%s = iota", x("kf"))
		g.line(")")
		g.line("println(%s, %s, %s, %s, %s, %s)", x("ka"), x("kb"), x("kc"), x("kd"), x("ke"), x("kf"))
	case 9:
		g.feat("string_conversions")
		g.line("%s := %s", x("cs"), e("string"))
		g.line("%s := []byte(%s)", x("cb"), x("cs"))
		g.line("%s := []rune(%s + \"é\")", x("cr"), x("cs"))
		g.line("%s = append(%s, 'z')", x("cb"), x("cb"))
		g.line("println(len(%s), len(%s), string(%s), string(%s[len(%s)-1]), string(rune(65+len(%s)%%26)))", x("cb"), x("cr"), x("cb"), x("cr"), x("cr"), x("cs"))
	case 10:
		g.feat("shadowing")
		g.line("%s := %s", x("sh"), e("int"))
		g.line("if %s := %s + 1; %s > 0 {", x("sh"), x("sh"), x("sh"))
		g.line("\t%s := %s * 2", x("sh"), x("sh"))
		g.line("\tprintln(\"inner\", %s)", x("sh"))
		g.line("} else {")
		g.line("\tprintln(\"else\", %s)", x("sh"))
		g.line("}")
		g.line("println(\"outer\", %s)", x("sh"))
	case 11:
		g.feat("goto")
		g.line("%s := 0", x("gi"))
		g.line("%s:", x("GL"))
		g.line("if %s < 3 {", x("gi"))
		g.line("\t%s++", x("gi"))
		g.line("\tgoto %s", x("GL"))
		g.line("}")
		g.line("println(\"goto\", %s)", x("gi"))
	case 12:
		g.feat("counter_closure")
		g.line("%s := func() func() int {", x("mk"))
		g.line("\tc := %s", e("int"))
		g.line("\treturn func() int {")
		g.line("\t\tc++")
		g.line("\t\treturn c")
		g.line("\t}")
		g.line("}")
		g.line("%s, %s := %s(), %s()", x("c1"), x("c2"), x("mk"), x("mk"))
		g.line("%s()", x("c1"))
		g.line("println(%s(), %s())", x("c1"), x("c2"))
	case 13:
		g.feat("map_ops")
		g.line("%s := map[string][]int{\"a\": {1}, \"b\": nil}", x("mp"))
		g.line("%s[\"a\"] = append(%s[\"a\"], %s)", x("mp"), x("mp"), e("int"))
		g.line("%s[\"c\"] = append(%s[\"c\"], 3)", x("mp"), x("mp"))
		g.line("delete(%s, \"b\")", x("mp"))
		g.line("%s, %s := %s[\"zz\"]", x("mv"), x("mo"), x("mp"))
		g.line("println(len(%s), len(%s[\"a\"]), %s[\"c\"][0], %s == nil, %s)", x("mp"), x("mp"), x("mp"), x("mv"), x("mo"))
	case 14:
		g.feat("multi_return")
		g.line("%s := func(a, b int) (q, r int, ok bool) {", x("dv"))
		g.line("\tif b == 0 {")
		g.line("\t\treturn")
		g.line("\t}")
		g.line("\treturn a / b, a %% b, true")
		g.line("}")
		g.line("%s, %s, %s := %s(%s, 3)", x("q"), x("r"), x("k"), x("dv"), e("int"))
		g.line("_, _, %s := %s(1, 0)", x("k2"), x("dv"))
		g.line("println(%s, %s, %s, %s)", x("q"), x("r"), x("k"), x("k2"))
	case 15:
		g.feat("integer_conversions")
		g.line("%s := %s", x("iv"), e("int"))
		g.line("println(int8(%s), uint8(%s), int16(%s), uint16(%s), int32(%s), uint32(%s), uint64(%s), float32(%s), int64(float64(%s)))", x("iv"), x("iv"), x("iv"), x("iv"), x("iv"), x("iv"), x("iv"), x("iv"), x("iv"))
	case 16:
		g.feat("nested_struct")
		g.line("type %s struct {", x("T"))
		g.line("\tIn struct{ X, Y int }")
		g.line("\tP  *int")
		g.line("\tL  []string")
		g.line("}")
		g.line("%s := %s", x("nv"), e("int"))
		g.line("%s := %s{P: &%s}", x("ns"), x("T"), x("nv"))
		g.line("%s.In.X = %s", x("ns"), e("int"))
		g.line("%s.In.Y += %s.In.X", x("ns"), x("ns"))
		g.line("*%s.P += 1", x("ns"))
		g.line("%s.L = append(%s.L, \"a\", %s)", x("ns"), x("ns"), e("string"))
		g.line("%s := %s", x("nc"), x("ns"))
		g.line("%s.In.X = -1", x("nc"))
		g.line("println(%s.In.X, %s.In.Y, %s, len(%s.L), %s.In.X, *%s.P)", x("ns"), x("ns"), x("nv"), x("ns"), x("nc"), x("nc"))
	case 17:
		g.feat("array_of_arrays")
		g.line("var %s [2][3]int", x("aa"))
		g.line("for i := 0; i < 2; i++ {")
		g.line("\tfor j := 0; j < 3; j++ {")
		g.line("\t\t%s[i][j] = i*3 + j + %s", x("aa"), e("int"))
		g.line("\t}")
		g.line("}")
		g.line("%s := %s[1]", x("ab"), x("aa"))
		g.line("%s[0] = 100", x("ab"))
		g.line("println(%s[1][0], %s[0], len(%s), len(%s[0]))", x("aa"), x("ab"), x("aa"), x("aa"))
	case 18:
		g.feat("func_slice")
		g.line("%s := []func(int) int{", x("fs"))
		g.line("\tfunc(a int) int { return a + 1 },")
		g.line("\tfunc(a int) int { return a * 2 },")
		g.line("}")
		g.line("%s := %s", x("fa"), e("int"))
		g.line("for _, f := range %s {", x("fs"))
		g.line("\t%s = f(%s)", x("fa"), x("fa"))
		g.line("}")
		g.line("println(%s)", x("fa"))
	case 19:
		g.feat("bool_logic")
		g.line("%s := func(s string, v bool) bool {", x("tr"))
		g.line("\tprintln(\"eval\", s)")
		g.line("\treturn v")
		g.line("}")
		g.line("%s := %s", x("bv"), e("bool"))
		g.line("println(%s(\"a\", %s) && %s(\"b\", true) || %s(\"c\", !%s))", x("tr"), x("bv"), x("tr"), x("tr"), x("bv"))
	case 20:
		g.feat("string_ops")
		g.line("%s := %s + \"héllo\"", x("so"), e("string"))
		g.line("println(%s[len(%s)-3:], len(%s), %s[0:1] < \"m\", %s+\"x\" == %s, %s[len(%s)-6])", x("so"), x("so"), x("so"), x("so"), x("so"), x("so"), x("so"), x("so"))
	case 21:
		g.feat("range_array_copy")
		g.line("%s := [3]int{1, %s, 3}", x("ra"), e("int"))
		g.line("for i, v := range %s {", x("ra"))
		g.line("\t%s[2] += 10", x("ra"))
		g.line("\tif i < 2 {")
		g.line("\t\t%s[i+1] = v * 2", x("ra"))
		g.line("\t}")
		g.line("\tprintln(i, v)")
		g.line("}")
		g.line("%s := %s[:]", x("rs"), x("ra"))
		g.line("for i, v := range %s {", x("rs"))
		g.line("\t%s[2]++", x("rs"))
		g.line("\tprintln(i, v)")
		g.line("}")
		g.line("println(%s[0], %s[1], %s[2])", x("ra"), x("ra"), x("ra"))
	case 22:
		g.feat("named_result_recover")
		g.line("%s := func(k int) (r string, n int) {", x("rr"))
		g.line("\ta, b := k+1, k+2")
		g.line("\tdefer func(x int) { n += x }(10)")
		g.line("\tdefer func() {")
		g.line("\t\tif e := recover(); e != nil {")
		g.line("\t\t\tr, n = \"got:\"+e.(string), a+b")
		g.line("\t\t}")
		g.line("\t}()")
		g.line("\tdefer func(s string) { r += s }(\"first\")")
		g.line("\tif k > 0 {")
		g.line("\t\tpanic(\"boom\")")
		g.line("\t}")
		g.line("\treturn \"fine\", k")
		g.line("}")
		g.line("%s, %s := %s(%s)", x("r1"), x("n1"), x("rr"), e("int"))
		g.line("println(%s, %s)", x("r1"), x("n1"))
	case 23:
		g.feat("named_result_recover_error")
		g.line("%s := func(i int) (v int, err error) {", x("re"))
		g.line("\tdefer func() {")
		g.line("\t\tif e := recover(); e != nil {")
		g.line("\t\t\terr = e.(error)")
		g.line("\t\t}")
		g.line("\t}()")
		g.line("\ts := []int{1, 2, 3}")
		g.line("\treturn s[i], nil")
		g.line("}")
		g.line("%s, %s := %s(%s)", x("v1"), x("e1"), x("re"), e("int"))
		g.line("println(%s, %s == nil)", x("v1"), x("e1"))
		g.line("if %s != nil {", x("e1"))
		g.line("\tprintln(%s.Error())", x("e1"))
		g.line("}")
	case 24:
		g.feat("named_result_interface")
		g.line("%s := func(k int) (n int, x interface{}, s string) {", x("ni"))
		g.line("\tfunc() {")
		g.line("\t\tx, n, s = k+5, 3, \"s\"")
		g.line("\t}()")
		g.line("\tdefer func() {")
		g.line("\t\tif k%%2 == 0 {")
		g.line("\t\t\tx = \"str\"")
		g.line("\t\t}")
		g.line("\t}()")
		g.line("\treturn")
		g.line("}")
		g.line("%s, %s, %s := %s(%s)", x("n2"), x("x2"), x("s2"), x("ni"), e("int"))
		g.line("switch v := %s.(type) {", x("x2"))
		g.line("case int:")
		g.line("\tprintln(\"int\", v, %s, %s)", x("n2"), x("s2"))
		g.line("case string:")
		g.line("\tprintln(\"string\", v, %s, %s)", x("n2"), x("s2"))
		g.line("default:")
		g.line("\tprintln(\"other\", %s == nil)", x("x2"))
		g.line("}")
	case 25:
		g.feat("multi_assign_interface")
		g.line("%s := func(a int) (int, string) { return a + 1, \"r\" }", x("mf"))
		g.line("var %s, %s interface{}", x("ia"), x("ib"))
		g.line("var %s bool", x("ok"))
		g.line("%s := map[string]int{\"a\": %s}", x("mm"), e("int"))
		g.line("%s, %s = %s, \"t\"", x("ia"), x("ib"), e("int"))
		g.line("println(%s.(int), %s.(string))", x("ia"), x("ib"))
		g.line("%s, %s = %s(%s)", x("ia"), x("ib"), x("mf"), e("int"))
		g.line("println(%s.(int), %s.(string))", x("ia"), x("ib"))
		g.line("%s, %s = %s[\"a\"]", x("ia"), x("ok"), x("mm"))
		g.line("%s, %s = %s[\"b\"]", x("ib"), x("ia"), x("mm"))
		g.line("println(%s.(bool), %s.(int), %s)", x("ia"), x("ib"), x("ok"))
		g.line("%s = %s", x("ib"), e("string"))
		g.line("%s, %s = %s.(string)", x("ia"), x("ok"), x("ib"))
		g.line("println(%s.(string), %s)", x("ia"), x("ok"))
		g.line("%s := []interface{}{nil, nil}", x("is"))
		g.line("%s[0], %s[1] = %s(2)", x("is"), x("is"), x("mf"))
		g.line("println(%s[0].(int), %s[1].(string))", x("is"), x("is"))
	case 26:
		g.feat("defined_types")
		g.line("type %s int", x("TI"))
		g.line("type %s string", x("TS"))
		g.line("type %s bool", x("TB"))
		g.line("var %s %s = %s(%s)", x("ti"), x("TI"), x("TI"), e("int"))
		g.line("var %s %s = %s(%s)", x("ts"), x("TS"), x("TS"), e("string"))
		g.line("%s := %s(%s > 3)", x("tb"), x("TB"), x("ti"))
		g.line("println(%s, %s+\"!\", %s, %s*2, !%s)", x("ti"), x("ts"), x("tb"), x("ti"), x("tb"))
		g.line("var %s interface{} = %s", x("tx"), x("ti"))
		g.line("_, %s := %s.(int)", x("o1"), x("tx"))
		g.line("%s, %s := %s.(%s)", x("t2"), x("o2"), x("tx"), x("TI"))
		g.line("println(%s, %s, %s, int(%s)+1, string(%s))", x("o1"), x("t2"), x("o2"), x("ti"), x("ts"))
	case 27:
		g.feat("comma_ok_targets")
		g.line("%s := map[string]int{\"a\": %s}", x("cm"), e("int"))
		g.line("%s := []bool{false, false}", x("cb"))
		g.line("%s := map[string]bool{}", x("cg"))
		g.line("var %s int", x("cv"))
		g.line("%s, %s[1] = %s[\"a\"]", x("cv"), x("cb"), x("cm"))
		g.line("%s, %s[\"k\"] = %s[\"a\"]", x("cv"), x("cg"), x("cm"))
		g.line("%s := &%s[0]", x("cp"), x("cb"))
		g.line("_, *%s = %s[\"a\"]", x("cp"), x("cm"))
		g.line("println(%s, %s[0], %s[1], %s[\"k\"])", x("cv"), x("cb"), x("cb"), x("cg"))
	case 28:
		g.feat("pointer_to_array")
		g.line("%s := [3]int{1, %s, 3}", x("pa"), e("int"))
		g.line("%s := &%s", x("pp"), x("pa"))
		g.line("%s[1]++", x("pp"))
		g.line("(*%s)[2] += %s[0]", x("pp"), x("pp"))
		g.line("%s := %s[1:]", x("ps"), x("pp"))
		g.line("%s[1] *= 2", x("ps"))
		g.line("%s := &%s[0]", x("pq"), x("pp"))
		g.line("*%s = len(%s) + cap(%s)", x("pq"), x("pp"), x("ps"))
		g.line("for i := range %s {", x("pp"))
		g.line("\t%s[i] += i", x("pp"))
		g.line("}")
		g.line("%s := *%s", x("pc"), x("pp"))
		g.line("%s[0] = -1", x("pc"))
		g.line("println(%s[0], %s[1], %s[2], %s[0])", x("pa"), x("pa"), x("pa"), x("pc"))
	case 29:
		g.feat("captured_pointer")
		g.line("%s := %s", x("cn"), e("int"))
		g.line("%s := &%s", x("cq"), x("cn"))
		g.line("%s := [2]int{1, 2}", x("ca"))
		g.line("%s := &%s", x("cr"), x("ca"))
		g.line("%s := 0", x("ci"))
		g.line("func() { %s, %s, %s = %s, %s, %s }()", x("cq"), x("cr"), x("ci"), x("cq"), x("cr"), x("ci"))
		g.line("%s := *%s", x("cx"), x("cq"))
		g.line("*%s += 2", x("cq"))
		g.line("%s, %s[%s] = 1, 7", x("ci"), x("cr"), x("ci"))
		g.line("%s, *%s = 0, *%s*2", x("ci"), x("cq"), x("cq"))
		g.line("%s := *%s", x("cy"), x("cr"))
		g.line("%s[1] = 9", x("cy"))
		g.line("println(%s, %s, %s[0], %s[1], %s[1], %s)", x("cx"), x("cn"), x("ca"), x("ca"), x("cy"), x("ci"))
	case 30:
		g.feat("nil_array_pointer")
		g.line("var %s *[3]int", x("np"))
		g.line("for i := range %s {", x("np"))
		g.line("\tprint(i)")
		g.line("}")
		g.line("println(len(%s), cap(%s))", x("np"), x("np"))
	case 31:
		g.feat("aggregate_argument_copy")
		if !g.structs {
			g.stmtPrint()
			return
		}
		g.line("%s := []S0{{A: %s, B: \"a\"}, {A: 2, B: \"b\"}}", x("as"), e("int"))
		g.line("%s := struct {", x("aw"))
		g.line("\tIn  S0")
		g.line("\tArr [2]int")
		g.line("}{S0{A: 5}, [2]int{6, 7}}")
		g.line("%s := &%s", x("ap"), x("aw"))
		g.line("%s := func(s S0, a [2]int) int {", x("af"))
		g.line("\ts.A += 100")
		g.line("\ta[0] += 100")
		g.line("\treturn s.A + a[0]")
		g.line("}")
		g.line("println(%s(%s[1], %s.Arr), %s(%s.In, %s.Arr), %s(*(&%s[0]), (*%s).Arr))", x("af"), x("as"), x("aw"), x("af"), x("ap"), x("ap"), x("af"), x("as"), x("ap"))
		g.line("defer func(s S0) { println(\"deferred\", s.A) }(%s[0])", x("as"))
		g.line("%s[0].A++", x("as"))
		g.line("println(%s[0].A, %s[1].A, %s.In.A, %s.Arr[0])", x("as"), x("as"), x("aw"), x("aw"))
	case 32:
		g.feat("range_value_copy")
		if !g.structs {
			g.stmtPrint()
			return
		}
		g.line("%s := []S0{{A: %s}, {A: 2}}", x("rv"), e("int"))
		g.line("for _, v := range %s {", x("rv"))
		g.line("\tv.A *= 10")
		g.line("\tv.B += \"!\"")
		g.line("}")
		g.line("%s := [][2]int{{1, 2}, {3, 4}}", x("rw"))
		g.line("for _, v := range %s {", x("rw"))
		g.line("\tv[0] = 100")
		g.line("}")
		g.line("%s := map[string]S0{\"k\": {A: 7}}", x("rm"))
		g.line("for _, v := range %s {", x("rm"))
		g.line("\tv.A++")
		g.line("\tprintln(v.A)")
		g.line("}")
		g.line("%s := make(chan S0, 1)", x("rc"))
		g.line("%s <- %s[0]", x("rc"), x("rv"))
		g.line("close(%s)", x("rc"))
		g.line("for v := range %s {", x("rc"))
		g.line("\tv.A = -v.A")
		g.line("\tprintln(v.A)")
		g.line("}")
		g.line("println(%s[0].A, %s[0].B, %s[1].A, %s[0][0], %s[\"k\"].A)", x("rv"), x("rv"), x("rv"), x("rw"), x("rm"))
	case 33:
		g.feat("func_value_defined_type")
		if !g.structs {
			g.stmtPrint()
			return
		}
		g.line("%s := []func(S0) S0{func(s S0) S0 { s.A++; return s }}", x("fd"))
		g.line("%s := map[string]func(S0) int{\"a\": func(s S0) int { return s.A * 2 }}", x("fm"))
		g.line("%s := S0{A: %s}", x("fv"), e("int"))
		g.line("var %s interface{} = %s[0]", x("fi"), x("fd"))
		g.line("println(%s[0](%s).A, %s[\"a\"](%s), %s.(func(S0) S0)(%s).A, %s.A)", x("fd"), x("fv"), x("fm"), x("fv"), x("fi"), x("fv"), x("fv"))
	case 34:
		g.feat("append_funcs_and_nils")
		g.line("var %s []func() int", x("af"))
		g.line("for i := 0; i < 3; i++ {")
		g.line("\tj := i * %s", e("int"))
		g.line("\t%s = append(%s, func() int { return j })", x("af"), x("af"))
		g.line("}")
		g.line("%s = append(%s, nil)", x("af"), x("af"))
		g.line("var %s []error", x("ae"))
		g.line("%s = append(%s, nil, nil)", x("ae"), x("ae"))
		g.line("var %s []*int", x("an"))
		g.line("%s = append(%s, nil)", x("an"), x("an"))
		g.line("println(%s[1](), %s[2](), %s[3] == nil, %s[0] != nil, len(%s), %s[1] == nil, %s[0] == nil)", x("af"), x("af"), x("af"), x("af"), x("ae"), x("ae"), x("an"))
	case 35:
		g.feat("nil_func")
		g.line("var %s func(int) int", x("nf"))
		g.line("%s := map[string]func(int) int{\"n\": nil, \"f\": func(a int) int { return a + %s }}", x("nm"), e("int"))
		g.line("println(%s == nil, %s[\"n\"] == nil, %s[\"f\"] == nil, %s[\"zz\"] == nil)", x("nf"), x("nm"), x("nm"), x("nm"))
		g.line("%s = %s[\"f\"]", x("nf"), x("nm"))
		g.line("if %s != nil {", x("nf"))
		g.line("\tprintln(%s(1))", x("nf"))
		g.line("}")
		g.line("%s = nil", x("nf"))
		g.line("println(%s == nil)", x("nf"))
	case 36:
		g.feat("range_key_kinds")
		g.line("%s, %s, %s := \"a\", 1.5, []int{1}", x("ks"), x("kf"), x("kg"))
		g.line("for k := range map[string]int{\"x\": 1} {")
		g.line("\tprintln(k)")
		g.line("}")
		g.line("for k := range map[float64]bool{2.5: true} {")
		g.line("\tprintln(k)")
		g.line("}")
		g.line("for k, v := range map[[2]int]string{{1, 2}: %s} {", e("string"))
		g.line("\tprintln(k[0], k[1], v)")
		g.line("}")
		g.line("%s := make(chan [2]string, 1)", x("kc"))
		g.line("%s <- [2]string{\"p\", \"q\"}", x("kc"))
		g.line("close(%s)", x("kc"))
		g.line("for v := range %s {", x("kc"))
		g.line("\tprintln(v[0], v[1])")
		g.line("}")
		g.line("println(%s, %s, len(%s))", x("ks"), x("kf"), x("kg"))
	case 37:
		g.feat("func_value_panic_recover")
		g.line("%s := []func(int) int{func(a int) int {", x("pf"))
		g.line("\tif a > 1 {")
		g.line("\t\tpanic(\"too big\")")
		g.line("\t}")
		g.line("\treturn a")
		g.line("}}")
		g.line("func() {")
		g.line("\tdefer func() { println(\"recovered:\", recover().(string)) }()")
		g.line("\tprintln(%s[0](1))", x("pf"))
		g.line("\tprintln(%s[0](2))", x("pf"))
		g.line("}()")
	case 38:
		g.feat("variadic_captured")
		g.line("%s := func(xs ...int) func() int {", x("vc"))
		g.line("\treturn func() int { xs[0]++; return len(xs) + xs[0] }")
		g.line("}")
		g.line("%s := func(fs ...func(int) int) func(int) int {", x("vk"))
		g.line("\treturn func(v int) int {")
		g.line("\t\tfor i := len(fs) - 1; i >= 0; i-- {")
		g.line("\t\t\tv = fs[i](v)")
		g.line("\t\t}")
		g.line("\t\treturn v")
		g.line("\t}")
		g.line("}")
		g.line("%s := []int{%s, 6}", x("vs"), e("int"))
		g.line("%s := %s(%s...)", x("vg"), x("vc"), x("vs"))
		g.line("println(%s(1, 2, 3)(), %s(), %s[0], %s(func(a int) int { return a + 1 }, func(a int) int { return a * 2 })(5), %s()(7))", x("vc"), x("vg"), x("vs"), x("vk"), x("vk"))
	case 39:
		g.feat("typed_const_division")
		g.line("const %s float64 = 1", x("tc"))
		g.line("var %s = %s", x("tv"), e("int"))
		g.line("println(float64(1)/3, %s/3, float64(7)/2, 1/float64(4), float64(%s)/2, complex128(1)/4, float32(1)/3)", x("tc"), x("tv"))
	case 40:
		g.feat("defined_types_in_interfaces")
		g.line("type %s struct{ msg string }", x("DE"))
		g.line("type %s int", x("DI"))
		g.line("type %s []int", x("DL"))
		g.line("%s := map[interface{}]int{%s(1): 1, %s{\"k\"}: 2, 1: 3}", x("dm"), x("DI"), x("DE"))
		g.line("%s[%s{\"k\"}] += 10", x("dm"), x("DE"))
		g.line("%s[%s(%s)]++", x("dm"), x("DI"), e("int"))
		g.line("var %s interface{} = %s{\"a\"}", x("di"), x("DE"))
		g.line("%s := %s.(%s)", x("dy"), x("di"), x("DE"))
		g.line("%s.msg = \"z\"", x("dy"))
		g.line("var %s, %s interface{} = %s{1}, %s{1}", x("du"), x("dw"), x("DL"), x("DL"))
		g.line("func() {")
		g.line("\tdefer func() { println(recover() != nil) }()")
		g.line("\tprintln(%s == %s)", x("du"), x("dw"))
		g.line("}()")
		g.line("println(%s[%s{\"k\"}], %s[%s(1)] > 0, %s[1], len(%s) <= 4, %s.(%s).msg, %s.msg, %s == interface{}(%s{\"a\"}))", x("dm"), x("DE"), x("dm"), x("DI"), x("dm"), x("dm"), x("di"), x("DE"), x("dy"), x("di"), x("DE"))
	case 41:
		g.feat("loop_var_shadow")
		g.line("var %s []func() int", x("lf"))
		g.line("for i := 0; i < 3; i++ {")
		g.line("\ti := i + %s*0", e("int"))
		g.line("\t%s = append(%s, func() int { return i })", x("lf"), x("lf"))
		g.line("}")
		g.line("%s := 0", x("ln"))
		g.line("for i := 0; ; i++ {")
		g.line("\tif i%%2 == 0 {")
		g.line("\t\tcontinue")
		g.line("\t}")
		g.line("\t%s += i", x("ln"))
		g.line("\tif i > 6 {")
		g.line("\t\tbreak")
		g.line("\t}")
		g.line("}")
		g.line("println(%s[0](), %s[1](), %s[2](), %s)", x("lf"), x("lf"), x("lf"), x("ln"))
	case 42:
		g.feat("nonlocal_nested_assign")
		if !g.structs {
			g.stmtPrint()
			return
		}
		g.line("gW.In.A += %s", e("int"))
		g.line("gW.Arr[1].B += \"w\"")
		g.line("gArr[0].A++")
		g.line("gArr[1] = S0{A: gArr[0].A, B: \"e\"}")
		g.line("%s := &gW.In", x("wp"))
		g.line("%s.B += \"p\"", x("wp"))
		g.line("%s := gW.Arr[:]", x("ws"))
		g.line("%s[0].A += 2", x("ws"))
		g.line("%s := &gArr[1]", x("wq"))
		g.line("%s.A *= 3", x("wq"))
		g.line("%s := gW", x("wc"))
		g.line("%s.In.A = -1", x("wc"))
		g.line("println(gW.In.A, gW.In.B, gW.Arr[0].A, gW.Arr[1].B, gArr[0].A, gArr[1].A, gArr[1].B, %s.In.A)", x("wc"))
	case 43:
		g.feat("captured_nested_assign")
		if !g.structs {
			g.stmtPrint()
			return
		}
		g.line("%s := struct {", x("cw"))
		g.line("\tIn  S0")
		g.line("\tArr [2]S0")
		g.line("}{}")
		g.line("%s := [2]S0{}", x("ca"))
		g.line("%s := &%s", x("cpa"), x("ca"))
		g.line("func() {")
		g.line("\t%s.In.A = %s", x("cw"), e("int"))
		g.line("\t%s.Arr[1].B = \"c\"", x("cw"))
		g.line("\t%s[0].A += 4", x("ca"))
		g.line("\t%s := &%s.In", x("cq"), x("cw"))
		g.line("\t%s.B = \"q\"", x("cq"))
		g.line("\t%s := %s.Arr[:]", x("cs"), x("cw"))
		g.line("\t%s[0].A = 6", x("cs"))
		g.line("}()")
		g.line("%s[1].A = 7", x("cpa"))
		g.line("println(%s.In.A, %s.In.B, %s.Arr[1].B, %s.Arr[0].A, %s[0].A, %s[1].A)", x("cw"), x("cw"), x("cw"), x("cw"), x("ca"), x("ca"))
	case 44:
		g.feat("return_call_interface_results")
		g.line("%s := func() (int, float64, string) { return %s, 2.5, \"s\" }", x("rt"), e("int"))
		g.line("%s := func() (interface{}, float64, interface{}) { return %s() }", x("rm"), x("rt"))
		g.line("%s := func() (a, b, c interface{}) { return %s() }", x("ra"), x("rt"))
		g.line("%s := func(vs ...interface{}) int { return len(vs) }", x("rv"))
		g.line("%s, %s, %s := %s()", x("r1"), x("r2"), x("r3"), x("rm"))
		g.line("%s, %s, %s := %s()", x("r4"), x("r5"), x("r6"), x("ra"))
		g.line("println(%s.(int), %s, %s.(string), %s.(int), %s.(float64), %s.(string), %s(%s()))", x("r1"), x("r2"), x("r3"), x("r4"), x("r5"), x("r6"), x("rv"), x("rt"))
	case 45:
		g.feat("captured_func_defer_result")
		g.line("%s := func(a string, b float64) float32 {", x("df"))
		g.line("\tdefer println(\"deferred\", func() int64 { return 100 }() < 5, uint8(1))")
		g.line("\treturn float32(b) / 2")
		g.line("}")
		g.line("%s := func() int8 {", x("dg"))
		g.line("\tdefer println(\"deferred\", uint8(%s&0x7f))", e("int"))
		g.line("\treturn int8(0)")
		g.line("}")
		g.line("func() {")
		g.line("\tdefer func() {}()")
		g.line("\t%s := 3", x("dv"))
		g.line("\tprintln(%s(\"h\", 1.5), %s(), %s)", x("df"), x("dg"), x("dv"))
		g.line("}()")
	case 46:
		g.feat("recover_go_value_panic_named_results")
		g.line("%s := map[string]func(string) string{", x("hm"))
		g.line("\t\"ok\":   func(s string) string { return \"ok \" + s },")
		g.line("\t\"boom\": func(s string) string { panic(\"boom \" + s) },")
		g.line("}")
		g.line("%s := func(path, arg string) (res string, ok bool) {", x("hs"))
		g.line("\tdefer func() {")
		g.line("\t\tif r := recover(); r != nil {")
		g.line("\t\t\tres, ok = \"error: \"+r.(string), false")
		g.line("\t\t}")
		g.line("\t}()")
		g.line("\th, found := %s[path]", x("hm"))
		g.line("\tif !found {")
		g.line("\t\tpanic(\"no route \" + path)")
		g.line("\t}")
		g.line("\treturn h(arg), true")
		g.line("}")
		g.line("println(%s(\"ok\", %s))", x("hs"), e("string"))
		g.line("println(%s(\"boom\", \"x\"))", x("hs"))
		g.line("println(%s(\"none\", \"y\"))", x("hs"))
	case 47, 48, 49:
		// a value converted between two integer types, then observed through every kind of use:
		// printed, shifted, compared, widened again, in bitwise and arithmetic operations
		g.feat("conv_matrix")
		from := g.oneOf("cmfrom", intTypes)
		to := g.oneOf("cmto", intTypes)
		seed := g.oneOf("cmseed", []string{"-3", "-300", "200", "70000", "-1", "127", "-128", "65535", "-2147483648", "4294967295"})
		g.line("var %s int64 = %s + int64(%s)*0", x("cs"), seed, e("int"))
		g.line("%s := %s(%s)", x("cx"), from, x("cs"))
		g.line("%s := %s(%s)", x("cy"), to, x("cx"))
		g.line("println(%s, %s>>1, %s<<3, %s == %s(%s), %s > 100, uint64(%s), int64(%s), int(%s), uint32(%s), int16(%s))", x("cy"), x("cy"), x("cy"), x("cy"), to, x("cx"), x("cy"), x("cy"), x("cy"), x("cy"), x("cy"), x("cy"))
		g.line("println(%s^1, %s&0x7f, %s|1, ^%s, -%s, %s/3, %s%%7, %s*3, %s+1, %s-1, float64(%s))", x("cy"), x("cy"), x("cy"), x("cy"), x("cy"), x("cy"), x("cy"), x("cy"), x("cy"), x("cy"), x("cy"))
		g.line("%s := []%s{%s}", x("cl"), to, x("cy"))
		g.line("var %s interface{} = %s", x("ci"), x("cy"))
		g.line("println(%s[0] == %s, %s.(%s) == %s, %s[0]>>2, map[%s]int{%s: 1}[%s(%s)])", x("cl"), x("cy"), x("ci"), to, x("cy"), x("cl"), to, x("cy"), to, x("cx"))
	case 50, 51, 52, 53:
		// one assignment form on one kind of target, for a value of one type: the state of every
		// holder that could alias the target is printed afterwards
		g.feat("assign_matrix")
		if !g.structs {
			g.stmtPrint()
			return
		}
		typ := g.oneOf("amtyp", []string{"int", "string", "float64", "S0", "[2]int", "interface{}"})
		val := map[string][2]string{
			"int":         {e("int"), "7"},
			"string":      {e("string"), "\"k\""},
			"float64":     {e("float64"), "2.5"},
			"S0":          {"S0{A: " + e("int") + ", B: \"v\"}", "S0{A: 9}"},
			"[2]int":      {"[2]int{" + e("int") + ", 2}", "[2]int{8, 8}"},
			"interface{}": {"interface{}(" + e("int") + ")", "interface{}(\"i\")"},
		}[typ]
		show := func(v string) string {
			switch typ {
			case "S0":
				return v + ".A, " + v + ".B"
			case "[2]int":
				return v + "[0], " + v + "[1]"
			case "interface{}":
				return v + " == nil"
			}
			return v
		}
		g.line("type %s struct {", x("AH"))
		g.line("\tF   %s", typ)
		g.line("\tArr [2]%s", typ)
		g.line("\tSl  []%s", typ)
		g.line("}")
		g.line("var %s %s", x("al"), typ)
		g.line("%s := %s{Sl: make([]%s, 2)}", x("ah"), x("AH"), typ)
		g.line("%s := []%s{{Sl: make([]%s, 2)}, {Sl: make([]%s, 2)}}", x("as"), x("AH"), typ, typ)
		g.line("%s := map[string]%s{}", x("am"), typ)
		g.line("%s := &%s", x("ap"), x("ah"))
		g.line("%s := &%s.Arr", x("aq"), x("ah"))
		g.line("%s := %s", x("ac"), x("ah"))
		g.line("_, _ = %s, %s", x("ap"), x("aq"))
		target := g.oneOf("amtarget", []string{x("al"), x("ah") + ".F", x("ah") + ".Arr[1]", x("ah") + ".Sl[1]", x("as") + "[1].F", x("as") + "[0].Arr[1]", x("as") + "[1].Sl[0]", x("am") + "[\"k\"]", x("ap") + ".F", x("ap") + ".Arr[0]", "(*" + x("ap") + ").Sl[0]", x("aq") + "[1]", "(*" + x("aq") + ")[0]"})
		viaClosure := g.chance("amclosure", 3)
		ind := ""
		if viaClosure {
			g.line("func() {")
			ind = "\t"
		}
		switch g.pick("amop", 4) {
		case 0:
			g.line("%s%s = %s", ind, target, val[0])
		case 1:
			g.line("%s%s = %s", ind, target, val[1])
			g.line("%s%s = %s", ind, target, val[0])
		case 2:
			g.line("%s%s, %s = %s, %s", ind, x("al"), target, val[1], val[0])
		default:
			if typ == "int" || typ == "float64" || typ == "string" {
				g.line("%s%s = %s", ind, target, val[1])
				g.line("%s%s += %s", ind, target, val[0])
			} else {
				g.line("%stmp := %s", ind, val[0])
				g.line("%s%s = tmp", ind, target)
			}
		}
		if viaClosure {
			g.line("}()")
		}
		g.line("println(%s, %s, %s, %s)", show(x("al")), show(x("ah")+".F"), show(x("ah")+".Arr[0]"), show(x("ah")+".Arr[1]"))
		g.line("println(%s, %s, %s, %s)", show(x("ah")+".Sl[0]"), show(x("ah")+".Sl[1]"), show(x("as")+"[1].F"), show(x("as")+"[0].Arr[1]"))
		g.line("println(%s, %s, %s, %s, len(%s))", show(x("as")+"[1].Sl[0]"), show(x("am")+"[\"k\"]"), show(x("ac")+".F"), show(x("ac")+".Arr[1]"), x("am"))
		g.line("println(%s, %s)", show(x("ac")+".Sl[1]"), show(x("ac")+".Arr[0]"))
	case 56, 57, 58, 59:
		// one kind of run-time fault in one expression position, recovered by the enclosing
		// function literal: what is printed before the fault, the recovered message and the
		// statements after it must be those of gc
		g.feat("fault_matrix")
		g.line("%s := []int{1, 2, 3}", x("zs"))
		g.line("%s, %s := 5, 0", x("zi"), x("zz"))
		g.line("var %s *int", x("zp"))
		g.line("var %s interface{} = \"str\"", x("zx"))
		g.line("var %s func() int", x("zf"))
		g.line("%s := make(chan int, 4)", x("zc"))
		g.line("%s := func(a int) { println(\"called\", a) }", x("zv"))
		g.line("_, _, _, _, _, _, _ = %s, %s, %s, %s, %s, %s, %s", x("zs"), x("zi"), x("zz"), x("zp"), x("zx"), x("zf"), x("zc"))
		g.line("_ = %s", x("zv"))
		fault := g.oneOf("fmfault", []string{
			x("zs") + "[" + x("zi") + "]", "10 / " + x("zz"), "*" + x("zp"), x("zx") + ".(int)", "len(" + x("zs") + "[2:" + x("zi") + "])",
			"func() int { panic(\"explicit\") }()", x("zf") + "()", "10 % " + x("zz"), "len(make([]int, " + x("zz") + "-1))", "[3]int{}[" + x("zi") + "-" + x("zi") + "+" + x("zi") + "%4+2]",
			"func() int { panic(fmt" + x("zi") + ") }()",
		})
		if strings.Contains(fault, "panic(fmt") {
			fault = "func() int { panic(" + x("zi") + " * 2) }()"
		}
		pos := g.oneOf("fmpos", []string{
			"println(\"value\", %s)", "x := %s; println(\"after\", x)", "if %s > 0 { println(\"then\") }", "for i := 0; i < %s; i++ { println(\"loop\") }", "switch %s { case 1: println(\"one\") }",
			x("zs") + "[%s] = 1", "_ = " + x("zs") + "[%s]", x("zv") + "(%s)", "defer " + x("zv") + "(%s)", "_ = []int{1, %s}", "_ = map[int]int{%s: 1}", "_ = S0{A: %s}", x("zc") + " <- %s",
			"x, y := %s, 1; println(x, y)", "x := 1; x += %s; println(x)", x("zs") + " = append(" + x("zs") + ", %s)", "for range make([]int, %s&3) { println(\"r\") }", "select { case " + x("zc") + " <- %s: println(\"sent\"); default: println(\"default\") }",
			"println(func() int { return %s }())", "defer func() { println(\"in deferred\"); _ = %s }()", "defer println(\"deferred arg\", %s)", "func() { defer func() { println(\"inner\", recover() != nil) }(); _ = %s }(); println(\"after inner\")",
			"var i interface{} = %s; println(i != nil)", "println(\"first\"); println(%s); println(\"unreachable\")", "x := []func() int{func() int { return %s }}; println(x[0]())",
		})
		g.line("func() {")
		g.line("\tdefer func() {")
		g.line("\t\tswitch r := recover().(type) {")
		g.line("\t\tcase nil:")
		g.line("\t\t\tprintln(\"no panic\")")
		g.line("\t\tcase error:")
		g.line("\t\t\tprintln(\"recovered error:\", r.Error())")
		g.line("\t\tcase string:")
		g.line("\t\t\tprintln(\"recovered string:\", r)")
		g.line("\t\tcase int:")
		g.line("\t\t\tprintln(\"recovered int:\", r)")
		g.line("\t\t}")
		g.line("\t}()")
		g.line("\tprintln(\"before\")")
		g.line("\t%s", strings.ReplaceAll(pos, "%s", fault))
		g.line("\tprintln(\"end of function\")")
		g.line("}()")
		g.line("println(len(%s), len(%s))", x("zs"), x("zc"))
	case 60, 61, 62:
		// a range statement over one kind of container with one element type and one form of the
		// iteration variables; the body assigns the element variable and the container
		g.feat("range_matrix")
		if !g.structs {
			g.stmtPrint()
			return
		}
		// (in a block of its own: the iteration variables have plain names)
		g.line("{")
		defer g.line("}")
		et := g.oneOf("rmelem", []string{"int", "string", "S0", "[2]int", "interface{}", "float64"})
		lit := map[string][3]string{
			"int":         {e("int"), "2", "3"},
			"string":      {e("string"), "\"b\"", "\"c\""},
			"S0":          {"S0{A: " + e("int") + "}", "S0{A: 2, B: \"b\"}", "S0{A: 3}"},
			"[2]int":      {"[2]int{" + e("int") + ", 1}", "[2]int{2, 2}", "[2]int{3, 3}"},
			"interface{}": {"interface{}(" + e("int") + ")", "interface{}(\"b\")", "interface{}(nil)"},
			"float64":     {e("float64"), "2.5", "3.5"},
		}[et]
		show := func(v string) string {
			switch et {
			case "S0":
				return v + ".A, " + v + ".B"
			case "[2]int":
				return v + "[0], " + v + "[1]"
			case "interface{}":
				return v + " == nil"
			}
			return v
		}
		mod := map[string]string{"int": "v++", "string": "v += \"!\"", "S0": "v.A += 100", "[2]int": "v[1] = 100", "interface{}": "v = 0", "float64": "v *= 2"}[et]
		kind := g.oneOf("rmkind", []string{"slice", "array", "arrayptr", "map", "chan"})
		cv := x("rc")
		switch kind {
		case "slice":
			g.line("%s := []%s{%s, %s, %s}", cv, et, lit[0], lit[1], lit[2])
		case "array":
			g.line("%s := [3]%s{%s, %s, %s}", cv, et, lit[0], lit[1], lit[2])
		case "arrayptr":
			g.line("%s := [3]%s{%s, %s, %s}", x("rb"), et, lit[0], lit[1], lit[2])
			g.line("%s := &%s", cv, x("rb"))
		case "map":
			g.line("%s := map[int]%s{7: %s}", cv, et, lit[0])
		case "chan":
			g.line("%s := make(chan %s, 3)", cv, et)
			g.line("%s <- %s", cv, lit[0])
			g.line("%s <- %s", cv, lit[1])
			g.line("close(%s)", cv)
		}
		set := ""
		switch kind {
		case "slice", "array", "arrayptr":
			set = cv + "[2] = " + lit[1]
		case "map":
			set = cv + "[7] = " + lit[2]
		}
		form := g.pick("rmform", 4)
		if kind == "chan" {
			switch form {
			case 0, 1:
				g.line("for v := range %s {", cv)
			case 2:
				g.line("var v %s", et)
				g.line("for v = range %s {", cv)
			default:
				g.line("n%s := 0", cv)
				g.line("for range %s {", cv)
				g.line("\tn%s++", cv)
				g.line("}")
				g.line("println(n%s)", cv)
				return
			}
			g.line("\t%s", mod)
			g.line("\tprintln(%s)", show("v"))
			g.line("}")
			g.line("println(len(%s))", cv)
			return
		}
		switch form {
		case 0:
			g.line("for k, v := range %s {", cv)
		case 1:
			g.line("for _, v := range %s {", cv)
		case 2:
			g.line("var k int")
			g.line("var v %s", et)
			g.line("for k, v = range %s {", cv)
		default:
			g.line("for k := range %s {", cv)
			if set != "" {
				g.line("\t%s", set)
			}
			g.line("\tprintln(k)")
			g.line("}")
			g.line("println(len(%s))", cv)
			return
		}
		if set != "" {
			g.line("\t%s", set)
		}
		g.line("\t%s", mod)
		if form == 1 {
			g.line("\tprintln(%s)", show("v"))
		} else {
			g.line("\tprintln(k, %s)", show("v"))
		}
		g.line("}")
		idx := "[0]"
		if kind == "map" {
			idx = "[7]"
		}
		g.line("println(%s, len(%s))", show(cv+idx), cv)
		if form == 2 {
			g.line("println(k, %s)", show("v"))
		}
	case 63, 64:
		// evaluation order made visible by a tracing function: operands of assignments, composite
		// literals, calls, binary operators, the tag and the case expressions of a switch
		g.feat("evaluation_order")
		g.line("%s := \"\"", x("et"))
		g.line("%s := func(s string, v int) int { %s += s; return v }", x("ef"), x("et"))
		g.line("%s := []int{0, 0, 0}", x("ea"))
		g.line("%s := 0", x("ei"))
		g.line("%s[%s(\"i\", %s)], %s = %s(\"x\", 7), %s(\"y\", 2)", x("ea"), x("ef"), x("ei"), x("ei"), x("ef"), x("ef"))
		g.line("%s := map[string]int{}", x("em"))
		g.line("%s[string(rune('a'+%s(\"k\", 1)))] += %s(\"v\", 5)", x("em"), x("ef"), x("ef"))
		g.line("_ = []int{%s(\"a\", 1), %s(\"b\", 2)}", x("ef"), x("ef"))
		g.line("_ = %s(\"L\", 1) + %s(\"M\", 2)*%s(\"N\", 3)", x("ef"), x("ef"), x("ef"))
		g.line("if %s(\"c1\", 0) > 0 && %s(\"c2\", 1) > 0 || %s(\"c3\", 1) > 0 {", x("ef"), x("ef"), x("ef"))
		g.line("\t%s += \"|\"", x("et"))
		g.line("}")
		g.line("switch %s(\"sw\", %s&3) {", x("ef"), e("int"))
		g.line("case %s(\"A\", 1), %s(\"B\", 2):", x("ef"), x("ef"))
		g.line("\t%s += \"!\"", x("et"))
		g.line("case %s(\"C\", 3):", x("ef"))
		g.line("\t%s += \"?\"", x("et"))
		g.line("}")
		g.line("println(%s, %s[0], %s, %s[\"b\"])", x("et"), x("ea"), x("ei"), x("em"))
	default:
		g.feat("float_ops")
		g.line("%s, %s := %s, %s", x("fx"), x("fy"), e("float64"), e("float64"))
		g.line("println(%s+%s, %s*%s, %s-%s, %s < %s, -%s, float32(%s)*2)", x("fx"), x("fy"), x("fx"), x("fy"), x("fx"), x("fy"), x("fx"), x("fy"), x("fx"), x("fy"))
	}
}

// Package goprog generates random, well-typed, terminating Go programs in the
// subset Scriggo implements. Programs are typed by construction: every
// expression is generated for a requested type from an environment of typed
// variables and functions. Output goes through print/println of basic values
// only, so that it does not depend on addresses, map order or scheduling.
package goprog

import (
	"fmt"
	"strings"

	"pgregory.net/rapid"
)

// Off lists feature switches that are turned off (known findings).
type Off map[string]bool

// Prog is a generated program.
type Prog struct {
	Src      string   `json:"src"`
	Features []string `json:"features"`
}

var intTypes = []string{"int", "int8", "int16", "int32", "int64", "uint", "uint8", "uint16", "uint32", "uint64"}
var numTypes = append(append([]string{}, intTypes...), "float64", "float32")
var scalarTypes = append(append([]string{}, numTypes...), "string", "bool")

func isInt(t string) bool {
	for _, x := range intTypes {
		if x == t {
			return true
		}
	}
	return false
}
func isUnsigned(t string) bool { return strings.HasPrefix(t, "uint") }
func isFloat(t string) bool    { return t == "float64" || t == "float32" }
func isNum(t string) bool      { return isInt(t) || isFloat(t) }

var bits = map[string]int{"int": 64, "int8": 8, "int16": 16, "int32": 32, "int64": 64, "uint": 64, "uint8": 8, "uint16": 16, "uint32": 32, "uint64": 64}

type variable struct {
	name string
	typ  string
	ro   bool // loop counter: never assigned by generated statements (termination)
}

type function struct {
	name    string
	params  []string
	results []string
	// recovers: the body recovers a panic, directly or through a helper it calls. With the
	// recover.in_range switch off such helpers are not called from the body of a range loop.
	recovers bool
}

type gen struct {
	t          *rapid.T
	off        Off
	sb         strings.Builder
	indent     int
	scopes     [][]variable
	funcs      []function
	nvar       int
	features   map[string]bool
	loopDepth  int
	rangeDepth int
	noFault    bool // package-level initialisers must not panic: every program of a gc batch shares one process start-up
	// Within one statement a helper call (which prints) and an operation that can fault are never mixed:
	// the order of a call relative to an index/division/dereference in the same expression is not
	// specified by the language (gc hoists calls).
	curHasCall, curHasFault bool
	inFunc                  *function // function being generated (nil in main)
	budget                  int       // remaining statements
	curRecovers             bool      // see function.recovers
	bumps                   []string  // package-level variables that have a bump_<name> function
	structs                 bool
}

func (g *gen) feat(f string) { g.features[f] = true }

func (g *gen) line(format string, args ...any) {
	g.sb.WriteString(strings.Repeat("\t", g.indent))
	fmt.Fprintf(&g.sb, format, args...)
	g.sb.WriteString("\n")
}

func (g *gen) push() { g.scopes = append(g.scopes, nil) }
func (g *gen) pop() {
	// use every variable of the scope so that gc does not reject the program
	for _, v := range g.scopes[len(g.scopes)-1] {
		g.line("_ = %s", v.name)
	}
	g.scopes = g.scopes[:len(g.scopes)-1]
}

func (g *gen) declare(typ string) string {
	g.nvar++
	name := fmt.Sprintf("v%d", g.nvar)
	s := len(g.scopes) - 1
	g.scopes[s] = append(g.scopes[s], variable{name: name, typ: typ})
	return name
}

// assignable returns the variables of the type that the current function may
// assign: helper functions never write package-level variables, because the
// order of a variable read relative to a call in the same expression is not
// specified by the language (g += f() with f writing g).
func (g *gen) assignable(typ string) []string {
	var out []string
	for i, s := range g.scopes {
		if i == 0 && g.inFunc != nil {
			continue
		}
		for _, v := range s {
			if v.typ == typ && !v.ro {
				out = append(out, v.name)
			}
		}
	}
	return out
}

// declareRO declares a loop counter.
func (g *gen) declareRO(typ string) string {
	name := g.declare(typ)
	s := len(g.scopes) - 1
	g.scopes[s][len(g.scopes[s])-1].ro = true
	return name
}

func (g *gen) varsOf(typ string) []string {
	var out []string
	for _, s := range g.scopes {
		for _, v := range s {
			if v.typ == typ {
				out = append(out, v.name)
			}
		}
	}
	return out
}

func (g *gen) pick(label string, n int) int { return rapid.IntRange(0, n-1).Draw(g.t, label) }
func (g *gen) oneOf(label string, xs []string) string {
	return rapid.SampledFrom(xs).Draw(g.t, label)
}
func (g *gen) chance(label string, n int) bool { return g.pick(label, n) == 0 }

// ---- literals

func (g *gen) intLit(typ string) string {
	w := bits[typ]
	var cands []string
	if isUnsigned(typ) {
		max := map[int]string{8: "255", 16: "65535", 32: "4294967295", 64: "18446744073709551615"}[w]
		half := map[int]string{8: "128", 16: "32768", 32: "2147483648", 64: "9223372036854775808"}[w]
		cands = []string{"0", "1", "2", "3", "7", "10", "100", half, max, "200", "17"}
	} else {
		max := map[int]string{8: "127", 16: "32767", 32: "2147483647", 64: "9223372036854775807"}[w]
		min := map[int]string{8: "-128", 16: "-32768", 32: "-2147483648", 64: "-9223372036854775808"}[w]
		cands = []string{"0", "1", "-1", "2", "3", "7", "10", "-7", "100", max, min, "42", "-100"}
	}
	return g.oneOf("intlit", cands)
}

func (g *gen) lit(typ string) string {
	switch {
	case isInt(typ):
		return typ + "(" + g.intLit(typ) + ")"
	case typ == "float64":
		return "float64(" + g.oneOf("flit", []string{"0", "1", "-1", "0.5", "2.5", "-3.75", "1e10", "1e-5", "100", "3", "1e300", "0.1", "7"}) + ")"
	case typ == "float32":
		return "float32(" + g.oneOf("f32lit", []string{"0", "1", "-1", "0.5", "2.5", "-3.75", "1e10", "100", "3", "0.1", "16777216"}) + ")"
	case typ == "string":
		return g.oneOf("slit", []string{`""`, `"a"`, `"hello"`, `"héllo"`, `"x y"`, `"日本語"`, `"abc"`, `"Z"`, "`raw\\n`", `"tab\t"`, `"0123456789"`})
	case typ == "bool":
		return g.oneOf("blit", []string{"true", "false"})
	}
	return g.zero(typ)
}

func (g *gen) zero(typ string) string {
	switch {
	case isNum(typ):
		return typ + "(0)"
	case typ == "string":
		return `""`
	case typ == "bool":
		return "false"
	case strings.HasPrefix(typ, "[]"), strings.HasPrefix(typ, "map["), strings.HasPrefix(typ, "*"), strings.HasPrefix(typ, "func"):
		return "nil"
	}
	return typ + "{}"
}

// ---- expressions. Returned expressions are never constant expressions of the Go
// specification when nonConst is requested (a variable, call or conversion of one is involved).

func (g *gen) atom(typ string) (string, bool) {
	vs := g.varsOf(typ)
	if len(vs) > 0 && !g.chance("uselit", 3) {
		return g.oneOf("var", vs), false
	}
	return g.lit(typ), true
}

func (g *gen) nonConst(typ string, depth int) string {
	vs := g.varsOf(typ)
	if len(vs) > 0 {
		return g.oneOf("ncvar", vs)
	}
	// no variable of the type in scope: an immediately invoked literal keeps the operand non-constant
	return "func() " + typ + " { return " + g.lit(typ) + " }()"
}

func (g *gen) expr(typ string, depth int) string {
	if depth <= 0 {
		e, _ := g.atom(typ)
		return e
	}
	switch {
	case isInt(typ):
		return g.intExpr(typ, depth)
	case isFloat(typ):
		return g.floatExpr(typ, depth)
	case typ == "string":
		return g.strExpr(depth)
	case typ == "bool":
		return g.boolExpr(depth)
	}
	e, _ := g.atom(typ)
	return e
}

// mayFault reports whether an operation that can panic may be generated here. A statement
// holds at most one: the order of two faulting operations (a division and a slice expression,
// say) is not fixed by the language, so which panic is raised would be implementation-specific.
func (g *gen) mayFault() bool {
	if g.noFault || g.curHasCall || g.curHasFault {
		return false
	}
	g.curHasFault = true
	return true
}

// callable reports whether f may be called at the current position.
func (g *gen) callable(f function) bool {
	return !(f.recovers && g.rangeDepth > 0 && g.off["recover.in_range"])
}

func (g *gen) callOf(typ string, depth int) (string, bool) {
	if g.curHasFault {
		return "", false
	}
	var cands []function
	for _, f := range g.funcs {
		if len(f.results) == 1 && f.results[0] == typ && g.callable(f) {
			cands = append(cands, f)
		}
	}
	if len(cands) == 0 {
		return "", false
	}
	f := cands[g.pick("callee", len(cands))]
	g.curHasCall = true
	g.curRecovers = g.curRecovers || f.recovers
	var args []string
	for _, p := range f.params {
		args = append(args, g.expr(p, depth-1))
	}
	g.feat("call")
	return f.name + "(" + strings.Join(args, ", ") + ")", true
}

func (g *gen) intExpr(typ string, depth int) string {
	switch g.pick("ik", 14) {
	case 0, 1, 2:
		op := g.oneOf("iop", []string{"+", "-", "*", "&", "|", "^", "&^"})
		g.feat("arith_" + typ)
		return "(" + g.nonConst(typ, depth) + " " + op + " " + g.expr(typ, depth-1) + ")"
	case 3:
		// division and remainder: the divisor is a non-zero literal most of the time
		op := g.oneOf("divop", []string{"/", "%"})
		var d string
		if g.chance("vardiv", 4) && !g.off["fault.divzero"] && g.mayFault() {
			d = g.nonConst(typ, depth-1) // a constant zero divisor is a compile-time error
			g.feat("div_by_variable")
		} else {
			d = typ + "(" + g.oneOf("nz", []string{"1", "2", "3", "7", "10"}) + ")"
			if !isUnsigned(typ) && g.chance("negdiv", 3) {
				d = typ + "(-1)"
				g.feat("div_minus_one")
			}
		}
		return "(" + g.nonConst(typ, depth) + " " + op + " " + d + ")"
	case 4:
		op := g.oneOf("shop", []string{"<<", ">>"})
		var c string
		switch g.pick("shc", 4) {
		case 0:
			c = "uint(" + g.oneOf("shlit", []string{"0", "1", "3", "7", "8", "15", "16", "31", "32", "63", "64", "65", "100"}) + ")"
		case 1:
			c = g.expr("uint8", depth-1)
		case 2:
			if !g.off["shift.signed_count"] {
				// The signed count goes through a variable-free, float-free expression:
				// gc 1.25.0 miscompiles x << (int(func() float64 { return -1 }()) & 63)
				// (it prints 3 for x = 6; computed in steps it prints 0, as Scriggo does),
				// so a float-to-int conversion is never the operand of the mask.
				e := g.expr("int", depth-1)
				if strings.Contains(e, "float") {
					e = g.intLit("int")
				}
				c = "(" + e + " & 63)"
				break
			}
			fallthrough
		default:
			c = g.oneOf("shlit2", []string{"0", "1", "2", "5", "9"})
		}
		g.feat("shift_" + typ)
		return "(" + g.nonConst(typ, depth) + " " + op + " " + c + ")"
	case 5:
		if !isUnsigned(typ) {
			return "(-" + g.nonConst(typ, depth) + ")"
		}
		return "(^" + g.nonConst(typ, depth) + ")"
	case 6, 7:
		// conversion from another integer type (wrap-around / sign change)
		from := g.oneOf("convfrom", intTypes)
		g.feat("conv_int")
		return typ + "(" + g.nonConst(from, depth) + ")"
	case 8:
		if typ == "int" {
			switch g.pick("lenof", 3) {
			case 0:
				return "len(" + g.expr("string", depth-1) + ")"
			case 1:
				if vs := g.varsOf("[]int"); len(vs) > 0 {
					return "len(" + g.oneOf("lenslice", vs) + ")"
				}
			case 2:
				if vs := g.varsOf("map[string]int"); len(vs) > 0 {
					return "len(" + g.oneOf("lenmap", vs) + ")"
				}
			}
		}
		if typ == "uint8" {
			s := g.varsOf("string")
			if len(s) > 0 && !g.off["fault.index"] && g.chance("strindex", 2) && g.mayFault() {
				g.feat("string_index")
				return g.oneOf("idxstr", s) + "[" + g.oneOf("idx", []string{"0", "1", "2", "5"}) + "]"
			}
		}
	case 9:
		if c, ok := g.callOf(typ, depth); ok {
			return c
		}
	case 10:
		if typ == "int" {
			if vs := g.varsOf("[]int"); len(vs) > 0 && !g.off["fault.index"] && g.mayFault() {
				g.feat("slice_index")
				return g.oneOf("sl", vs) + "[" + g.oneOf("sidx", []string{"0", "1", "2", "3"}) + "]"
			}
			if vs := g.varsOf("map[string]int"); len(vs) > 0 {
				g.feat("map_index")
				return g.oneOf("mp", vs) + "[" + g.expr("string", 0) + "]"
			}
		}
	case 11:
		if typ == "int" && g.structs {
			if vs := g.varsOf("S0"); len(vs) > 0 {
				return g.oneOf("sv", vs) + ".A"
			}
			if vs := g.varsOf("*S0"); len(vs) > 0 && !g.off["fault.nilptr"] && g.mayFault() {
				return g.oneOf("pv", vs) + ".A"
			}
		}
	case 12:
		if !g.off["conv.float_to_int_literal"] && typ != "uint8" && typ != "int8" {
			// float -> int conversion of a small, exactly representable value
			f := g.oneOf("f2i", []string{"0", "1", "2.5", "100.9", "7"})
			if !isUnsigned(typ) && g.chance("f2ineg", 3) {
				f = "-" + f
			}
			g.feat("conv_float_int")
			return typ + "(func() float64 { return " + f + " }())"
		}
	}
	e, _ := g.atom(typ)
	return e
}

func (g *gen) floatExpr(typ string, depth int) string {
	switch g.pick("fk", 8) {
	case 0, 1, 2:
		op := g.oneOf("fop", []string{"+", "-", "*", "/"})
		g.feat("arith_" + typ)
		r := g.expr(typ, depth-1)
		if op == "/" && g.off["float.div_const_zero"] && (strings.HasSuffix(r, "(0)") || strings.Contains(r, "(0))")) {
			r = g.nonConst(typ, depth)
		}
		return "(" + g.nonConst(typ, depth) + " " + op + " " + r + ")"
	case 3:
		return "(-" + g.nonConst(typ, depth) + ")"
	case 4:
		from := g.oneOf("fconvfrom", []string{"int", "int8", "uint16", "int64", "uint64", "int32"})
		g.feat("conv_int_float")
		return typ + "(" + g.nonConst(from, depth) + ")"
	case 5:
		other := "float32"
		if typ == "float32" {
			other = "float64"
		}
		return typ + "(" + g.nonConst(other, depth) + ")"
	case 6:
		if c, ok := g.callOf(typ, depth); ok {
			return c
		}
	}
	e, _ := g.atom(typ)
	return e
}

func (g *gen) strExpr(depth int) string {
	switch g.pick("sk", 7) {
	case 0, 1:
		g.feat("string_concat")
		return "(" + g.expr("string", depth-1) + " + " + g.expr("string", depth-1) + ")"
	case 2:
		if vs := g.varsOf("string"); len(vs) > 0 && !g.off["fault.slice"] && g.mayFault() {
			g.feat("string_slice")
			lo := g.oneOf("lo", []string{"0", "1", "2"})
			hi := g.oneOf("hi", []string{"", "2", "3", "5"})
			if hi != "" && hi < lo {
				hi = ""
			}
			return g.oneOf("slstr", vs) + "[" + lo + ":" + hi + "]"
		}
	case 3:
		g.feat("string_from_rune")
		return "string(rune(" + g.expr("int32", depth-1) + " & 0x7f))"
	case 4:
		if c, ok := g.callOf("string", depth); ok {
			return c
		}
	case 5:
		if g.structs {
			if vs := g.varsOf("S0"); len(vs) > 0 {
				return g.oneOf("ssv", vs) + ".B"
			}
		}
	}
	e, _ := g.atom("string")
	return e
}

func (g *gen) boolExpr(depth int) string {
	switch g.pick("bk", 8) {
	case 0, 1, 2:
		t := g.oneOf("cmpt", numTypes)
		op := g.oneOf("cmpop", []string{"==", "!=", "<", "<=", ">", ">="})
		g.feat("compare")
		return "(" + g.nonConst(t, depth) + " " + op + " " + g.expr(t, depth-1) + ")"
	case 3:
		op := g.oneOf("scmp", []string{"==", "!=", "<", ">="})
		return "(" + g.nonConst("string", depth) + " " + op + " " + g.expr("string", depth-1) + ")"
	case 4:
		op := g.oneOf("lop", []string{"&&", "||"})
		g.feat("shortcircuit")
		return "(" + g.expr("bool", depth-1) + " " + op + " " + g.expr("bool", depth-1) + ")"
	case 5:
		return "!" + g.nonConst("bool", depth)
	case 6:
		if c, ok := g.callOf("bool", depth); ok {
			return c
		}
	}
	e, _ := g.atom("bool")
	return e
}

// ---- statements

func (g *gen) printable() string { return g.oneOf("ptype", scalarTypes) }

func (g *gen) stmtPrint() {
	n := 1 + g.pick("nprint", 3)
	var args []string
	for i := 0; i < n; i++ {
		args = append(args, g.expr(g.printable(), 2))
	}
	fn := "println"
	if g.chance("print", 6) {
		fn = "print"
		args = append(args, `"\n"`)
	}
	g.line("%s(%s)", fn, strings.Join(args, ", "))
}

func (g *gen) stmtDecl() {
	typ := g.oneOf("dtype", scalarTypes)
	e := g.expr(typ, 2)
	name := g.declare(typ)
	switch g.pick("declform", 3) {
	case 0:
		g.line("var %s %s = %s", name, typ, e)
	case 1:
		g.line("var %s %s", name, typ)
		g.line("%s = %s", name, e)
	default:
		g.line("%s := %s", name, e)
	}
}

func (g *gen) stmtAssign() {
	typ := g.oneOf("atype", scalarTypes)
	vs := g.assignable(typ)
	if len(vs) == 0 {
		g.stmtDecl()
		return
	}
	v := g.oneOf("avar", vs)
	switch {
	case isInt(typ) && g.chance("opassign", 2):
		op := g.oneOf("aop", []string{"+=", "-=", "*=", "&=", "|=", "^=", "<<=", ">>="})
		if op == "<<=" || op == ">>=" {
			g.line("%s %s %s", v, op, g.oneOf("ashc", []string{"1", "3", "uint(9)", "7"}))
		} else {
			g.line("%s %s %s", v, op, g.expr(typ, 1))
		}
		g.feat("op_assign")
	case isInt(typ) && g.chance("incdec", 3):
		g.line("%s%s", v, g.oneOf("incdec", []string{"++", "--"}))
	case typ == "string" && g.chance("sappend", 2):
		g.line("%s += %s", v, g.expr("string", 1))
	default:
		g.line("%s = %s", v, g.expr(typ, 2))
	}
}

func (g *gen) block(n int) {
	g.push()
	for i := 0; i < n && g.budget > 0; i++ {
		g.stmt()
	}
	g.pop()
}

func (g *gen) stmtIf() {
	g.line("if %s {", g.expr("bool", 2))
	g.indent++
	g.block(1 + g.pick("ifn", 3))
	g.indent--
	if g.chance("else", 2) {
		if g.chance("elseif", 3) {
			g.line("} else if %s {", g.expr("bool", 1))
			g.indent++
			g.block(1 + g.pick("elifn", 2))
			g.indent--
		}
		g.line("} else {")
		g.indent++
		g.block(1 + g.pick("elsen", 2))
		g.indent--
	}
	g.line("}")
	g.feat("if")
}

func (g *gen) stmtFor() {
	if g.loopDepth >= 2 {
		g.stmtPrint()
		return
	}
	g.loopDepth++
	defer func() { g.loopDepth-- }()
	g.feat("for")
	switch g.pick("forkind", 5) {
	case 0, 1:
		g.push()
		i := g.declareRO("int")
		g.line("for %s := 0; %s < %d; %s++ {", i, i, 1+g.pick("bound", 4), i)
		g.indent++
		g.forBody()
		g.indent--
		// the loop variable lives in the for scope
		g.scopes = g.scopes[:len(g.scopes)-1]
		g.line("}")
	case 2:
		g.push()
		c := g.declareRO("int")
		g.line("%s := 0", c)
		g.line("for %s < %d {", c, 1+g.pick("wbound", 4))
		g.indent++
		g.line("%s++", c)
		g.forBody()
		g.indent--
		g.line("}")
		g.pop()
	case 3:
		// range over a string literal or variable: index and rune
		over := g.expr("string", 1)
		g.push()
		i, r := g.declare("int"), g.declare("int32")
		g.line("for %s, %s := range %s {", i, r, over)
		g.indent++
		g.line("_, _ = %s, %s", i, r)
		g.rangeDepth++
		g.forBody()
		g.rangeDepth--
		g.indent--
		g.scopes = g.scopes[:len(g.scopes)-1]
		g.line("}")
		g.feat("range_string")
	default:
		if vs := g.varsOf("[]int"); len(vs) > 0 {
			g.push()
			i, e := g.declare("int"), g.declare("int")
			g.line("for %s, %s := range %s {", i, e, g.oneOf("rs", vs))
			g.indent++
			g.line("_, _ = %s, %s", i, e)
			g.rangeDepth++
			g.forBody()
			g.rangeDepth--
			g.indent--
			g.scopes = g.scopes[:len(g.scopes)-1]
			g.line("}")
			g.feat("range_slice")
			return
		}
		g.push()
		i := g.declareRO("int")
		g.line("for %s := %d; %s > 0; %s-- {", i, 1+g.pick("dbound", 3), i, i)
		g.indent++
		g.forBody()
		g.indent--
		g.scopes = g.scopes[:len(g.scopes)-1]
		g.line("}")
	}
}

func (g *gen) forBody() {
	g.push()
	n := 1 + g.pick("forn", 3)
	for i := 0; i < n && g.budget > 0; i++ {
		if g.chance("brk", 8) {
			g.line("if %s {", g.expr("bool", 1))
			g.line("\t%s", g.oneOf("brkcont", []string{"break", "continue"}))
			g.line("}")
			g.feat("break_continue")
			continue
		}
		g.stmt()
	}
	g.pop()
}

func (g *gen) stmtSwitch() {
	g.feat("switch")
	if g.chance("tagless", 3) {
		g.line("switch {")
		for i := 0; i < 2; i++ {
			g.line("case %s:", g.expr("bool", 1))
			g.indent++
			g.block(1)
			g.indent--
		}
		g.line("default:")
		g.indent++
		g.block(1)
		g.indent--
		g.line("}")
		return
	}
	typ := g.oneOf("swt", []string{"int", "string", "uint8", "int16"})
	g.line("switch %s {", g.nonConst(typ, 1))
	n := 1 + g.pick("ncases", 3)
	seen := map[string]bool{}
	var lits []string
	for i := 0; i < n; i++ {
		if l := g.lit(typ); !seen[l] {
			seen[l] = true
			lits = append(lits, l)
		}
	}
	hasDefault := g.chance("default", 2)
	for i, l := range lits {
		g.line("case %s:", l)
		g.indent++
		g.block(1)
		if (i < len(lits)-1 || hasDefault) && g.chance("fallthrough", 4) && !g.off["switch.fallthrough"] {
			g.line("fallthrough")
			g.feat("fallthrough")
		}
		g.indent--
	}
	if hasDefault {
		g.line("default:")
		g.indent++
		g.block(1)
		g.indent--
	}
	g.line("}")
}

func (g *gen) stmtSlice() {
	g.feat("slice")
	vs := g.varsOf("[]int")
	if len(vs) == 0 || g.chance("newslice", 4) {
		e1, e2, e3 := g.expr("int", 1), g.expr("int", 1), g.expr("int", 1)
		name := g.declare("[]int")
		switch g.pick("mk", 3) {
		case 0:
			g.line("%s := []int{%s, %s, %s}", name, e1, e2, e3)
		case 1:
			g.line("%s := make([]int, %d, %d)", name, g.pick("mklen", 4), 4+g.pick("mkcap", 3))
		default:
			g.line("var %s []int", name)
		}
		return
	}
	s := g.oneOf("svar", vs)
	switch g.pick("sop", 6) {
	case 0, 1:
		g.line("%s = append(%s, %s)", s, s, g.expr("int", 2))
	case 2:
		if !g.off["fault.index"] {
			g.line("%s[%s] = %s", s, g.oneOf("sidx2", []string{"0", "1", "2"}), g.expr("int", 1))
			g.feat("slice_store")
			return
		}
		g.line("%s = append(%s, 1, 2)", s, s)
	case 3:
		if !g.off["fault.slice"] {
			// The capacity after append is implementation-specific (gc 1.25 keeps small
			// backing stores on the stack), so the operand is first clipped to its length:
			// whether the high bound is in range then depends on the length alone.
			g.line("%s = %s[:len(%s):len(%s)][%s:%s]", s, s, s, s, g.oneOf("slo", []string{"", "0", "1"}), g.oneOf("shi", []string{"", "1", "2", "3"}))
			g.feat("slice_reslice")
			return
		}
		g.line("%s = append(%s, 3)", s, s)
	case 4:
		if !g.off["fault.slice"] && g.chance("capslice", 2) {
			// reslicing between length and capacity, on a slice whose capacity the language fixes
			g.line("println(len(make([]int, %d, %d)[%s:%s]))", g.pick("cslen", 3), 3+g.pick("cscap", 2), g.oneOf("cslo", []string{"", "0", "2"}), g.oneOf("cshi", []string{"2", "3", "4", "5"}))
			g.curHasFault = true
			g.feat("slice_reslice_cap")
			return
		}
		g.line("println(len(%s), cap(%s) >= len(%s))", s, s, s)
	default:
		d := g.declare("int")
		g.line("%s := copy(%s, []int{9, 8})", d, s)
	}
}

func (g *gen) stmtMap() {
	g.feat("map")
	vs := g.varsOf("map[string]int")
	if len(vs) == 0 || g.chance("newmap", 5) {
		e := g.expr("int", 1)
		name := g.declare("map[string]int")
		if g.chance("nilmap", 6) && !g.off["fault.nilmap"] {
			g.line("var %s map[string]int", name)
			g.feat("nil_map")
		} else {
			g.line("%s := map[string]int{\"a\": %s, \"b\": 2}", name, e)
		}
		return
	}
	m := g.oneOf("mvar", vs)
	switch g.pick("mop", 5) {
	case 0, 1:
		g.line("%s[%s] = %s", m, g.expr("string", 1), g.expr("int", 1))
	case 2:
		g.line("delete(%s, %s)", m, g.expr("string", 0))
	case 3:
		k := g.expr("string", 0)
		v, ok := g.declare("int"), g.declare("bool")
		g.line("%s, %s := %s[%s]", v, ok, m, k)
		g.feat("comma_ok")
	default:
		g.line("%s[%s] += %s", m, g.expr("string", 0), g.expr("int", 1))
	}
}

func (g *gen) stmtStruct() {
	if !g.structs {
		g.stmtPrint()
		return
	}
	g.feat("struct")
	vs := g.varsOf("S0")
	ps := g.varsOf("*S0")
	switch {
	case len(vs) == 0 || g.chance("newstruct", 5):
		ea, eb := g.expr("int", 1), g.expr("string", 1)
		name := g.declare("S0")
		g.line("%s := S0{A: %s, B: %s}", name, ea, eb)
	case len(ps) == 0 && g.chance("newptr", 2):
		name := g.declare("*S0")
		if g.chance("nilptr", 6) && !g.off["fault.nilptr"] {
			g.line("var %s *S0", name)
			g.feat("nil_pointer")
		} else {
			g.line("%s := &%s", name, g.oneOf("addrof", vs))
			g.feat("pointer")
		}
	case len(ps) > 0 && g.chance("viaptr", 2):
		g.line("%s.A += %s", g.oneOf("pvar", ps), g.expr("int", 1))
	default:
		v := g.oneOf("stvar", vs)
		switch g.pick("stop", 3) {
		case 0:
			g.line("%s.A = %s", v, g.expr("int", 1))
		case 1:
			g.line("%s.B += %s", v, g.expr("string", 1))
		default:
			c := g.declare("S0")
			g.line("%s := %s", c, v)
			g.line("%s.A++", c)
			g.line("println(%s.A, %s.A, %s == %s)", v, c, v, c)
			g.feat("struct_copy")
		}
	}
}

func (g *gen) stmtClosure() {
	g.feat("closure")
	cap := g.assignable("int")
	f := g.declare("func(int) int")
	g.line("%s := func(a int) int {", f)
	g.indent++
	if len(cap) > 0 {
		c := g.oneOf("captured", cap)
		g.line("%s += a", c)
		g.line("return %s * 2", c)
		g.feat("closure_mutation")
	} else {
		g.line("return a + 1")
	}
	g.indent--
	g.line("}")
	g.line("println(%s(%s), %s(3))", f, g.expr("int", 1), f)
}

func (g *gen) stmtCall() {
	if len(g.funcs) == 0 {
		g.stmtPrint()
		return
	}
	f := g.funcs[g.pick("scallee", len(g.funcs))]
	if !g.callable(f) {
		g.stmtPrint()
		return
	}
	g.curHasCall = true
	g.curRecovers = g.curRecovers || f.recovers
	var args []string
	for _, p := range f.params {
		args = append(args, g.expr(p, 1))
	}
	call := f.name + "(" + strings.Join(args, ", ") + ")"
	switch len(f.results) {
	case 0:
		g.line("%s", call)
	case 1:
		g.line("println(%s)", call)
	default:
		var names []string
		for _, r := range f.results {
			names = append(names, g.declare(r))
		}
		g.line("%s := %s", strings.Join(names, ", "), call)
		g.feat("multi_value_call")
	}
}

func (g *gen) stmtDefer() {
	if g.off["defer"] || g.loopDepth > 0 {
		g.stmtPrint()
		return
	}
	g.feat("defer")
	switch g.pick("dk", 3) {
	case 0:
		g.line("defer println(\"deferred\", %s)", g.expr(g.printable(), 1))
	case 1:
		g.line("defer func() {")
		g.indent++
		g.line("println(\"deferred closure\", %s)", g.expr(g.printable(), 1))
		g.indent--
		g.line("}()")
	default:
		vs := g.varsOf("int")
		if len(vs) > 0 {
			v := g.oneOf("dv", vs)
			g.line("defer func(x int) { println(\"arg at defer time\", x, \"now\", %s) }(%s)", v, v)
		} else {
			g.line("defer println(\"d\")")
		}
	}
}

func (g *gen) stmtPanicky() {
	// a call that panics (explicitly or through a runtime fault) inside a function that recovers
	if g.off["recover"] {
		g.stmtPrint()
		return
	}
	g.feat("recover")
	g.curRecovers = true
	g.line("func() {")
	g.indent++
	g.line("defer func() {")
	g.indent++
	g.line("switch r := recover().(type) {")
	g.line("case nil:")
	g.line("\tprintln(\"no panic\")")
	g.line("case string:")
	g.line("\tprintln(\"recovered string\", r)")
	g.line("case int:")
	g.line("\tprintln(\"recovered int\", r)")
	g.line("case error:")
	g.line("\tprintln(\"recovered error\", r.Error())")
	g.line("default:")
	g.line("\tprintln(\"recovered other\")")
	g.line("}")
	g.indent--
	g.line("}()")
	g.push() // body of the function literal
	switch g.pick("pk", 7) {
	case 0:
		g.line("panic(%s)", g.expr("string", 1))
		g.feat("panic_string")
	case 1:
		g.line("panic(%s)", g.expr("int", 1))
		g.feat("panic_int")
	case 2:
		if !g.off["fault.divzero"] {
			z := g.declare("int")
			g.line("%s := 0", z)
			g.line("println(%s / %s)", g.expr("int", 1), z)
			g.feat("fault_divzero")
		}
	case 3:
		if !g.off["fault.index"] {
			s := g.declare("[]int")
			g.line("%s := []int{1, 2, 3}", s)
			i := g.declare("int")
			g.line("%s := %s", i, g.oneOf("oob", []string{"3", "5", "-1", "2"}))
			g.line("println(%s[%s])", s, i)
			g.feat("fault_index")
		}
	case 4:
		if !g.off["fault.nilmap"] {
			m := g.declare("map[string]int")
			g.line("var %s map[string]int", m)
			g.line("%s[\"k\"] = 1", m)
			g.feat("fault_nilmap")
		}
	case 5:
		if !g.off["fault.assert"] {
			a := g.declare("interface{}")
			g.line("var %s interface{} = %s", a, g.expr(g.oneOf("boxed", []string{"int", "string", "bool"}), 1))
			g.line("println(%s.(int))", a)
			g.feat("fault_assert")
		}
	default:
		g.block(2)
	}
	g.pop()
	g.indent--
	g.line("}()")
}

func (g *gen) stmt() {
	g.budget--
	g.curHasCall, g.curHasFault = false, false
	k := g.pick("stmt", 34)
	if g.rangeDepth > 0 && g.off["recover.in_range"] && k == 23 {
		k = 0 // no recovered panic inside a range loop (helpers that recover are filtered by callable)
	}
	switch k {
	case 0, 1, 2, 3:
		g.stmtPrint()
	case 4, 5, 6:
		g.stmtDecl()
	case 7, 8, 9:
		g.stmtAssign()
	case 10, 11:
		g.stmtIf()
	case 12, 13:
		g.stmtFor()
	case 14:
		g.stmtSwitch()
	case 15, 16:
		g.stmtSlice()
	case 17:
		g.stmtMap()
	case 18:
		g.stmtStruct()
	case 19:
		g.stmtClosure()
	case 20, 21:
		g.stmtCall()
	case 22:
		g.stmtDefer()
	case 23:
		g.stmtPanicky()
	case 24, 25:
		if len(g.bumps) > 0 && g.inFunc == nil && g.chance("funcvalue", 2) {
			g.stmtFuncValue()
			return
		}
		g.stmtPointer()
	case 26, 27:
		g.stmtIface()
	default:
		g.stmtExtra()
	}
}

// stmtFuncValue uses a top-level function as a value: the function updates a package-level
// variable, which must be the one of the current run.
func (g *gen) stmtFuncValue() {
	g.feat("func_value")
	v := g.oneOf("bumpvar", g.bumps)
	g.nvar++
	f := fmt.Sprintf("fv%d", g.nvar)
	g.line("%s := bump_%s", f, v)
	n := 1 + g.pick("nbump", 3)
	for i := 0; i < n; i++ {
		g.line("%s()", f)
	}
	g.line("println(%s)", v)
}

// stmtPointer takes the address of a variable and updates it through the pointer.
func (g *gen) stmtPointer() {
	if g.off["pointer"] {
		g.stmtPrint()
		return
	}
	g.feat("pointer")
	typ := g.oneOf("ptrtyp", []string{"int", "int", "int8", "uint8", "int16", "uint32", "int64", "uint64", "string", "float64"})
	var v string
	if vs := g.assignable(typ); len(vs) > 0 && g.chance("ptrexisting", 2) {
		v = g.oneOf("ptrvar", vs)
	} else {
		e := g.expr(typ, 1)
		v = g.declare(typ)
		g.line("var %s %s = %s", v, typ, e)
	}
	g.nvar++
	p := fmt.Sprintf("p%d", g.nvar)
	g.line("%s := &%s", p, v)
	n := 1 + g.pick("nptrops", 3)
	for i := 0; i < n; i++ {
		switch {
		case typ == "string":
			g.line("*%s += %s", p, g.expr("string", 1))
		case typ == "float64":
			g.line("*%s %s %s", p, g.oneOf("fptrop", []string{"+=", "-=", "*="}), g.expr("float64", 1))
		default:
			switch g.pick("iptrop", 5) {
			case 0:
				g.line("*%s++", p)
			case 1:
				g.line("*%s--", p)
			case 2:
				g.line("*%s <<= %d", p, 1+g.pick("ptrshift", 3))
			default:
				g.line("*%s %s %s", p, g.oneOf("iptrop2", []string{"+=", "-=", "*=", "|=", "&=", "^=", "&^="}), g.expr(typ, 1))
			}
		}
		g.curHasCall, g.curHasFault = false, false
	}
	g.line("println(*%s, %s)", p, v)
}

// stmtIface declares a variable with an interface type that is accessed indirectly:
// through a pointer or assigned by a closure.
func (g *gen) stmtIface() {
	if g.off["iface"] {
		g.stmtPrint()
		return
	}
	g.feat("iface_indirect")
	types := []string{"int", "string", "float64", "bool"}
	t1 := g.oneOf("ifacetyp", types)
	e1 := g.expr(t1, 1)
	g.curHasCall, g.curHasFault = false, false
	g.nvar++
	i := fmt.Sprintf("i%d", g.nvar)
	switch g.pick("ifaceform", 4) {
	case 0:
		g.line("var %s error", i)
		g.line("q%s := &%s", i, i)
		g.line("println(*q%s == nil, %s == nil)", i, i)
		return
	case 1:
		g.line("var %s interface{} = %s", i, e1)
		g.line("q%s := &%s", i, i)
		g.line("_ = q%s", i)
		if g.chance("ifacestore", 2) {
			t2 := g.oneOf("ifacetyp2", types)
			g.line("*q%s = %s", i, g.expr(t2, 1))
			g.curHasCall, g.curHasFault = false, false
		}
	case 2:
		g.line("var %s interface{} = %s", i, e1)
		t2 := g.oneOf("ifacetyp2", types)
		g.line("func() { %s = %s }()", i, g.expr(t2, 1))
		g.curHasCall, g.curHasFault = false, false
	default:
		g.line("var %s interface{}", i)
		g.line("q%s := &%s", i, i)
		g.line("println(*q%s == nil, %s == nil)", i, i)
		g.line("*q%s = %s", i, e1)
	}
	g.line("switch x := %s.(type) {", i)
	g.line("case int:")
	g.line("\tprintln(\"int\", x)")
	g.line("case string:")
	g.line("\tprintln(\"string\", x)")
	g.line("case float64:")
	g.line("\tprintln(\"float64\", x)")
	g.line("case bool:")
	g.line("\tprintln(\"bool\", x)")
	g.line("case nil:")
	g.line("\tprintln(\"nil\")")
	g.line("default:")
	g.line("\tprintln(\"other\")")
	g.line("}")
}

// ---- functions and program

func (g *gen) genFunc(idx int) {
	f := function{name: fmt.Sprintf("f%d", idx)}
	np := g.pick("nparams", 3)
	for i := 0; i < np; i++ {
		f.params = append(f.params, g.oneOf("ptyp", scalarTypes))
	}
	nr := g.pick("nresults", 3)
	for i := 0; i < nr; i++ {
		f.results = append(f.results, g.oneOf("rtyp", scalarTypes))
	}
	var ps []string
	g.push()
	for i, p := range f.params {
		name := fmt.Sprintf("p%d_%d", idx, i)
		g.scopes[len(g.scopes)-1] = append(g.scopes[len(g.scopes)-1], variable{name: name, typ: p})
		ps = append(ps, name+" "+p)
	}
	res := ""
	if len(f.results) == 1 {
		res = " " + f.results[0]
	} else if len(f.results) > 1 {
		res = " (" + strings.Join(f.results, ", ") + ")"
	}
	g.line("func %s(%s)%s {", f.name, strings.Join(ps, ", "), res)
	g.indent++
	g.inFunc = &f
	g.curRecovers = false
	n := 1 + g.pick("fbody", 4)
	for i := 0; i < n; i++ {
		g.stmt()
	}
	if len(f.results) > 0 {
		var rs []string
		for _, r := range f.results {
			rs = append(rs, g.expr(r, 2))
		}
		// variables of the scope must be "used" before the return
		for _, v := range g.scopes[len(g.scopes)-1] {
			g.line("_ = %s", v.name)
		}
		g.scopes[len(g.scopes)-1] = nil
		g.line("return %s", strings.Join(rs, ", "))
	}
	g.pop()
	g.inFunc = nil
	g.indent--
	g.line("}")
	g.line("")
	f.recovers = g.curRecovers
	g.funcs = append(g.funcs, f)
}

// Gen draws a program.
func Gen(t *rapid.T, off Off) Prog {
	g := &gen{t: t, off: off, features: map[string]bool{}}
	g.structs = !off["struct"]
	g.line("package main")
	g.line("")
	if g.structs {
		g.line("type S0 struct {")
		g.line("\tA int")
		g.line("\tB string")
		g.line("}")
		g.line("")
		// package-level aggregates: their fields and elements are assigned in place (extras.go)
		g.line("type W0 struct {")
		g.line("\tIn  S0")
		g.line("\tArr [2]S0")
		g.line("}")
		g.line("")
		g.line("var gW W0")
		g.line("var gArr [2]S0")
		g.line("")
	}
	// package-level variables (initialised in dependency order by the language)
	g.push()
	ng := g.pick("nglobals", 3)
	for i := 0; i < ng; i++ {
		typ := g.oneOf("gtyp", []string{"int", "string", "uint8", "float64"})
		name := fmt.Sprintf("g%d", i)
		g.noFault = true
		e := g.expr(typ, 1)
		g.noFault = false
		g.scopes[0] = append(g.scopes[0], variable{name: name, typ: typ})
		g.line("var %s %s = %s", name, typ, e)
		g.feat("package_var")
	}
	g.line("")
	// one function per package-level variable that updates it; they are only used through
	// function values at statement level (never inside an expression, see assignable)
	if !off["funcvalue"] {
		for _, v := range g.scopes[0] {
			switch v.typ {
			case "string":
				g.line("func bump_%s() { %s += \"+\" }", v.name, v.name)
			case "float64":
				g.line("func bump_%s() { %s += 0.5 }", v.name, v.name)
			default:
				g.line("func bump_%s() { %s += 1 }", v.name, v.name)
			}
			g.bumps = append(g.bumps, v.name)
		}
		g.line("")
	}
	nf := g.pick("nfuncs", 4)
	g.budget = 12
	for i := 0; i < nf; i++ {
		g.genFunc(i)
	}
	g.line("func main() {")
	g.indent++
	g.budget = 8 + g.pick("mainbudget", 25)
	g.push()
	for g.budget > 0 {
		g.stmt()
	}
	// final state of the package-level variables
	for _, v := range g.scopes[0] {
		g.line("println(\"%s =\", %s)", v.name, v.name)
	}
	g.pop()
	g.indent--
	g.line("}")
	var fs []string
	for f := range g.features {
		fs = append(fs, f)
	}
	return Prog{Src: g.sb.String(), Features: fs}
}

package goprog

import (
	"regexp"
	"strings"
)

var reTopFunc = regexp.MustCompile(`^func ([A-Za-z_][A-Za-z0-9_]*)\(`)

// AsScript rewrites a generated program as the body of a template script block ({%% … %%}):
// the package clause goes away, every top-level function becomes a function literal assigned
// to a variable of the same name (generated functions call only functions declared before
// them), package-level variables become variables of the block, and the body of main runs in
// a function literal of its own so that its return and deferred calls keep their meaning.
// Every declared variable is used once, as the block has the rules of a function body.
func AsScript(src string) string {
	var out []string
	var names []string
	for _, line := range strings.Split(src, "\n") {
		switch {
		case strings.HasPrefix(line, "package "):
			continue
		case line == "func main() {":
			out = append(out, "func() {")
			continue
		case strings.HasPrefix(line, "func "):
			if m := reTopFunc.FindStringSubmatch(line); m != nil {
				names = append(names, m[1])
				if strings.HasSuffix(line, "}") { // one-line function
					out = append(out, m[1]+" := func"+line[len("func "+m[1]):])
				} else {
					out = append(out, m[1]+" := func"+line[len("func "+m[1]):])
				}
				continue
			}
		case strings.HasPrefix(line, "var "):
			f := strings.Fields(line)
			if len(f) > 1 {
				names = append(names, strings.TrimSuffix(f[1], ","))
			}
		}
		out = append(out, line)
	}
	// the last closing brace at column 0 ends main: call the literal
	for i := len(out) - 1; i >= 0; i-- {
		if out[i] == "}" {
			// uses go before main runs so that they are in scope
			var uses []string
			for _, n := range names {
				uses = append(uses, "_ = "+n)
			}
			out[i] = "}()"
			// insert the uses before "func() {" of main
			for j := i; j >= 0; j-- {
				if out[j] == "func() {" {
					out = append(out[:j], append(uses, out[j:]...)...)
					break
				}
			}
			break
		}
	}
	return strings.Join(out, "\n")
}

// AsClosures rewrites a generated program so that everything lives in main: the top-level
// functions become function literals held in variables (and so are called through their
// value, possibly from other function literals that capture them), the package-level
// variables become variables of main. It is still a Go program: gc is its reference.
func AsClosures(src string) string {
	body := AsScript(src)
	lines := strings.Split(body, "\n")
	for i, l := range lines {
		if l != "" {
			lines[i] = "\t" + l
		}
	}
	return "package main\n\nfunc main() {\n" + strings.Join(lines, "\n") + "\n}\n"
}

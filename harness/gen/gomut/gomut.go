// Package gomut holds the mutation operators that turn a generated Go program into a
// (usually ill-typed) variant inside the syntactic subset go/types and Scriggo both parse.
package gomut

import (
	"regexp"
	"strings"

	"pgregory.net/rapid"
)

// ---- mutation operators (syntactic-subset preserving, applied to one site drawn by rapid)

type mutator struct {
	name string
	re   *regexp.Regexp
	repl func(m string, t *rapid.T) string
}

// Mutators is the operator table.
var mutators = []mutator{
	{"undefined-name", regexp.MustCompile(`\bv[0-9]+\b`), func(m string, t *rapid.T) string { return "undefinedName" }},
	{"wrong-operand-type", regexp.MustCompile(`\bu?int(8|16|32|64)?\(-?[0-9]+\)`), func(m string, t *rapid.T) string { return `"str"` }},
	{"string-for-bool", regexp.MustCompile(`\b(true|false)\b`), func(m string, t *rapid.T) string { return `"yes"` }},
	{"drop-use", regexp.MustCompile(`(?m)^\s*_ = v[0-9]+\n`), func(m string, t *rapid.T) string { return "" }},
	{"redeclare", regexp.MustCompile(`(?m)^(\s*)(v[0-9]+) := ([^\n]*)\n`), func(m string, t *rapid.T) string {
		sub := regexp.MustCompile(`(?m)^(\s*)(v[0-9]+) := ([^\n]*)\n`).FindStringSubmatch(m)
		return m + sub[1] + sub[2] + " := " + sub[3] + "\n"
	}},
	{"assign-undeclared", regexp.MustCompile(`\b(v[0-9]+) := `), func(m string, t *rapid.T) string { return strings.Replace(m, ":=", "=", 1) }},
	{"extra-argument", regexp.MustCompile(`\bf[0-9]+\(`), func(m string, t *rapid.T) string { return m + "1, " }},
	{"drop-return", regexp.MustCompile(`(?m)^\treturn [^\n]*\n\}`), func(m string, t *rapid.T) string { return "}" }},
	{"return-count", regexp.MustCompile(`(?m)^\treturn ([^\n]*)\n`), func(m string, t *rapid.T) string { return strings.TrimSuffix(m, "\n") + ", 1\n" }},
	{"nil-to-basic", regexp.MustCompile(`= u?int(8|16|32|64)?\([0-9]+\)\n`), func(m string, t *rapid.T) string { return "= nil\n" }},
	{"call-non-function", regexp.MustCompile(`\bprintln\((v[0-9]+)`), func(m string, t *rapid.T) string { return m + "()" }},
	{"break-outside-loop", regexp.MustCompile(`(?m)^func main\(\) \{\n`), func(m string, t *rapid.T) string { return m + "\tbreak\n" }},
	{"continue-outside-loop", regexp.MustCompile(`(?m)^func main\(\) \{\n`), func(m string, t *rapid.T) string { return m + "\tcontinue\n" }},
	{"unused-label", regexp.MustCompile(`(?m)^func main\(\) \{\n`), func(m string, t *rapid.T) string { return m + "L:\n" }},
	{"unused-variable", regexp.MustCompile(`(?m)^func main\(\) \{\n`), func(m string, t *rapid.T) string { return m + "\tvar unused int\n" }},
	{"invalid-conversion", regexp.MustCompile(`\bint\(v[0-9]+\)`), func(m string, t *rapid.T) string { return `int("s")` }},
	{"bool-conversion", regexp.MustCompile(`\buint8\(`), func(m string, t *rapid.T) string { return "bool(" }},
	{"mismatched-binary", regexp.MustCompile(` \+ u?int(8|16|32|64)?\(`), func(m string, t *rapid.T) string { return ` + string(` }},
	{"not-on-int", regexp.MustCompile(`\(-func\(\) int`), func(m string, t *rapid.T) string { return "(!func() int" }},
	{"duplicate-func", regexp.MustCompile(`(?m)^func main\(\) \{\n`), func(m string, t *rapid.T) string { return "func f0() {}\n\n" + m }},
	{"duplicate-case", regexp.MustCompile(`(?m)^(\s*)case ((?:u?int(?:8|16)?|string)?\(?[^:\n]+):\n`), func(m string, t *rapid.T) string { return m + m }},
	{"assign-to-call", regexp.MustCompile(`(?m)^(\s*)(v[0-9]+) = `), func(m string, t *rapid.T) string { return strings.Replace(m, " = ", "() = ", 1) }},
	{"missing-type", regexp.MustCompile(`\bS0\{`), func(m string, t *rapid.T) string { return "S9{" }},
	{"unknown-field", regexp.MustCompile(`\.A\b`), func(m string, t *rapid.T) string { return ".Zz" }},
	{"index-non-indexable", regexp.MustCompile(`\b(v[0-9]+)\[`), func(m string, t *rapid.T) string { return "true[" }},
	{"too-few-values", regexp.MustCompile(`\b(v[0-9]+), (v[0-9]+) := f`), func(m string, t *rapid.T) string { return strings.Replace(m, ":=", ", extra :=", 1) }},
	{"string-plus-int-var", regexp.MustCompile(`println\(`), func(m string, t *rapid.T) string { return `println("s" + 1 + ` }},
	{"shadowed-use-before-decl", regexp.MustCompile(`(?m)^func main\(\) \{\n`), func(m string, t *rapid.T) string { return m + "\tprintln(later)\n\tlater := 1\n\t_ = later\n" }},
	{"none", regexp.MustCompile(`^`), func(m string, t *rapid.T) string { return m }},
}

// Mutate applies one operator at one site drawn by rapid and returns the new source and
// the operator name ("none" when the operator has no site).
func Mutate(t *rapid.T, src string) (string, string) {
	m := mutators[rapid.IntRange(0, len(mutators)-1).Draw(t, "mutator")]
	locs := m.re.FindAllStringIndex(src, -1)
	if len(locs) == 0 {
		return src, "none"
	}
	l := locs[rapid.IntRange(0, len(locs)-1).Draw(t, "site")]
	return src[:l[0]] + m.repl(src[l[0]:l[1]], t) + src[l[1]:], m.name
}

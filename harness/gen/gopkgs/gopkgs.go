// Package gopkgs generates programs made of several packages (module "m": main, m/a, m/b,
// m/c) whose package-level declarations appear in an order unrelated to their dependencies,
// with init functions, closures and an optional native package "host".
package gopkgs

import (
	"fmt"
	"reflect"
	"regexp"
	"runtime"
	"sort"
	"strings"

	"github.com/open2b/scriggo/native"
	"pgregory.net/rapid"
)

// Pair is a native struct type.
type Pair struct {
	A int
	B string
}

func (p Pair) Sum() int { return p.A + len(p.B) }

// Inc has a pointer receiver.
func (p *Pair) Inc() int { p.A++; return p.A }

// PairType is the reflect type of Pair.
var PairType = reflect.TypeOf(Pair{})

// HostPackage returns a fresh native package "host" (gcref.HostSource is its gc counterpart).
func HostPackage() native.Packages {
	counter := 0
	return native.Packages{"host": native.Package{Name: "host", Declarations: native.Declarations{
		"Add":     func(a, b int) int { return a + b },
		"Join":    func(a, b string) string { return a + "+" + b },
		"Name":    "host",
		"Seven":   7,
		"Counter": &counter,
		"Size":    native.UntypedNumericConst("12"),
		"Pair":    PairType,
		"Yield":   runtime.Gosched,
	}}}
}

// Module is a generated program.
type Module struct {
	Files map[string]string // go.mod, main.go, a/a.go, …
	Pkgs  []string          // package paths: main, m/a, …
	// ImportOrderAgrees reports whether initialising the packages depth-first in the
	// source order of the import declarations gives the order the Go specification
	// prescribes (all packages sorted by import path; repeatedly the first one whose
	// imports are all initialised).
	ImportOrderAgrees bool
	// OrderAmbiguous: the order in which gc initialises the packages depends on whether a
	// package without init function has initialisation work at all (gc takes a package whose
	// variables are initialised statically as initialised from the start, so a package
	// importing it can go before the one that the specification's order puts first). For such a
	// module a transcript that differs from gc's in the order of the lines only is not judged.
	OrderAmbiguous bool
}

// initOrders returns the order of initialisation of the packages by the rule of the
// specification and by a depth-first visit in source order.
func initOrders(imports map[string][]string) (spec, dfs []string) {
	return initOrdersPre(imports, nil)
}

// initOrdersPre is initOrders with the packages of pre taken as initialised from the start:
// gc does so for a package without initialisation work (it has no init task), which can let a
// package importing it go before a package that the specification's order puts first.
func initOrdersPre(imports map[string][]string, pre map[string]bool) (spec, dfs []string) {
	var all []string
	for p := range imports {
		all = append(all, p)
	}
	// import paths: "m/a" < "m/b" < "m/c" < "main"
	key := func(p string) string {
		if p == "main" {
			return "main"
		}
		return "m/" + p
	}
	for i := 1; i < len(all); i++ {
		for j := i; j > 0 && key(all[j]) < key(all[j-1]); j-- {
			all[j], all[j-1] = all[j-1], all[j]
		}
	}
	done := map[string]bool{}
	for p := range pre {
		done[p] = true
	}
	for len(spec)+len(pre) < len(all) {
		for _, p := range all {
			if done[p] {
				continue
			}
			ready := true
			for _, q := range imports[p] {
				if !done[q] {
					ready = false
				}
			}
			if ready {
				done[p] = true
				spec = append(spec, p)
				break
			}
		}
	}
	seen := map[string]bool{}
	var visit func(p string)
	visit = func(p string) {
		if seen[p] {
			return
		}
		seen[p] = true
		for _, q := range imports[p] {
			visit(q)
		}
		dfs = append(dfs, p)
	}
	visit("main")
	return spec, dfs
}

// Gen draws a module of one to four packages. Inside a package the declarations
// appear in a random order that is unrelated to their dependencies: every declaration has a
// rank, and an initialiser or body refers only to declarations of lower rank (and to
// imported packages), so there is no initialisation cycle whatever the order.
func Gen(t *rapid.T) Module {
	names := []string{"main", "a", "b", "c"}
	n := rapid.IntRange(1, 4).Draw(t, "npkgs")
	names = names[:n]
	// package i may import packages j > i
	files := map[string]string{"go.mod": "module m\n"}
	var pkgs []string
	exported := map[string][]item{}
	graph := map[string][]string{}
	for i := n - 1; i >= 0; i-- {
		name := names[i]
		var imports []string
		for j := i + 1; j < n; j++ {
			if rapid.IntRange(0, 2).Draw(t, "imp") > 0 {
				imports = append(imports, names[j])
			}
		}
		useHost := rapid.IntRange(0, 2).Draw(t, "host") == 0
		imports = rapid.Permutation(imports).Draw(t, "imporder")
		graph[name] = imports
		src, items := genPackage(t, name, imports, useHost, exported)
		exported[name] = items
		if name == "main" {
			files["main.go"] = src
			pkgs = append(pkgs, "main")
		} else {
			files[name+"/"+name+".go"] = src
			pkgs = append(pkgs, "m/"+name)
		}
	}
	agrees, ambiguous := OrderInfo(files)
	return Module{Files: files, Pkgs: pkgs, ImportOrderAgrees: agrees, OrderAmbiguous: ambiguous}
}

var importRE = regexp.MustCompile(`(?m)^import "m/([a-z]+)"$`)

// OrderInfo derives, from the files of a module, the two facts about package initialisation
// order described at Module.ImportOrderAgrees and Module.OrderAmbiguous.
func OrderInfo(files map[string]string) (agrees, ambiguous bool) {
	graph := map[string][]string{}
	hasInitFunc := map[string]bool{}
	var names []string
	for path, src := range files {
		if !strings.HasSuffix(path, ".go") {
			continue
		}
		name := "main"
		if path != "main.go" {
			name = strings.SplitN(path, "/", 2)[0]
		}
		names = append(names, name)
		graph[name] = nil
		for _, m := range importRE.FindAllStringSubmatch(src, -1) {
			graph[name] = append(graph[name], m[1])
		}
	}
	sort.Strings(names)
	// packages that main does not reach are not part of the program
	spec, dfs := initOrders(graph)
	var specReached []string
	reached := map[string]bool{}
	for _, p := range dfs {
		reached[p] = true
	}
	for _, p := range spec {
		if reached[p] {
			specReached = append(specReached, p)
		}
	}
	// gc's order is ambiguous when it depends on whether a package without init function has
	// initialisation work (static initialisers leave it without an init task)
	var static []string
	for _, p := range names {
		if p != "main" && !hasInitFunc[p] {
			static = append(static, p)
		}
	}
	without := func(order []string, pre map[string]bool) string {
		var out []string
		for _, p := range order {
			if !pre[p] && reached[p] {
				out = append(out, p)
			}
		}
		return strings.Join(out, ",")
	}
	for mask := 1; mask < 1<<len(static); mask++ {
		pre := map[string]bool{}
		for i, p := range static {
			if mask&(1<<i) != 0 {
				pre[p] = true
			}
		}
		alt, _ := initOrdersPre(graph, pre)
		if without(alt, pre) != without(spec, pre) {
			ambiguous = true
		}
	}
	return strings.Join(specReached, ",") == strings.Join(dfs, ","), ambiguous
}

type item struct {
	kind string // const var func type
	name string
	typ  string // int | string (value type; for func the result, for type the underlying)
}

func genPackage(t *rapid.T, name string, imports []string, useHost bool, exported map[string][]item) (string, []item) {
	prefix := strings.ToUpper(name[:1])
	if name == "main" {
		prefix = "M"
	}
	nitems := rapid.IntRange(2, 9).Draw(t, "nitems")
	var items []item   // in rank order
	var decls []string // same order; shuffled below
	pickRef := func(typ string, lower []item) string {
		var cands []string
		for _, it := range lower {
			if it.typ != typ {
				continue
			}
			switch it.kind {
			case "const", "var":
				cands = append(cands, it.name)
			case "func":
				cands = append(cands, it.name+"()")
			case "type":
				if typ == "int" {
					cands = append(cands, it.name+"{A: 2, B: \"k\"}.A", "len("+it.name+"{B: \"kk\"}.B)")
				} else {
					cands = append(cands, it.name+"{A: 2, B: \"k\"}.B")
				}
			}
		}
		for _, imp := range imports {
			for _, it := range exported[imp] {
				if it.typ != typ {
					continue
				}
				switch it.kind {
				case "const", "var":
					cands = append(cands, imp+"."+it.name)
				case "func":
					cands = append(cands, imp+"."+it.name+"()")
				}
			}
		}
		if useHost {
			if typ == "int" {
				cands = append(cands, "host.Seven", "host.Add(1, 2)", "host.Size", "host.Pair{A: 1, B: \"xy\"}.Sum()")
			} else {
				cands = append(cands, "host.Name", "host.Join(\"a\", \"b\")")
			}
		}
		if len(cands) == 0 {
			return ""
		}
		return rapid.SampledFrom(cands).Draw(t, "ref")
	}
	var expr func(typ string, lower []item, depth int, constOnly bool) string
	expr = func(typ string, lower []item, depth int, constOnly bool) string {
		lit := func() string {
			if typ == "int" {
				return fmt.Sprint(rapid.IntRange(0, 9).Draw(t, "ilit"))
			}
			return fmt.Sprintf("%q", rapid.SampledFrom([]string{"p", "q", "rs", ""}).Draw(t, "slit"))
		}
		if constOnly {
			var cands []string
			for _, it := range lower {
				if it.kind == "const" && it.typ == typ {
					cands = append(cands, it.name)
				}
			}
			if len(cands) > 0 && rapid.IntRange(0, 1).Draw(t, "cref") == 0 {
				return rapid.SampledFrom(cands).Draw(t, "constref") + " + " + lit()
			}
			return lit()
		}
		switch k := rapid.IntRange(0, 5).Draw(t, "ek"); {
		case k == 0 || depth == 0 && k < 2:
			return lit()
		case k <= 3 || depth == 0:
			if r := pickRef(typ, lower); r != "" {
				return r
			}
			return lit()
		case k == 4:
			return expr(typ, lower, depth-1, false) + " + " + expr(typ, lower, depth-1, false)
		default:
			if typ == "int" {
				return "len(" + expr("string", lower, depth-1, false) + ")"
			}
			return "func() string { return " + expr("string", lower, depth-1, false) + " }()"
		}
	}
	hasInit := 0
	for i := 0; i < nitems; i++ {
		typ := rapid.SampledFrom([]string{"int", "int", "string"}).Draw(t, "ityp")
		kind := rapid.SampledFrom([]string{"var", "var", "var", "func", "func", "const", "type", "init"}).Draw(t, "ikind")
		nm := fmt.Sprintf("%s%d", prefix, i)
		lower := append([]item(nil), items...)
		switch kind {
		case "const":
			items = append(items, item{"const", nm, typ})
			decls = append(decls, fmt.Sprintf("const %s = %s", nm, expr(typ, lower, 0, true)))
		case "var":
			if rapid.IntRange(0, 3).Draw(t, "vmulti") == 0 {
				// one declaration, two or three variables
				k := rapid.IntRange(2, 3).Draw(t, "vnames")
				var ns, es []string
				for j := 0; j < k; j++ {
					n2 := fmt.Sprintf("%s%d%c", prefix, i, 'x'+rune(j))
					ns = append(ns, n2)
					es = append(es, expr(typ, lower, 1, false))
				}
				for _, n2 := range ns {
					items = append(items, item{"var", n2, typ})
				}
				if rapid.Bool().Draw(t, "vcall") {
					// initialised by one call with several results
					ts := strings.TrimSuffix(strings.Repeat(typ+", ", k), ", ")
					decls = append(decls, fmt.Sprintf("func %s%dh() (%s) {\n\treturn %s\n}", strings.ToLower(prefix), i, ts, strings.Join(es, ", ")))
					decls = append(decls, fmt.Sprintf("var %s = %s%dh()", strings.Join(ns, ", "), strings.ToLower(prefix), i))
					continue
				}
				decls = append(decls, fmt.Sprintf("var %s = %s", strings.Join(ns, ", "), strings.Join(es, ", ")))
				continue
			}
			items = append(items, item{"var", nm, typ})
			if rapid.IntRange(0, 3).Draw(t, "vtyped") == 0 {
				decls = append(decls, fmt.Sprintf("var %s %s = %s", nm, typ, expr(typ, lower, 2, false)))
			} else {
				decls = append(decls, fmt.Sprintf("var %s = %s", nm, expr(typ, lower, 2, false)))
			}
		case "func":
			items = append(items, item{"func", nm, typ})
			body := fmt.Sprintf("func %s() %s {\n\tprintln(\"in %s.%s\")\n", nm, typ, name, nm)
			if rapid.IntRange(0, 2).Draw(t, "closure") == 0 {
				// a closure capturing two locals
				body += fmt.Sprintf("\tx, y := %s, %s\n\tf := func() %s { return x + y }\n\treturn f()\n}", expr(typ, lower, 1, false), expr(typ, lower, 1, false), typ)
			} else {
				body += fmt.Sprintf("\treturn %s\n}", expr(typ, lower, 2, false))
			}
			decls = append(decls, body)
		case "type":
			items = append(items, item{"type", nm, "int"})
			// (method declarations are not supported by Scriggo)
			decls = append(decls, fmt.Sprintf("type %s struct {\n\tA int\n\tB string\n}", nm))
		case "init":
			hasInit++
			decls = append(decls, fmt.Sprintf("func init() {\n\tprintln(\"init %d of %s\", %s, %s)\n}", hasInit, name, expr("int", lower, 1, false), expr("string", lower, 1, false)))
		}
	}
	// random declaration order
	perm := rapid.Permutation(decls).Draw(t, "order")
	var b strings.Builder
	fmt.Fprintf(&b, "package %s\n\n", name)
	impLines := append([]string(nil), imports...)
	for i := range impLines {
		impLines[i] = "m/" + impLines[i]
	}
	if useHost {
		impLines = append(impLines, "host")
	}
	if useHost {
		// the native package has no initialisation of its own: its position is free
		k := rapid.IntRange(0, len(impLines)-1).Draw(t, "hostpos")
		copy(impLines[k+1:], impLines[k:len(impLines)-1])
		impLines[k] = "host"
	}
	for _, p := range impLines {
		fmt.Fprintf(&b, "import %q\n", p)
	}
	b.WriteString("\n")
	for _, d := range perm {
		b.WriteString(d + "\n\n")
	}
	// every import is used, every item is observable
	if name == "main" {
		b.WriteString("func main() {\n")
	} else {
		fmt.Fprintf(&b, "func Show%s() {\n", prefix)
	}
	for _, imp := range imports {
		fmt.Fprintf(&b, "\t%s.Show%s()\n", imp, strings.ToUpper(imp[:1]))
	}
	if useHost {
		b.WriteString("\tprintln(host.Name, *(&host.Counter))\n")
		if rapid.Bool().Draw(t, "hostmethods") {
			// methods of a native type: pointer receiver, method value bound to a copy
			v := "hp" + prefix
			fmt.Fprintf(&b, "\t%s := host.Pair{A: %d, B: \"xyz\"}\n", v, rapid.IntRange(0, 9).Draw(t, "hpa"))
			fmt.Fprintf(&b, "\t%sSum, %sInc := %s.Sum, %s.Inc\n", v, v, v, v)
			fmt.Fprintf(&b, "\t%s.A += 10\n", v)
			fmt.Fprintf(&b, "\tprintln(%sSum(), %sInc(), %s.Inc(), (&%s).Sum(), host.Pair.Sum(%s), %s.A)\n", v, v, v, v, v, v)
		}
	}
	for _, it := range items {
		switch it.kind {
		case "const", "var":
			fmt.Fprintf(&b, "\tprintln(%q, %s)\n", it.name, it.name)
		case "func":
			fmt.Fprintf(&b, "\tprintln(%q, %s())\n", it.name, it.name)
		case "type":
			fmt.Fprintf(&b, "\tprintln(%q, %s{A: 3}.A)\n", it.name, it.name)
		}
	}
	b.WriteString("}\n")
	return b.String(), items
}

// Package srcmut produces hostile sources for Build and BuildTemplate: arbitrary bytes,
// grammar-aware mutations and truncations of valid programs and templates (generated ones
// and the repository's own corpus), in every file format, alone or as files that extend,
// import and render each other.
package srcmut

import (
	"fmt"
	"os"
	"path/filepath"
	"sort"
	"strings"
	"sync"

	"pgregory.net/rapid"

	"verif/harness/gen/gomut"
	"verif/harness/gen/gopkgs"
	"verif/harness/gen/goprog"
	"verif/harness/gen/tmpl"
	"verif/harness/gen/tmplset"
	"verif/harness/lib/probe"
)

// Case is an input for probe.Build with the story of how it was made.
type Case struct {
	probe.Input
	Origin   string `json:"origin"`   // random-bytes | corpus | generated
	Mutation string `json:"mutation"` // operators applied, in order
}

var exts = []string{".html", ".html", ".css", ".js", ".json", ".md", ".txt"}

// dictionary of fragments that matter to the lexer and the parser.
var dict = []string{
	"{%", "%}", "{{", "}}", "{#", "#}", "{%%", "%%}", "{% end %}", "{% end", "{% if ", "{% else %}", "{% else if ", "{% for ", "{% for %}", "{% break %}", "{% continue %}",
	"{% macro M %}", "{% macro ", "{% end macro %}", "{% extends \"", "{% import \"", "{% import x \"", "{% render \"", "{{ render \"", "{% raw %}", "{% end raw %}", "{% raw code %}",
	"{% show ", "{% var ", "{% using %}", "{% using macro %}", "; using %}", "{{ itea }}", "{% select %}", "{% case ", "{% default %}", "{% switch ", "{% switch x := y.(type) %}", "{% fallthrough %}", "{% goto L %}", "{% L: %}", "{% defer ", "{% go ", "{% return %}", "{% func() {", "} %}", "{% type T ", "{% const c = ", "{% x := ", "{% x, y = ",
	"\"", "'", "`", "\\", "\\\"", "/*", "*/", "//", "<!--", "-->", "<script>", "</script>", "<style>", "</style>", "<script type=\"application/ld+json\">", "<![CDATA[", "]]>", "<a href=\"", "<a href='", "<a href=", "<img srcset=\"", "<div style=\"", "<p onclick=\"", "=", ">", "<", "</", "/>", "&", "&amp;", "&#", "&#x", "url(", "url(\"", "${", "}", "\n", "\r\n", "\r", "\t", "\x00", "\xef\xbb\xbf", "\xff", "\xc3", "\xe2\x80\xa8", "\u2028", "\u00a0", "\U0001F600",
	"(", ")", "[", "]", "{", "}", ",", ";", ":", ":=", "...", ".", "..", "->", "<-", "++", "--", "&&", "||", "!", "==", "!=", "<=", ">=", "<<", ">>", "&^", "+=", "<<=", "%", "*", "/", "+", "-", "^", "|",
	"func", "return", "var", "const", "type", "struct", "interface", "map", "chan", "package main", "import", "if", "else", "for", "range", "switch", "case", "default", "select", "go", "defer", "goto", "break", "continue", "fallthrough", "nil", "true", "false", "iota", "and", "or", "not", "contains", "in", "extends", "macro", "end",
	"/* è */", "/* 世界\n😀 */ ", "{# é #}", "// ö\n", "è", "世界", "\"\\u00e", "\"\\u00e9\"", "\"\\U0001F60", "\"\\U0001F600\"", "\"\\x4", "\"\\x41\"", "\"\\10", "\"\\101\"", "'\\u00e", "'\\x4", "'\\10", "\"\\", "0", "1", "0x", "0x1p-2", "1e", "1e+", "0b", "0o", "0_", "1_000", "9223372036854775808", "1e400", ".5", "5.", "1i", "'a'", "'\\", "'\\u", "\"\\x", "\"\\u12", "\"\\U0010FFFF\"", "x.(", "x.(type)", "x[", "x[:", "x[::]", "f(", "f(x...", "[]int{", "map[string]int{", "struct{", "[...]int{", "*", "&x", "<-ch", "ch <- ", "make(", "new(", "len(", "append(", "print(", "panic(", "recover()", "close(", "complex(", "real(", "imag(", "cap(", "copy(", "delete(", "unsafe",
}

func pick(t *rapid.T, label string, xs []string) string { return rapid.SampledFrom(xs).Draw(t, label) }

// richSeeds are hand-written valid sources that contain every literal and escape form the
// lexer knows, so that truncations and mutations land inside them.
var richTemplates = []string{
	"{# perché 世界 #}{{ /* è */ a /* 😀 */ + b }}{% x := /* 日本 */ 1 %}è世界 {{ \"é\" /* ü */ }}{# ö\n世界 #}{{ c }}\n{%%\n/* è\n世界 */ y := x /* ü */ * 2\n%%}",
	"{{ \"a\\u00e9b\\U0001F600c\\x41\\101\\n\\t\\\\\\\"\" }}{{ 'x' }}{{ '\\u00e9' }}{{ '\\U0001F600' }}{{ '\\x41' }}{{ '\\101' }}{{ '\\'' }}{{ `raw\n{{ }}` }}",
	"{% var a = 0x1F + 0b101 + 0o17 + 017 + 1_000 %}{% var f = 1.5e+10 + .5 + 5. + 0x1p-2 + 1e3 %}{% var c = 2i + 1.5i %}{{ a }}{{ f }}{{ c }}",
	"{%% \nvar s = \"\\u00e9\"\nvar r = '\\U0001F600'\n/* block\ncomment */\n// line comment\nx := 1\n%%}{# comment {# nested #} #}{% raw %}{{ \"\\u00\" }}{% end raw %}",
	"<a href=\"{{ \"\\u00e9\" }}?q={{ 'a' }}\" title='{{ \"\\x41\" }}'>x</a><script>var s = \"\\u00e9{{ \"\\u00e9\" }}\"; // {{ 1 }}\n/* {{ 2 }} */</script><style>a::after { content: \"\\e9 {{ \"\\U0001F600\" }}\" }</style>",
}

var richPrograms = []string{
	"package main\n\nfunc main() {\n\t/* perché no */ x := 1 /* 世界 */ + 2 /* 😀 */\n\t/* è\n\t世界 */ y := x /* ü */ * 2\n\ts := \"è世界\" /* é */ + `😀` // ö\n\t_, _ = y, s /* 日本 */\n}\n",
	"package main\n\nimport \"fmt\"\n\nconst s = \"a\\u00e9b\\U0001F600c\\x41\\101\\n\"\n\nvar r = []rune{'x', '\\u00e9', '\\U0001F600', '\\x41', '\\101', '\\''}\n\nfunc main() {\n\tfmt.Println(s, r, `raw\n`, 0x1F, 0b101, 0o17, 1_000, 1.5e+10, .5, 0x1p-2, 2i)\n\t/* block\n\tcomment */\n}\n",
}

// corpus is read once from the repository's own test data.
var (
	corpusOnce sync.Once
	corpusGo   []string
	corpusTmpl map[string][]string // extension -> sources
)

func repoDir() string {
	if d := os.Getenv("VERIF_REPO"); d != "" {
		return d
	}
	return "/repo"
}

func loadCorpus() {
	corpusTmpl = map[string][]string{}
	root := filepath.Join(repoDir(), "test", "compare", "testdata")
	var gos []string
	_ = filepath.Walk(root, func(p string, info os.FileInfo, err error) error {
		if err != nil || info.IsDir() || info.Size() > 6000 || info.Size() == 0 {
			return nil
		}
		ext := filepath.Ext(p)
		switch ext {
		case ".go":
			gos = append(gos, p)
		case ".html", ".css", ".js", ".json", ".md", ".txt":
			if b, err := os.ReadFile(p); err == nil {
				corpusTmpl[ext] = append(corpusTmpl[ext], string(b))
			}
		}
		return nil
	})
	sort.Strings(gos)
	// a spread of the many Go files
	for i := 0; i < len(gos); i += 7 {
		if b, err := os.ReadFile(gos[i]); err == nil && strings.Contains(string(b), "package main") {
			corpusGo = append(corpusGo, string(b))
		}
	}
	for _, v := range corpusTmpl {
		sort.Strings(v)
	}
	corpusTmpl[".html"] = append(richTemplates, corpusTmpl[".html"]...)
	corpusGo = append(richPrograms, corpusGo...)
}

// CorpusSize reports how many corpus sources were found.
func CorpusSize() (programs, templates int) {
	corpusOnce.Do(loadCorpus)
	n := 0
	for _, v := range corpusTmpl {
		n += len(v)
	}
	return len(corpusGo), n
}

// mutate applies 1..4 operators.
func mutate(t *rapid.T, src string) (string, string) {
	n := rapid.IntRange(1, 4).Draw(t, "nmut")
	var names []string
	for i := 0; i < n; i++ {
		var name string
		src, name = mutateOnce(t, src)
		names = append(names, name)
	}
	return src, strings.Join(names, "+")
}

func offset(t *rapid.T, label string, src string) int {
	return rapid.IntRange(0, len(src)).Draw(t, label)
}

func mutateOnce(t *rapid.T, src string) (string, string) {
	switch rapid.IntRange(0, 13).Draw(t, "op") {
	case 0:
		return src[:offset(t, "cut", src)], "truncate"
	case 1:
		a := offset(t, "a", src)
		b := a + rapid.IntRange(0, min(len(src)-a, 12)).Draw(t, "dellen")
		return src[:a] + src[b:], "delete"
	case 2:
		a := offset(t, "a", src)
		return src[:a] + pick(t, "frag", dict) + src[a:], "insert-fragment"
	case 3:
		a := offset(t, "a", src)
		b := a + rapid.IntRange(0, min(len(src)-a, 6)).Draw(t, "replen")
		return src[:a] + pick(t, "frag", dict) + src[b:], "replace-with-fragment"
	case 4:
		if len(src) == 0 {
			return src, "noop"
		}
		a := rapid.IntRange(0, len(src)-1).Draw(t, "a")
		return src[:a] + string([]byte{rapid.Byte().Draw(t, "byte")}) + src[a+1:], "flip-byte"
	case 5:
		a := offset(t, "a", src)
		b := a + rapid.IntRange(0, min(len(src)-a, 40)).Draw(t, "duplen")
		return src[:b] + src[a:b] + src[b:], "duplicate"
	case 6:
		// swap two delimiters
		pairs := [][2]string{{"{%", "{{"}, {"%}", "}}"}, {"{{", "{#"}, {"\"", "'"}, {"(", "["}, {"{", "("}, {"<", ">"}, {"end", "else"}, {"if", "for"}}
		p := pairs[rapid.IntRange(0, len(pairs)-1).Draw(t, "pair")]
		if i := strings.Index(src, p[0]); i >= 0 {
			k := rapid.IntRange(0, strings.Count(src, p[0])-1).Draw(t, "which")
			idx := 0
			for j := 0; j <= k; j++ {
				idx = strings.Index(src[i:], p[0]) + i
				i = idx + len(p[0])
			}
			return src[:idx] + p[1] + src[idx+len(p[0]):], "swap-delimiter"
		}
		return src, "noop"
	case 7:
		// deep nesting
		depth := rapid.SampledFrom([]int{10, 100, 1000, 5000}).Draw(t, "depth")
		open := pick(t, "nest", []string{"(", "[", "{% if true %}", "{{ (", "[]", "*", "-", "!", "func() {", "{% macro M %}", "<div>", "{% for %}", "map[", "f("})
		a := offset(t, "a", src)
		return src[:a] + strings.Repeat(open, depth) + src[a:], "deep-nesting"
	case 8:
		// long token
		n := rapid.SampledFrom([]int{100, 5000, 70000}).Draw(t, "toklen")
		c := pick(t, "tokchar", []string{"a", "9", " ", "\"", "é", "\n", "."})
		a := offset(t, "a", src)
		return src[:a] + strings.Repeat(c, n) + src[a:], "long-run"
	case 9:
		// line ending conversion
		if rapid.Bool().Draw(t, "crlf") {
			return strings.ReplaceAll(src, "\n", "\r\n"), "crlf"
		}
		return strings.ReplaceAll(src, "\n", "\r"), "cr"
	case 10:
		return "\xef\xbb\xbf" + src, "bom"
	case 11:
		// move a chunk
		a := offset(t, "a", src)
		b := a + rapid.IntRange(0, min(len(src)-a, 30)).Draw(t, "movelen")
		chunk := src[a:b]
		rest := src[:a] + src[b:]
		c := offset(t, "c", rest)
		return rest[:c] + chunk + rest[c:], "move"
	case 12:
		// unterminated construct at the end
		return src + pick(t, "tail", []string{"{{", "{%", "{#", "{% if", "{{ \"", "{{ `", "{{ '", "{% raw %}", "<script>", "<style>", "<!--", "<a href=\"", "{{ f(", "{% macro", "/*", "\"", "`", "func(", "{", "{% end"}), "unterminated-tail"
	default:
		return src, "noop"
	}
}

// seedTemplate returns a valid-looking template source and its file name.
func seedTemplate(t *rapid.T) (name, src, origin string) {
	corpusOnce.Do(loadCorpus)
	ext := pick(t, "ext", exts)
	if c := corpusTmpl[ext]; len(c) > 0 && rapid.IntRange(0, 2).Draw(t, "fromcorpus") == 0 {
		return "index" + ext, c[rapid.IntRange(0, len(c)-1).Draw(t, "corpusidx")], "corpus"
	}
	format := strings.TrimPrefix(ext, ".")
	if format == "txt" {
		format = "text"
	}
	d := tmpl.Gen(t, format, 5, tmpl.Off{})
	src = d.Src
	// the holes v0.. become uses of the declared global v
	for i := range d.Holes {
		src = strings.ReplaceAll(src, fmt.Sprintf("v%d", i), "v")
	}
	return "index" + ext, src, "generated"
}

// Gen draws a case.
func Gen(t *rapid.T) Case {
	corpusOnce.Do(loadCorpus)
	switch rapid.IntRange(0, 11).Draw(t, "class") {
	case 0:
		// arbitrary bytes as a template of any format
		b := rapid.SliceOfN(rapid.Byte(), 0, 200).Draw(t, "bytes")
		name := "index" + pick(t, "ext", exts)
		return Case{Input: probe.Input{Kind: "template", Files: map[string]string{name: string(b)}, Main: name}, Origin: "random-bytes", Mutation: "none"}
	case 1:
		// arbitrary bytes as a program, half of the time after a valid header
		b := rapid.SliceOfN(rapid.Byte(), 0, 200).Draw(t, "bytes")
		src := string(b)
		if rapid.Bool().Draw(t, "header") {
			src = "package main\n\nfunc main() {\n" + src
		}
		return Case{Input: probe.Input{Kind: "program", Files: map[string]string{"go.mod": "module m\n", "main.go": src}}, Origin: "random-bytes", Mutation: "none"}
	case 2:
		// fragments of the dictionary glued together
		n := rapid.IntRange(1, 30).Draw(t, "nfrag")
		var b strings.Builder
		for i := 0; i < n; i++ {
			b.WriteString(pick(t, "frag", dict))
			if rapid.Bool().Draw(t, "space") {
				b.WriteString(" ")
			}
		}
		if rapid.Bool().Draw(t, "asprogram") {
			return Case{Input: probe.Input{Kind: "program", Files: map[string]string{"go.mod": "module m\n", "main.go": "package main\n\n" + b.String()}}, Origin: "fragments", Mutation: "none"}
		}
		name := "index" + pick(t, "ext", exts)
		return Case{Input: probe.Input{Kind: "template", Files: map[string]string{name: b.String()}, Main: name}, Origin: "fragments", Mutation: "none"}
	case 3, 4:
		// a program: generated or from the corpus, mutated
		var src, origin string
		if len(corpusGo) > 0 && rapid.IntRange(0, 2).Draw(t, "fromcorpus") == 0 {
			src, origin = corpusGo[rapid.IntRange(0, len(corpusGo)-1).Draw(t, "corpusidx")], "corpus"
		} else {
			src, origin = goprog.Gen(t, goprog.Off{}).Src, "generated"
		}
		var mname string
		if rapid.IntRange(0, 3).Draw(t, "typed") == 0 {
			src, mname = gomut.Mutate(t, src)
			mname = "type:" + mname
		} else {
			src, mname = mutate(t, src)
		}
		return Case{Input: probe.Input{Kind: "program", Files: map[string]string{"go.mod": "module m\n", "main.go": src}}, Origin: origin, Mutation: mname}
	case 5:
		// a module of several packages, one file mutated
		m := gopkgs.Gen(t)
		var names []string
		for n := range m.Files {
			names = append(names, n)
		}
		sort.Strings(names)
		victim := pick(t, "victim", names)
		files := map[string]string{}
		for n, s := range m.Files {
			files[n] = strings.ReplaceAll(s, "import \"host\"\n", "") // no native package here: the import fails cleanly
		}
		var mname string
		files[victim], mname = mutate(t, m.Files[victim])
		return Case{Input: probe.Input{Kind: "program", Files: files}, Origin: "generated", Mutation: victim + ":" + mname}
	case 6, 7:
		// a template set, one file mutated
		ts := tmplset.Gen(t)
		var names []string
		for n := range ts.Files {
			names = append(names, n)
		}
		sort.Strings(names)
		victim := pick(t, "victim", names)
		files := map[string]string{}
		for n, s := range ts.Files {
			files[n] = s
		}
		var mname string
		files[victim], mname = mutate(t, ts.Files[victim])
		return Case{Input: probe.Input{Kind: "template", Files: files, Main: ts.Main}, Origin: "generated", Mutation: victim + ":" + mname}
	case 8:
		// files of different formats that extend/import/render each other, all mutated
		files := map[string]string{}
		var names []string
		n := rapid.IntRange(2, 4).Draw(t, "nfiles")
		for i := 0; i < n; i++ {
			_, src, _ := seedTemplate(t)
			name := fmt.Sprintf("f%d%s", i, pick(t, "ext", exts))
			names = append(names, name)
			files[name] = src
		}
		var muts []string
		for i, name := range names {
			other := names[(i+1)%len(names)]
			link := pick(t, "link", []string{"{{ render \"%s\" }}", "{%% import \"%s\" %%}", "{%% extends \"%s\" %%}", "{%% import p \"%s\" %%}", "{{ render \"/%s\" }}", "{{ render \"../%s\" }}", "%s"})
			src := files[name]
			a := offset(t, "linkat", src)
			if strings.HasPrefix(link, "{%% extends") {
				a = 0
			}
			src = src[:a] + fmt.Sprintf(link, other) + src[a:]
			if rapid.Bool().Draw(t, "mutatefile") {
				var mn string
				src, mn = mutate(t, src)
				muts = append(muts, name+":"+mn)
			}
			files[name] = src
		}
		return Case{Input: probe.Input{Kind: "template", Files: files, Main: names[0]}, Origin: "generated", Mutation: strings.Join(muts, ";")}
	default:
		// a single template, mutated
		name, src, origin := seedTemplate(t)
		src, mname := mutate(t, src)
		return Case{Input: probe.Input{Kind: "template", Files: map[string]string{name: src}, Main: name}, Origin: origin, Mutation: mname}
	}
}

// Seeds returns valid sources for the truncation sweep: name, kind and text.
func Seeds(t *rapid.T) Case {
	corpusOnce.Do(loadCorpus)
	if rapid.IntRange(0, 2).Draw(t, "kind") == 0 {
		var src, origin string
		if len(corpusGo) > 0 && rapid.Bool().Draw(t, "fromcorpus") {
			src, origin = corpusGo[rapid.IntRange(0, len(corpusGo)-1).Draw(t, "corpusidx")], "corpus"
		} else {
			src, origin = goprog.Gen(t, goprog.Off{}).Src, "generated"
		}
		return Case{Input: probe.Input{Kind: "program", Files: map[string]string{"go.mod": "module m\n", "main.go": src}}, Origin: origin, Mutation: "none"}
	}
	name, src, origin := seedTemplate(t)
	return Case{Input: probe.Input{Kind: "template", Files: map[string]string{name: src}, Main: name}, Origin: origin, Mutation: "none"}
}

// Rich returns the i-th hand-written source holding all literal and escape forms.
func Rich(i int) Case {
	n := len(richTemplates) + len(richPrograms)
	i = ((i % n) + n) % n
	if i < len(richTemplates) {
		return Case{Input: probe.Input{Kind: "template", Files: map[string]string{"index.html": richTemplates[i]}, Main: "index.html"}, Origin: "rich", Mutation: "none"}
	}
	return Case{Input: probe.Input{Kind: "program", Files: map[string]string{"go.mod": "module m\n", "main.go": richPrograms[i-len(richTemplates)]}}, Origin: "rich", Mutation: "none"}
}

// Package oddops enumerates small programs that put an operand of every sort (values of each kind,
// the predeclared nil, a type, a builtin, a call without results, a call with two results, the blank
// identifier, a label, iota outside a constant declaration) in every syntactic position that takes
// an expression (statements, operators, builtins, composite literals, conversions, channel
// operations, declarations). Most of the programs are ill-typed: they exercise the error paths of
// the type checker, where an operand without a type or without a value is easily dereferenced.
package oddops

import "strings"

// Operands are the expressions put in the positions.
var Operands = []string{
	"v()", "int", "T", "len", "[]int", "_", "two()", "nil", "T{}", "v", "L", "iota",
	"1", "1.5", "'a'", "1i", "\"s\"", "true", "[]int{1}", "map[string]int{}", "func() {}", "&T{}", "new(int)", "make(chan int, 1)", "struct{}{}",
	"[2]int{}", "interface{}(1)", "error(nil)", "x0", "T.a", "(*T)(nil)", "1 << 70", "-1", "append", "println", "main", "int(x0)", "one()", "3", "4",
}

// Contexts are the positions; every %s is replaced by the operand.
var Contexts = []string{
	"x := %s; _ = x", "var x = %s; _ = x", "_ = %s", "if %s {}", "for %s {}", "switch %s {}", "switch %s.(type) {}", "for range %s {}", "for i := range %s { _ = i }",
	"for i, j := range %s { _, _ = i, j }", "println(%s)", "v2(%s)", "return %s", "%s++", "%s = 1", "%s += 1", "%s <- 1", "<-%s", "_ = <-%s", "go %s", "defer %s", "%s()", "_ = %s.x", "_ = %s[0]", "_ = %s[1:]", "_ = %s[:1:2]",
	"_ = *%s", "_ = &%s", "_ = -%s", "_ = !%s", "_ = ^%s", "_ = %s + 1", "_ = 1 + %s", "_ = %s == %s", "_ = %s < %s", "_ = %s << 1", "_ = 1 << %s", "_ = %s && true", "_ = %s % 2",
	"_ = []int{%s}", "_ = []interface{}{%s}", "_ = map[string]int{\"a\": %s}", "_ = map[int]int{%s: 1}", "_ = map[interface{}]int{%s: 1}", "_ = [%s]int{}", "_ = [...]int{%s: 1}", "_ = T{a: %s}", "_ = T{%s}",
	"_ = %s.(int)", "_ = int(%s)", "_ = string(%s)", "_ = float64(%s)", "_ = []byte(%s)", "_ = interface{}(%s)", "_ = (*int)(%s)", "_ = T(%s)",
	"_ = len(%s)", "_ = cap(%s)", "_ = append(%s)", "_ = append(%s, 1)", "_ = append([]int{}, %s)", "_ = append([]int{}, %s...)", "_ = append([]interface{}{}, %s)", "_ = copy(%s, %s)", "_ = copy([]int{}, %s)",
	"delete(%s, 1)", "delete(map[int]int{}, %s)", "close(%s)", "_ = new(%s)", "_ = make(%s)", "_ = make(%s, 1)", "_ = make([]int, %s)", "_ = make([]int, 1, %s)", "_ = make(chan int, %s)", "panic(%s)", "_ = complex(%s, 1)", "_ = complex(1, %s)", "_ = real(%s)", "_ = imag(%s)", "print(%s, %s)", "_ = recover(%s)",
	"select { case <-%s: }", "select { case %s <- 1: }", "select { case x := <-%s: _ = x }", "select { case x0 = <-%s: }", "var a [2]int; _ = a[%s]", "var a []int; _ = a[%s:]", "var a []int; _ = a[:%s:%s]", "var s string; _ = s[%s]", "var m map[string]int; _ = m[%s]",
	"ch := make(chan int); ch <- %s", "var f func(...int); f(%s...)", "var f func(...int); f(1, %s)", "const c = %s; _ = c", "const c int = %s; _ = c", "var x int = %s; _ = x", "var x interface{} = %s; _ = x", "var x error = %s; _ = x", "type U %s", "type U = %s", "type U []%s", "type U struct{ f %s }", "type U func(%s) %s", "var x %s; _ = x", "var x [2]%s; _ = x", "var x map[%s]int; _ = x", "var x chan %s; _ = x", "var x *%s; _ = x",
	"x0 = %s, 1", "x0, y := %s, 1, 2; _ = y", "var y = %s, 1; _ = y", "y := %s, 1; _ = y", "var y, z = %s, 1, 2; _, _ = y, z", "x0, x0 = %s", "return %s, 1", "v2(%s, 1)", "x0 = %s, %s",
	"_ = [][2]int{{%s, 2, 3}}", "_ = [2]int{%s, 2, 3}", "_ = [3]int{}[%s]", "var a3 [3]int; _ = a3[:%s]",
	"x, y := %s, 1; _, _ = x, y", "var x, y = %s; _, _ = x, y", "x, y := 1, %s; _, _ = x, y", "x0, y := %s; _ = y", "if x := %s; x {}", "switch x := %s; x {}", "switch x := %s.(type) { default: _ = x }", "switch { case %s: }", "switch 1 { case %s: }", "switch interface{}(1).(type) { case %s: }", "for i := %s; ; {}", "for ; ; %s {}", "L2: for { break %s }", "goto %s", "func() { %s }()", "func(a %s) {}(1)", "_ = func() %s { return 1 }", "{ %s }",
}

// Program returns the program with operand op in position ctx.
func Program(ctx, op string) string {
	return "package main\n\ntype T struct{ a int }\n\nvar x0 int\n\nfunc v() {}\nfunc v2(int) {}\nfunc one() int { return 1 }\nfunc two() (int, int) { return 1, 2 }\n\nfunc main() {\nL:\n\tfor {\n\t\tbreak L\n\t}\n\t_ = x0\n\t" + strings.ReplaceAll(ctx, "%s", op) + "\n}\n"
}

// TemplateContexts are positions that exist only in templates; %s is replaced by the operand.
var TemplateContexts = []string{
	"{{ %s }}", "{% if %s %}a{% end %}", "{% if not %s %}a{% end %}", "{% if %s and true %}a{% end %}", "{% if true or %s %}a{% end %}", "{% if %s %}a{% else if %s %}b{% else %}c{% end %}",
	"{% for %s %}a{% end %}", "{% for v in %s %}{{ v }}{% end %}", "{% for i, v in %s %}{{ i }}{% end %}", "{% for _, v := range %s %}{{ v }}{% else %}e{% end %}", "{% switch %s %}{% case 1 %}a{% end %}", "{% switch x := %s.(type) %}{% default %}{{ x }}{% end %}",
	"{% show %s %}", "{% show %s, %s %}", "{{ %s contains 1 }}", "{{ \"s\" contains %s }}", "{{ %s not contains %s }}", "{{ %s default 1 }}", "{{ x0 default %s }}", "{{ render %s }}", "{% var y = %s %}{{ y }}", "{% y := %s %}{{ y }}",
	"<a href=\"{{ %s }}\">x</a>", "<a href={{ %s }}>x</a>", "<p {{ %s }}>", "<script>var a = {{ %s }};</script>", "<script>var a = \"{{ %s }}\";</script>", "<style>p { color: {{ %s }}; }</style>", "<style>p { font-family: \"{{ %s }}\"; }</style>",
	"{% macro M(a int) %}{{ a }}{% end %}{{ M(%s) }}", "{% macro M %}{{ %s }}{% end %}{{ M() }}", "{% macro M(a %s) %}{% end %}", "{% macro M %s %}{% end %}", "{{ M2(%s) }}{% macro M2(a ...int) %}{{ len(a) }}{% end %}", "{% using %}{{ %s }}{% end using %}", "{{ %s; using }}x{% end %}",
	"{% select %}{% case <-%s %}a{% end %}", "{% defer %s %}", "{% go %s %}", "{% raw %s %}{% end %}", "{% extends %s %}", "{% import %s %}", "{% import p %s %}", "{# %s #}",
}

// TemplateProgram returns the HTML template with operand op in position ctx.
func TemplateProgram(ctx, op string) string {
	return "{% type T struct{ a int } %}{% var x0 int %}{% var v = func() {} %}{% var v2 = func(int) {} %}{% var two = func() (int, int) { return 1, 2 } %}{% var one = func() int { return 1 } %}" + strings.ReplaceAll(ctx, "%s", op)
}

// Package exprgen generates syntactically valid Scriggo expressions and simple statements
// with a wide spread of syntax (operator precedence and associativity, unary chains,
// parentheses, conversions, composite literals, function, channel, map, array and struct
// types, slicing, type assertions, template operators). Only the syntax matters: the
// results are parsed, never type checked.
package exprgen

import (
	"fmt"
	"strings"

	"pgregory.net/rapid"
)

type gen struct {
	t        *rapid.T
	template bool // template-only operators allowed
}

func (g *gen) n(label string, lo, hi int) int { return rapid.IntRange(lo, hi).Draw(g.t, label) }
func (g *gen) pick(label string, xs []string) string {
	return rapid.SampledFrom(xs).Draw(g.t, label)
}

var idents = []string{"a", "b", "x", "y", "foo", "_x", "ñ", "T", "pkg", "v1"}
var basicLits = []string{"0", "1", "42", "0x1F", "0b101", "0o17", "1_000", "3.14", ".5", "1e3", "0x1p-2", "2i", "'a'", "'\\n'", "'\\u00e0'", `"s"`, `""`, `"a\tb\"c"`, "`raw`", "`a\nb`", "true", "false", "nil"}
var binOps = []string{"+", "-", "*", "/", "%", "&", "|", "^", "&^", "<<", ">>", "==", "!=", "<", "<=", ">", ">=", "&&", "||"}
var tmplBinOps = []string{"and", "or", "contains", "not contains"}
var unOps = []string{"-", "+", "!", "^", "*", "&", "<-"}

// Type draws a type expression.
func (g *gen) typ(depth int) string {
	if depth <= 0 {
		return g.pick("basetype", []string{"int", "string", "T", "pkg.T", "bool", "float64", "interface{}", "error"})
	}
	switch g.n("typekind", 0, 11) {
	case 0:
		return "[]" + g.typ(depth-1)
	case 1:
		return fmt.Sprintf("[%d]%s", g.n("alen", 0, 3), g.typ(depth-1))
	case 2:
		return "map[" + g.typ(depth-1) + "]" + g.typ(depth-1)
	case 3:
		return "*" + g.typ(depth-1)
	case 4:
		return g.pick("chandir", []string{"chan ", "chan<- ", "<-chan "}) + g.typ(depth-1)
	case 5:
		return g.funcType(depth - 1)
	case 6:
		n := g.n("nfields", 0, 3)
		var fs []string
		for i := 0; i < n; i++ {
			switch g.n("fieldkind", 0, 3) {
			case 0:
				fs = append(fs, g.typ(0)) // embedded
			case 1:
				fs = append(fs, fmt.Sprintf("F%d, G%d %s", i, i, g.typ(depth-1)))
			case 2:
				fs = append(fs, fmt.Sprintf("F%d %s `json:\"f%d\"`", i, g.typ(depth-1), i))
			default:
				fs = append(fs, fmt.Sprintf("F%d %s", i, g.typ(depth-1)))
			}
		}
		return "struct{ " + strings.Join(fs, "; ") + " }"
	case 7:
		return "[...]" + g.typ(depth-1)
	case 8:
		return "(" + g.typ(depth-1) + ")"
	default:
		return g.typ(0)
	}
}

func (g *gen) funcType(depth int) string {
	np := g.n("nparams", 0, 3)
	var ps []string
	named := g.n("named", 0, 1) == 0
	for i := 0; i < np; i++ {
		t := g.typ(depth)
		if i == np-1 && g.n("variadic", 0, 3) == 0 {
			t = "..." + t
		}
		if named {
			ps = append(ps, fmt.Sprintf("p%d %s", i, t))
		} else {
			ps = append(ps, t)
		}
	}
	s := "func(" + strings.Join(ps, ", ") + ")"
	switch g.n("nresults", 0, 3) {
	case 1:
		s += " " + g.typ(depth)
	case 2:
		s += " (" + g.typ(depth) + ", " + g.typ(depth) + ")"
	case 3:
		s += " (r " + g.typ(depth) + ", err error)"
	}
	return s
}

// Expr draws an expression.
func (g *gen) expr(depth int) string {
	if depth <= 0 {
		if g.n("leaf", 0, 1) == 0 {
			return g.pick("ident", idents)
		}
		return g.pick("lit", basicLits)
	}
	switch g.n("exprkind", 0, 19) {
	case 0, 1, 2:
		op := g.pick("binop", binOps)
		if g.template && g.n("tmplop", 0, 3) == 0 {
			op = g.pick("tbinop", tmplBinOps)
		}
		return g.expr(depth-1) + " " + op + " " + g.expr(depth-1)
	case 3:
		op := g.pick("unop", unOps)
		if g.template && g.n("tmplnot", 0, 4) == 0 {
			return "not " + g.expr(depth-1)
		}
		return op + g.expr(depth-1)
	case 4:
		return "(" + g.expr(depth-1) + ")"
	case 5:
		n := g.n("nargs", 0, 3)
		var as []string
		for i := 0; i < n; i++ {
			as = append(as, g.expr(depth-1))
		}
		s := g.expr(depth-1) + "(" + strings.Join(as, ", ")
		if n > 0 && g.n("spread", 0, 4) == 0 {
			s += "..."
		}
		return s + ")"
	case 6:
		return g.expr(depth-1) + "[" + g.expr(depth-1) + "]"
	case 7:
		switch g.n("slicing", 0, 4) {
		case 0:
			return g.expr(depth-1) + "[:]"
		case 1:
			return g.expr(depth-1) + "[" + g.expr(depth-1) + ":]"
		case 2:
			return g.expr(depth-1) + "[:" + g.expr(depth-1) + "]"
		case 3:
			return g.expr(depth-1) + "[" + g.expr(depth-1) + ":" + g.expr(depth-1) + "]"
		default:
			return g.expr(depth-1) + "[" + g.expr(depth-1) + ":" + g.expr(depth-1) + ":" + g.expr(depth-1) + "]"
		}
	case 8:
		return g.expr(depth-1) + "." + g.pick("field", []string{"F", "Name", "x", "ñ"})
	case 9:
		return g.expr(depth-1) + ".(" + g.typ(1) + ")"
	case 10:
		t := g.typ(2)
		if strings.Contains(t, "func(") || strings.HasPrefix(t, "*") || strings.Contains(t, "chan") {
			t = "(" + t + ")" // func() (x) would read (x) as the result list
		}
		return t + "(" + g.expr(depth-1) + ")"
	case 11:
		// composite literal
		t := g.pick("comptype", []string{"[]int", "[3]string", "[...]T", "map[string]int", "T", "pkg.T", "struct{ A int }", "[][]int", "map[string][]T", "[]*T"})
		n := g.n("nelems", 0, 3)
		var es []string
		keyed := g.n("keyed", 0, 2) == 0
		for i := 0; i < n; i++ {
			v := g.expr(depth - 1)
			if strings.HasPrefix(t, "[][]") || strings.HasPrefix(t, "map[string][]") || strings.HasPrefix(t, "[]*") {
				if g.n("elide", 0, 1) == 0 {
					v = "{" + g.expr(0) + "}"
				}
			}
			if keyed {
				es = append(es, g.pick("key", []string{"A", `"k"`, "0", "i + 1"})+": "+v)
			} else {
				es = append(es, v)
			}
		}
		return t + "{" + strings.Join(es, ", ") + "}"
	case 12:
		// function literal
		body := ""
		switch g.n("fbody", 0, 3) {
		case 0:
			body = " return " + g.expr(depth-1) + " "
		case 1:
			body = " x := " + g.expr(depth-1) + "; _ = x "
		case 2:
			body = " "
		default:
			body = " if " + g.expr(depth-1) + " { return }; " + g.simpleStmt(depth-1) + " "
		}
		return g.funcType(1) + " {" + body + "}"
	case 13:
		return "&" + g.pick("addrtype", []string{"T", "pkg.T", "[]int"}) + "{" + g.expr(depth-1) + "}"
	case 14:
		return g.typ(2) + "{}"
	case 15:
		if g.template {
			switch g.n("tmplexpr", 0, 3) {
			case 0:
				return g.expr(depth-1) + " default " + g.expr(depth-1)
			case 1:
				return "render \"" + g.pick("path", []string{"a.html", "/b/c.md", "../x.txt"}) + "\""
			case 2:
				// a macro type is only meaningful where a type is expected
				return "[]macro(" + g.pick("mparam", []string{"", "a int", "a, b string"}) + ") " + g.pick("mtype", []string{"html", "string", "markdown", "js", "css", "json"}) + "{}"
			default:
				return "itea"
			}
		}
		return g.expr(depth - 1)
	case 16:
		return "<-" + g.expr(depth-1)
	case 17:
		return "*" + g.expr(depth-1) + "." + g.pick("field", []string{"F", "x"})
	default:
		return g.expr(0)
	}
}

// simpleStmt draws a statement that fits on one line.
func (g *gen) simpleStmt(depth int) string {
	switch g.n("stmtkind", 0, 17) {
	case 0:
		return g.pick("ident", idents) + " := " + g.expr(depth)
	case 1:
		return g.pick("ident", idents) + ", " + g.pick("ident2", idents) + " := " + g.expr(depth) + ", " + g.expr(depth)
	case 2:
		op := g.pick("assignop", []string{"=", "+=", "-=", "*=", "/=", "%=", "&=", "|=", "^=", "&^=", "<<=", ">>="})
		return g.lhs(depth) + " " + op + " " + g.expr(depth)
	case 3:
		return g.lhs(depth) + g.pick("incdec", []string{"++", "--"})
	case 4:
		return g.lhs(depth) + ", " + g.lhs(depth) + " = " + g.expr(depth) + ", " + g.expr(depth)
	case 5:
		return "var " + g.pick("ident", idents) + " " + g.typ(2)
	case 6:
		return "var " + g.pick("ident", idents) + ", " + g.pick("ident2", idents) + " = " + g.expr(depth) + ", " + g.expr(depth)
	case 7:
		return "var " + g.pick("ident", idents) + " " + g.typ(1) + " = " + g.expr(depth)
	case 8:
		return "const " + g.pick("ident", idents) + " = " + g.expr(depth)
	case 9:
		return "type " + g.pick("tname", []string{"T", "U", "Pt"}) + g.pick("alias", []string{" ", " = "}) + g.typ(2)
	case 10:
		return g.expr(depth) + " <- " + g.expr(depth)
	case 11:
		return "defer " + g.expr(depth) + "(" + g.expr(0) + ")"
	case 12:
		return "go " + g.expr(depth) + "()"
	case 13:
		return "return " + g.expr(depth)
	case 14:
		return g.pick("jump", []string{"break", "continue", "fallthrough", "goto L", "break L", "continue L", "return"})
	case 15:
		return g.expr(depth) + "(" + g.expr(depth) + ")"
	case 16:
		return "_, ok := " + g.expr(depth) + ".(" + g.typ(1) + ")"
	default:
		return "_ = " + g.expr(depth)
	}
}

func (g *gen) lhs(depth int) string {
	switch g.n("lhskind", 0, 4) {
	case 0:
		return g.pick("ident", idents)
	case 1:
		return g.pick("ident", idents) + "[" + g.expr(depth-1) + "]"
	case 2:
		return g.pick("ident", idents) + ".F"
	case 3:
		return "*" + g.pick("ident", idents)
	default:
		return "_"
	}
}

// Expr draws a template or program expression.
func Expr(t *rapid.T, template bool, depth int) string {
	g := &gen{t: t, template: template}
	return g.expr(depth)
}

// Stmt draws a one-line statement.
func Stmt(t *rapid.T, template bool, depth int) string {
	g := &gen{t: t, template: template}
	return g.simpleStmt(depth)
}

// Type draws a type expression.
func Type(t *rapid.T, depth int) string {
	g := &gen{t: t}
	return g.typ(depth)
}

// Template draws a template source made of shows and statements, including block
// statements with bodies.
func Template(t *rapid.T) string {
	g := &gen{t: t, template: true}
	var b strings.Builder
	n := g.n("nitems", 1, 6)
	for i := 0; i < n; i++ {
		g.item(&b, 2)
	}
	return b.String()
}

func (g *gen) item(b *strings.Builder, depth int) {
	switch g.n("item", 0, 15) {
	case 0, 1, 2:
		b.WriteString("{{ " + g.expr(g.n("edepth", 0, 3)) + " }}")
	case 3, 4:
		b.WriteString("{% " + g.simpleStmt(g.n("sdepth", 0, 2)) + " %}")
	case 5:
		b.WriteString("text " + g.pick("word", []string{"a", "<b>", "é", "\n", "  "}))
	case 6:
		if depth <= 0 {
			b.WriteString("x")
			return
		}
		b.WriteString("{% if " + g.expr(1) + " %}")
		g.item(b, depth-1)
		if g.n("else", 0, 2) == 0 {
			b.WriteString("{% else if " + g.expr(1) + " %}")
			g.item(b, depth-1)
		}
		if g.n("else2", 0, 1) == 0 {
			b.WriteString("{% else %}")
			g.item(b, depth-1)
		}
		b.WriteString("{% end %}")
	case 7:
		if depth <= 0 {
			b.WriteString("y")
			return
		}
		hdr := g.pick("forhdr", []string{"for", "for x in " + g.expr(1), "for i, x := range " + g.expr(1), "for i := 0; i < 3; i++", "for " + g.expr(1), "for _, x = range a", "for range a", "for i in a"})
		b.WriteString("{% " + hdr + " %}")
		g.item(b, depth-1)
		if g.n("forelse", 0, 3) == 0 && strings.Contains(hdr, " in ") {
			b.WriteString("{% else %}none")
		}
		b.WriteString("{% end for %}")
	case 8:
		if depth <= 0 {
			return
		}
		b.WriteString("{% switch " + g.pick("switchhdr", []string{"", "x", "x := 1; x", "y := v.(type)", "v.(type)"}) + " %}")
		nc := g.n("ncases", 0, 3)
		for i := 0; i < nc; i++ {
			b.WriteString("{% case " + g.expr(0) + ", " + g.expr(0) + " %}")
			g.item(b, depth-1)
			if g.n("fall", 0, 4) == 0 {
				b.WriteString("{% fallthrough %}")
			}
		}
		if g.n("default", 0, 1) == 0 {
			b.WriteString("{% default %}d")
		}
		b.WriteString("{% end switch %}")
	case 9:
		if depth <= 0 {
			return
		}
		b.WriteString("{% select %}{% case v := <-ch %}")
		g.item(b, depth-1)
		b.WriteString("{% case ch <- " + g.expr(0) + " %}s{% case <-done %}{% default %}{% end select %}")
	case 10:
		b.WriteString("{% macro M" + fmt.Sprint(g.n("mi", 0, 9)) + g.pick("mparams", []string{"", "()", "(a int)", "(a, b string)", "(xs ...int)"}) + g.pick("mres", []string{"", " html", " string"}) + " %}")
		g.item(b, depth-1)
		b.WriteString("{% end macro %}")
	case 11:
		b.WriteString("{%%\n" + g.simpleStmt(1) + "\n" + g.simpleStmt(1) + "\nif " + g.expr(1) + " {\n\t" + g.simpleStmt(1) + "\n} else {\n\t" + g.simpleStmt(0) + "\n}\nfor i := 0; i < 2; i++ {\n\t" + g.simpleStmt(1) + "\n}\nL:\n\tfor {\n\t\tbreak L\n\t}\nswitch x := y.(type) {\ncase int, string:\n\t" + g.simpleStmt(0) + "\ndefault:\n}\nselect {\ncase v, ok := <-ch:\n\t_, _ = v, ok\ndefault:\n}\nfunc f(a int, b ...string) (r int) {\n\tdefer func() { recover() }()\n\treturn a\n}\n%%}")
	case 12:
		b.WriteString("{% " + g.pick("tstmt", []string{`import "a.html"`, `import p "a.html"`, `import . "a.html"`, `import "a.html" for A, B`, `extends "l.html"`, `show a, b`, `show render "p.html"`, `raw %}{{ x }}{% end raw`, `raw code %}x{% end raw code`, `var x = 1 using %}body{% end using`, `show itea; using macro(a int) %}{{ a }}{% end`, `if x := f(); x > 1 %}a{% end if`, `type T struct{ A int }`, `const (a = iota)`, `var (a = 1)`}) + " %}")
	case 13:
		b.WriteString("{# comment " + g.pick("cm", []string{"", "{# nested #}", "\n"}) + " #}")
	case 14:
		b.WriteString("<a href=\"/x?" + g.pick("q", []string{"a=1", "{{ a }}", "b={{ b }}&c"}) + "\">l</a><script>var v = {{ " + g.expr(1) + " }};</script>")
	default:
		b.WriteString("{{ " + g.expr(0) + " }}")
	}
}

// C09 — a show accepted by the type checker never fails for its static type.
package c09

import (
	"encoding/json"
	"fmt"
	"reflect"
	"strings"
	"sync"
	"testing"

	"github.com/open2b/scriggo"
	"github.com/open2b/scriggo/native"
	"pgregory.net/rapid"

	"verif/harness/gen/vals"
	"verif/harness/lib/ev"
	"verif/harness/lib/sg"
)

func TestMain(m *testing.M)    { ev.Main(m, "C09") }
func TestReplay(t *testing.T)  { ev.Replay(t) }
func TestRegress(t *testing.T) { ev.Regress(t) }

type ctxDef struct{ file, tmpl string }

var contexts = map[string]ctxDef{
	"Text":            {"i.txt", "a {{ v }} b"},
	"HTML":            {"i.html", "<p>{{ v }}</p>"},
	"Tag":             {"i.html", "<p {{ v }}>x</p>"},
	"QuotedAttr":      {"i.html", `<p title="{{ v }}">x</p>`},
	"UnquotedAttr":    {"i.html", `<p title={{ v }}>x</p>`},
	"CSS":             {"i.css", "p { width: {{ v }} }"},
	"CSSString":       {"i.css", `p { content: "{{ v }}" }`},
	"JS":              {"i.js", "var x = {{ v }};"},
	"JSString":        {"i.js", `var x = "{{ v }}";`},
	"JSON":            {"i.json", "{{ v }}"},
	"JSONString":      {"i.json", `{"k":"{{ v }}"}`},
	"Markdown":        {"i.md", "text {{ v }} text\n"},
	"TabCodeBlock":    {"i.md", "para\n\n\t{{ v }}\n"},
	"SpacesCodeBlock": {"i.md", "para\n\n    {{ v }}\n"},
	"URLQuoted":       {"i.html", `<a href="{{ v }}">x</a>`},
	"URLUnquoted":     {"i.html", `<a href={{ v }}>x</a>`},
	"URLQuery":        {"i.html", `<a href="/p?q={{ v }}&z=1">x</a>`},
	"URLSet":          {"i.html", `<img srcset="{{ v }} 2x, /b.png 1x">`},
	"ScriptJS":        {"i.html", `<script>var x = {{ v }};</script>`},
	"StyleCSS":        {"i.html", `<style>p { width: {{ v }} }</style>`},
	"ScriptJSONLD":    {"i.html", `<script type="application/ld+json">{{ v }}</script>`},
	"MarkdownURL":     {"i.md", "see http://h.com/{{ v }} ok\n"},
}

func lib(n string) vals.T   { return vals.T{K: "lib", Lib: n} }
func k(n string) vals.T     { return vals.T{K: n} }
func sl(e vals.T) vals.T    { return vals.T{K: "slice", Elem: &e} }
func arr(e vals.T) vals.T   { return vals.T{K: "array", Elem: &e, N: 2} }
func ptr(e vals.T) vals.T   { return vals.T{K: "ptr", Elem: &e} }
func mp(a, b vals.T) vals.T { return vals.T{K: "map", Key: &a, Elem: &b} }
func st(fs ...vals.T) vals.T {
	t := vals.T{K: "struct"}
	for i, f := range fs {
		t.Fields = append(t.Fields, vals.FT{Name: fmt.Sprintf("F%d", i), T: f})
	}
	return t
}

var types []vals.T

func init() {
	for _, n := range []string{"bool", "int", "int8", "int16", "int32", "int64", "uint", "uint8", "uint16", "uint32", "uint64", "uintptr", "float32", "float64", "complex64", "complex128", "string", "bytes", "time", "iface"} {
		types = append(types, k(n))
	}
	for _, n := range vals.LibUntrustedScalars {
		types = append(types, lib(n))
	}
	for _, n := range vals.LibTrusted {
		types = append(types, lib(n))
	}
	for _, n := range vals.LibStructs {
		types = append(types, lib(n))
	}
	for _, n := range vals.LibNamedComposites {
		types = append(types, lib(n))
	}
	types = append(types, sl(lib("MyOctet")), sl(lib("RawBytes")), ptr(lib("RawBytes")), mp(k("string"), lib("Octets")), st(lib("MyInts")), sl(lib("MyFunc")), ptr(lib("MyChan")), st(lib("MyIface")))
	elems := []vals.T{k("int"), k("string"), k("bool"), k("float64"), k("complex128"), k("uintptr"), k("iface"), k("bytes"), k("time"), lib("MyErr"), lib("StrStringer"), lib("native.JS"), lib("JSStr"), lib("JSONEnvStr")}
	for _, e := range elems {
		types = append(types, sl(e), arr(e), mp(k("string"), e), ptr(e), st(k("int"), e))
	}
	types = append(types,
		mp(k("int"), k("string")), mp(k("bool"), k("int")), mp(k("float64"), k("int")), mp(k("complex128"), k("int")), mp(k("uintptr"), k("int")),
		mp(lib("StrStringer"), k("int")), mp(lib("IntStringer"), k("int")), mp(lib("MyString"), k("int")), mp(arr(k("int")), k("int")), mp(st(k("int")), k("int")),
		sl(sl(k("complex64"))), ptr(ptr(k("int"))), st(st(k("complex128"))), sl(mp(k("string"), sl(k("uintptr")))), st(ptr(k("bytes")), mp(k("int"), ptr(lib("MyErr")))),
		ptr(lib("Tagged")), sl(lib("Outer")),
		// keys with a method set other than Stringer (seeded/C09-b: an error key accepted statically only)
		k("unsafeptr"), sl(k("unsafeptr")), st(k("unsafeptr")), // a kind whose reflect.Type has no Elem (Build panicked in checkShowJS)
		mp(lib("MyErr"), k("int")), mp(ptr(lib("MyErr")), k("int")), mp(lib("EnvStr"), k("int")), mp(arr(lib("MyErr")), k("int")), mp(lib("MyErr"), sl(lib("MyErr"))),
	)
}

type Case struct {
	T     vals.T `json:"t"`
	V     vals.V `json:"v"`
	Ctx   string `json:"ctx"`
	Boxed bool   `json:"boxed"`
	Type  string `json:"type"`
}

type built struct {
	tmpl *scriggo.Template
	err  error
}

var (
	cacheMu sync.Mutex
	cache   = map[string]built{}
)

func buildFor(ctx string, rt reflect.Type) built {
	key := ctx + "|" + rt.String() + fmt.Sprintf("|%p", rt)
	cacheMu.Lock()
	defer cacheMu.Unlock()
	if b, ok := cache[key]; ok {
		return b
	}
	c := contexts[ctx]
	t, res := sg.BuildTemplate(map[string]string{c.file: c.tmpl}, c.file, sg.Opts{Globals: native.Declarations{"v": reflect.Zero(reflect.PointerTo(rt)).Interface()}})
	b := built{t, res.BuildErr}
	if res.BuildPanic != nil {
		b.err = fmt.Errorf("BUILD PANIC: %v", res.BuildPanic)
	}
	cache[key] = b
	return b
}

var anyType = reflect.TypeFor[any]()

func judge(c Case) string {
	rt := c.T.Type()
	val := vals.TV{T: c.T, V: c.V}.Value()
	static := buildFor(c.Ctx, rt)
	if static.err != nil && strings.HasPrefix(static.err.Error(), "BUILD PANIC") {
		return fmt.Sprintf("building a show of %s in %s panicked: %v", rt, c.Ctx, static.err)
	}
	run := func(b built, declared reflect.Type) (string, error) {
		p := reflect.New(declared)
		p.Elem().Set(val)
		res := sg.RunTemplate(b.tmpl, sg.Opts{Vars: map[string]any{"v": p.Interface()}})
		if res.RunPanic != nil {
			return res.Out, fmt.Errorf("HOST PANIC: %v", res.RunPanic)
		}
		return res.Out, res.RunErr
	}
	declared := rt
	if c.Boxed {
		declared = anyType
	}
	if declared.Kind() != reflect.Interface {
		if static.err != nil {
			ev.Excluded("statically_rejected")
			return ""
		}
		_, err := run(static, rt)
		if err != nil && strings.Contains(err.Error(), "cannot show") {
			return fmt.Sprintf("show of %s in %s is accepted by the type checker but fails at run time: %v", rt, c.Ctx, err)
		}
		return ""
	}
	// static type is an interface: the run may fail only if the dynamic type is rejected statically
	ib := buildFor(c.Ctx, declared)
	if ib.err != nil {
		if declared == anyType {
			return fmt.Sprintf("show of interface{} in %s does not build: %v", c.Ctx, ib.err)
		}
		ev.Excluded("statically_rejected")
		return ""
	}
	_, err := run(ib, declared)
	if err != nil && strings.Contains(err.Error(), "cannot show") {
		dyn := val
		for dyn.IsValid() && dyn.Kind() == reflect.Interface {
			dyn = dyn.Elem()
		}
		if !dyn.IsValid() {
			return fmt.Sprintf("a nil %s fails in %s: %v", declared, c.Ctx, err)
		}
		twin := buildFor(c.Ctx, dyn.Type())
		if twin.err != nil {
			ev.Label("interface_fails_and_dynamic_type_rejected")
			return "" // the dynamic type would have been rejected statically: allowed
		}
		return fmt.Sprintf("%s held in %s fails in %s (%v) although %s is accepted statically", dyn.Type(), declared, c.Ctx, err, dyn.Type())
	}
	return ""
}

func init() {
	ev.RegisterReplay("show", func(t ev.TB, raw json.RawMessage) {
		var c Case
		if err := json.Unmarshal(raw, &c); err != nil {
			t.Fatalf("bad case: %v", err)
		}
		if msg := judge(c); msg != "" {
			t.Fatalf("%s", msg)
		}
	})
}

var ctxNames []string

func init() {
	for n := range contexts {
		ctxNames = append(ctxNames, n)
	}
	for i := range ctxNames {
		for j := i + 1; j < len(ctxNames); j++ {
			if ctxNames[j] < ctxNames[i] {
				ctxNames[i], ctxNames[j] = ctxNames[j], ctxNames[i]
			}
		}
	}
}

// TestExhTriples covers every (type, context, boxed) triple with several values each.
func TestExhTriples(t *testing.T) {
	perTriple := 12
	if ev.Thorough() {
		perTriple = 150
	}
	shard, shards := ev.Shard()
	opts := vals.Options{MaxDepth: 2, Complex: true, Trusted: true, NonFinite: true, Uintptr: true, Time: true, StructLib: true, ErrorIface: true}
	n := 0
	for ti, ty := range types {
		if ti%shards != shard {
			continue
		}
		ty := ty
		gen := rapid.Custom(func(t *rapid.T) vals.V { return vals.GenV(t, ty, 2, opts) })
		for _, ctx := range ctxNames {
			for _, boxed := range []bool{false, true} {
				ev.Nontrivial(ty.Type().String(), ctx, fmt.Sprint(boxed))
				for i := 0; i < perTriple; i++ {
					v := gen.Example(int(ev.Seed("c09"))%100000 + i)
					c := Case{T: ty, V: v, Ctx: ctx, Boxed: boxed, Type: ty.Type().String()}
					n++
					if n%4001 == 0 {
						ev.Sample(map[string]any{"type": c.Type, "ctx": ctx, "boxed": boxed, "value": fmt.Sprintf("%#v", vals.TV{T: ty, V: v}.Interface())})
					}
					if msg := judge(c); msg != "" {
						if id := classify(c, msg); id != "" && ev.Known(id) {
							continue
						}
						ev.Fail(t, "show", c, "%s", msg)
						return
					}
				}
			}
		}
	}
	ev.EvalN(n)
	ev.LabelN("triples_runs", n)
	ev.Exhaustive()
	ev.Note("every (type, context, boxed) triple over %d types x %d contexts x 2 covered with %d values each", len(types), len(ctxNames), perTriple)
}

// TestPropRandomTypes: random composite types beyond the fixed table.
func TestPropRandomTypes(t *testing.T) {
	opts := vals.Options{MaxDepth: 3, Complex: true, Trusted: true, NonFinite: true, Uintptr: true, Time: true, StructLib: true, ErrorIface: true}
	ev.Check(t, ev.N{Quick: 6000, Thorough: 600000}, func(t *rapid.T) {
		tv := vals.Gen(t, opts)
		c := Case{T: tv.T, V: tv.V, Ctx: rapid.SampledFrom(ctxNames).Draw(t, "ctx"), Boxed: rapid.Bool().Draw(t, "boxed"), Type: tv.T.Type().String()}
		ev.Eval()
		ev.Label("random_type")
		ev.Nontrivial(c.Type, c.Ctx, fmt.Sprint(c.Boxed))
		if msg := judge(c); msg != "" {
			if id := classify(c, msg); id != "" && ev.Known(id) {
				return
			}
			ev.Fail(t, "show", c, "%s", msg)
		}
	})
}

func classify(c Case, msg string) string { return "" }

// C24 — HTMLEscape escapes exactly the five HTML-significant characters.
package c24

import (
	"encoding/json"
	"fmt"
	"html"
	"strings"
	"testing"

	"github.com/open2b/scriggo"
	"github.com/open2b/scriggo/builtin"
	"pgregory.net/rapid"

	"verif/harness/lib/ev"
)

func TestMain(m *testing.M) { ev.Main(m, "C24") }

var ref = strings.NewReplacer("<", "&lt;", ">", "&gt;", "&", "&amp;", `"`, "&#34;", "'", "&#39;")

type Case struct {
	S    string `json:"s"`    // input (may be invalid UTF-8: kept as bytes below)
	B    []byte `json:"b"`    // same input as bytes, authoritative
	Func string `json:"func"` // "scriggo.HTMLEscape" | "builtin.HtmlEscape"
}

func mk(s, fn string) Case { return Case{S: s, B: []byte(s), Func: fn} }

// judge returns "" when the property holds for the case.
func judge(c Case) (msg string) {
	defer func() {
		if e := recover(); e != nil {
			msg = fmt.Sprintf("%s panicked: %v", c.Func, e)
		}
	}()
	s := string(c.B)
	var got string
	switch c.Func {
	case "builtin.HtmlEscape":
		got = string(builtin.HtmlEscape(s))
	default:
		got = string(scriggo.HTMLEscape(s))
	}
	want := ref.Replace(s)
	if got != want {
		return "got " + strq(got) + " want " + strq(want)
	}
	// decoding restores the input (the statement's second half); html.UnescapeString
	// leaves bytes that are not part of an entity alone, including invalid UTF-8.
	if dec := html.UnescapeString(got); dec != s {
		// only claim it when the reference itself round-trips (it always does for
		// the five entities; an '&' in s is escaped so no accidental entity exists)
		return "decode(" + strq(got) + ") = " + strq(dec) + " != input"
	}
	return ""
}

func strq(s string) string {
	b, _ := json.Marshal([]byte(s))
	return string(b) + "/" + strings.ToValidUTF8(s, "?")
}

func init() {
	ev.RegisterReplay("C24", func(t ev.TB, raw json.RawMessage) {
		var c Case
		if err := json.Unmarshal(raw, &c); err != nil {
			t.Fatalf("bad case: %v", err)
		}
		if msg := judge(c); msg != "" {
			t.Fatalf("%s", msg)
		}
	})
}

func TestReplay(t *testing.T)  { ev.Replay(t) }
func TestRegress(t *testing.T) { ev.Regress(t) }

var alphabet = []byte{'<', '>', '&', '"', '\'', 'a', 0x80}

// TestExhaustive enumerates every string over the alphabet up to the tier's
// length; the space is partitioned between shards by the first two symbols.
func TestExhaustive(t *testing.T) {
	maxLen := 7
	if ev.Thorough() {
		maxLen = 10
	}
	shard, shards := ev.Shard()
	buf := make([]byte, maxLen)
	count, nontrivial := 0, 0
	var rec func(n int)
	var failed bool
	check := func(s string) {
		count++
		special := 0
		for i := 0; i < len(s); i++ {
			if s[i] != 'a' && s[i] != 0x80 {
				special++
			}
		}
		if special > 0 {
			nontrivial++
			if count%200003 == 1 {
				ev.Sample(map[string]any{"input": strq(s), "output": string(scriggo.HTMLEscape(s))})
			}
		}
		for _, fn := range []string{"scriggo.HTMLEscape", "builtin.HtmlEscape"} {
			// builtin wrapper only on short strings: it is a one-line wrapper
			if fn == "builtin.HtmlEscape" && len(s) > 4 {
				continue
			}
			c := mk(s, fn)
			if msg := judge(c); msg != "" && !failed {
				failed = true
				ev.Fail(t, "C24", c, "%s", msg)
			}
		}
	}
	rec = func(n int) {
		if failed {
			return
		}
		check(string(buf[:n]))
		if n == maxLen {
			return
		}
		for _, a := range alphabet {
			buf[n] = a
			rec(n + 1)
		}
	}
	// prefixes of length ≤1 are handled by shard 0; longer strings by hash of the first two symbols
	if shard == 0 {
		check("")
		for _, a := range alphabet {
			check(string([]byte{a}))
		}
	}
	idx := 0
	for _, a := range alphabet {
		for _, b := range alphabet {
			if idx%shards == shard {
				buf[0], buf[1] = a, b
				rec(2)
			}
			idx++
		}
	}
	ev.EvalN(count)
	ev.LabelN("exhaustive_strings", count)
	ev.LabelN("exhaustive_with_special", nontrivial)
	// every enumerated string is distinct by construction; record the measured count
	ev.NontrivialCount(nontrivial)
	ev.Exhaustive()
	ev.Note("exhaustive over alphabet %q up to length %d", string(alphabet), maxLen)
}

// TestExhBoundaries: long strings with few specials placed around power-of-two
// offsets (index arithmetic in an optimised copy loop may be width-limited).
func TestExhBoundaries(t *testing.T) {
	shard, shards := ev.Shard()
	bounds := []int{255, 256, 4095, 4096, 32767, 32768, 65535, 65536, 65537, 131071, 131072}
	n := 0
	idx := 0
	for _, B := range bounds {
		for _, sp := range []byte(`<>&"'`) {
			idx++
			if idx%shards != shard {
				continue
			}
			base := []byte(strings.Repeat("a", B+4))
			try := func(pos ...int) bool {
				b := append([]byte(nil), base...)
				for _, p := range pos {
					if p >= 0 && p < len(b) {
						b[p] = sp
					}
				}
				c := mk(string(b), "scriggo.HTMLEscape")
				n++
				if msg := judge(c); msg != "" {
					if len(msg) > 300 {
						msg = msg[:300] + "…"
					}
					ev.Fail(t, "C24", c, "length %d, specials at %v: %s", len(b), pos, msg)
					return false
				}
				return true
			}
			for d := -2; d <= 3; d++ {
				if !try(B+d) || !try(0, B+d) || !try(B-100, B+d) || !try(1, 2, 3, 4, 5, 6, 7, B+d) || !try(1, 2, 3, 4, 5, 6, 7, 8, B+d) || !try(B+d, B+d+1) {
					return
				}
			}
		}
	}
	ev.EvalN(n)
	ev.LabelN("boundary_strings", n)
	ev.NontrivialCount(n)
}

// TestPropRandom: random long strings over all byte values, biased to specials.
func TestPropRandom(t *testing.T) {
	special := []byte(`<>&"'`)
	gen := rapid.Custom(func(t *rapid.T) string {
		n := rapid.IntRange(0, 5000).Draw(t, "n")
		if rapid.IntRange(0, 20).Draw(t, "big") == 0 {
			n = rapid.IntRange(5000, 70000).Draw(t, "nbig")
		}
		if rapid.IntRange(0, 3).Draw(t, "sparse") == 0 {
			// long string with a handful of specials at drawn offsets
			n = rapid.IntRange(1, 200000).Draw(t, "nsparse")
			b := []byte(strings.Repeat("x", n))
			for k := rapid.IntRange(1, 12).Draw(t, "k"); k > 0; k-- {
				b[rapid.IntRange(0, n-1).Draw(t, "pos")] = special[rapid.IntRange(0, 4).Draw(t, "spc")]
			}
			return string(b)
		}
		density := rapid.IntRange(0, 10).Draw(t, "density")
		b := make([]byte, n)
		for i := range b {
			if rapid.IntRange(0, 10).Draw(t, "k") < density {
				b[i] = special[rapid.IntRange(0, 4).Draw(t, "sp")]
			} else {
				b[i] = rapid.Byte().Draw(t, "b")
			}
		}
		return string(b)
	})
	ev.Check(t, ev.N{Quick: 400, Thorough: 20000}, func(t *rapid.T) {
		s := gen.Draw(t, "s")
		fn := rapid.SampledFrom([]string{"scriggo.HTMLEscape", "builtin.HtmlEscape"}).Draw(t, "fn")
		c := mk(s, fn)
		ev.Eval()
		ev.Label("random")
		if strings.ContainsAny(s, `<>&"'`) {
			if len(s) > 40 {
				ev.Nontrivial(s)
			} else {
				ev.NontrivialSample(map[string]any{"input": strq(s), "func": fn}, s)
			}
		}
		if msg := judge(c); msg != "" {
			ev.Fail(t, "C24", c, "%s", msg)
		}
	})
}

// C13 — a failing output writer aborts rendering with the writer's error.
package c13

import (
	"encoding/json"
	"errors"
	"fmt"
	"strings"
	"testing"

	"github.com/open2b/scriggo"
	"github.com/open2b/scriggo/native"
	"pgregory.net/rapid"

	"verif/harness/gen/tmpl"
	"verif/harness/gen/vals"
	"verif/harness/lib/ev"
	"verif/harness/lib/sg"
)

func TestMain(m *testing.M)    { ev.Main(m, "C13") }
func TestReplay(t *testing.T)  { ev.Replay(t) }
func TestRegress(t *testing.T) { ev.Regress(t) }

type Case struct {
	Files   map[string]string `json:"files"`
	Name    string            `json:"name"`
	Vars    []string          `json:"vars"`   // names of the globals, typed interface{}
	Values  []vals.TV         `json:"values"` // one per var
	Recover bool              `json:"recover"`
	Partial bool              `json:"partial"` // the failing Write accepts half of its bytes
	OnlyK   int               `json:"only_k"`  // 0: enumerate every k; else just this k (replay of a shrunk failure)
}

// faultWriter fails on its k-th Write.
type faultWriter struct {
	k        int
	partial  bool
	err      error
	n        int
	accepted []byte
	after    int // number of Writes that arrived after the failing one
	sizes    []int
}

func (w *faultWriter) Write(p []byte) (int, error) {
	w.n++
	if w.k > 0 && w.n > w.k {
		w.after++
		return 0, w.err
	}
	if w.n == w.k {
		if w.partial && len(p) > 1 {
			h := len(p) / 2
			w.accepted = append(w.accepted, p[:h]...)
			return h, w.err
		}
		return 0, w.err
	}
	w.accepted = append(w.accepted, p...)
	w.sizes = append(w.sizes, len(p))
	return len(p), nil
}

type uniqueErr struct{ k int }

func (e *uniqueErr) Error() string { return fmt.Sprintf("write #%d failed", e.k) }

func run(t *scriggo.Template, vars map[string]any, w *faultWriter) (err error, hostPanic any) {
	defer func() {
		if e := recover(); e != nil {
			hostPanic = e
		}
	}()
	return t.Run(w, vars, nil), nil
}

func judge(c Case) string {
	globals := native.Declarations{}
	for _, v := range c.Vars {
		globals[v] = (*any)(nil)
	}
	t, res := sg.BuildTemplate(c.Files, c.Name, sg.Opts{Globals: globals, Markdown: true})
	if res.BuildErr != nil || res.BuildPanic != nil {
		ev.Excluded("does_not_build")
		return ""
	}
	mk := func() map[string]any {
		m := map[string]any{}
		for i, v := range c.Vars {
			p := new(any)
			if i < len(c.Values) {
				*p = c.Values[i].Interface()
			}
			m[v] = p
		}
		return m
	}
	clean := &faultWriter{}
	err, hp := run(t, mk(), clean)
	if hp != nil || err != nil {
		ev.Excluded("fault_free_run_fails")
		return ""
	}
	W := clean.n
	full := string(clean.accepted)
	ev.LabelN("fault_points", W)
	from, to := 1, W+1
	if c.OnlyK > 0 {
		from, to = c.OnlyK, c.OnlyK
	}
	for k := from; k <= to; k++ {
		E := &uniqueErr{k}
		w := &faultWriter{k: k, partial: c.Partial, err: E}
		err, hp := run(t, mk(), w)
		if hp != nil {
			return fmt.Sprintf("k=%d of %d: host panic %v", k, W, hp)
		}
		if k == W+1 {
			if err != nil || string(w.accepted) != full {
				return fmt.Sprintf("control run (no fault) differs: err=%v", err)
			}
			continue
		}
		if w.n < k {
			return fmt.Sprintf("k=%d of %d: only %d writes happened (write count is not deterministic)", k, W, w.n)
		}
		if err != error(E) {
			if !(c.Recover && err == nil) {
				var pe *scriggo.PanicError
				if errors.As(err, &pe) {
					return fmt.Sprintf("k=%d of %d: Run returned a *PanicError (%v) instead of the writer's error itself", k, W, err)
				}
				return fmt.Sprintf("k=%d of %d: Run returned %v (%T), want the writer's error %v", k, W, err, err, E)
			}
		}
		if w.after > 0 {
			return fmt.Sprintf("k=%d of %d: %d more Write call(s) after the failing one", k, W, w.after)
		}
		if !strings.HasPrefix(full, string(w.accepted)) {
			return fmt.Sprintf("k=%d of %d: bytes accepted before the failure %q are not a prefix of the fault-free output %q", k, W, w.accepted, full)
		}
		ev.Eval()
	}
	return ""
}

func init() {
	ev.RegisterReplay("fault", func(t ev.TB, raw json.RawMessage) {
		var c Case
		if err := json.Unmarshal(raw, &c); err != nil {
			t.Fatalf("bad case: %v", err)
		}
		if msg := judge(c); msg != "" {
			t.Fatalf("%s", msg)
		}
	})
}

var ext = map[string]string{"html": "html", "js": "js", "css": "css", "json": "json", "md": "md", "text": "txt"}

// corpus of hand-written templates exercising macros, render, conversion, url state, statements
var corpus = []struct {
	files map[string]string
	name  string
}{
	{map[string]string{"i.html": `{% macro M(s string) %}<b>{{ s }}</b>{% end %}<p>{{ M("x") }} {{ v0 }} {{ M("y") }}</p>`}, "i.html"},
	{map[string]string{"i.html": `{% for i := 0; i < 3; i++ %}<li>{{ i }}:{{ v0 }}</li>{% end %}`}, "i.html"},
	{map[string]string{"i.html": `<a href="/p?a={{ v0 }}&b={{ v1 }}">{{ v0 }}</a>{{ render "p.html" }}`, "p.html": `<i>{{ v1 }}</i> tail`}, "i.html"},
	{map[string]string{"i.html": `{% var m markdown = "# T *x*" %}{{ m }}<hr>{{ v0 }}`}, "i.html"},
	{map[string]string{"i.html": `{% extends "l.html" %}{% macro Body %}<p>{{ v0 }}</p>{% end %}`, "l.html": `<html>{{ Body() }}<footer>{{ v1 }}</footer></html>`}, "i.html"},
	{map[string]string{"i.js": `var a = {{ v0 }}; var b = [{{ v1 }}, {{ v0 }}];`}, "i.js"},
	{map[string]string{"i.md": "# {{ v0 }}\n\ntext {{ v1 }}\n\n\tcode {{ v0 }}\n"}, "i.md"},
	{map[string]string{"i.html": `{% if v0 != nil %}A{{ v0 }}{% else %}B{% end %}{% switch %}{% case v1 == nil %}N{% default %}{{ v1 }}{% end %}`}, "i.html"},
	{map[string]string{"i.html": `{{ v0 }}{% raw %}{{ not shown }}{% end %}{# comment #}{{ v1 }} using: {% show itea; using %}<b>{{ v0 }}</b>{% end using %}`}, "i.html"},
	{map[string]string{"i.html": `<img srcset="{{ v0 }} 1x, {{ v1 }} 2x"><p title={{ v0 }} {{ v1 }}>`}, "i.html"},
}

func TestPropWriterFaults(t *testing.T) {
	ev.Check(t, ev.N{Quick: 500, Thorough: 40000}, func(t *rapid.T) {
		var c Case
		opts := vals.Options{MaxDepth: 2, NonFinite: true, Time: true, Uintptr: true}
		if rapid.IntRange(0, 3).Draw(t, "corpus") == 0 {
			e := rapid.SampledFrom(corpus).Draw(t, "tmpl")
			c.Files, c.Name, c.Vars = e.files, e.name, []string{"v0", "v1"}
			ev.Label("corpus_template")
		} else {
			format := rapid.SampledFrom([]string{"html", "html", "html", "js", "css", "json", "md"}).Draw(t, "format")
			doc := tmpl.Gen(t, format, 5, nil)
			e := ext[format]
			idx := "index." + e
			switch rapid.SampledFrom([]string{"none", "none", "macro", "render", "import", "extends"}).Draw(t, "wrap") {
			case "macro":
				c.Files = map[string]string{idx: "{% macro M %}" + doc.Src + "{% end %}head {{ M() }} tail"}
			case "render":
				c.Files = map[string]string{idx: "head {{ render \"part." + e + "\" }} tail", "part." + e: doc.Src}
			case "import":
				c.Files = map[string]string{idx: "{% import \"m." + e + "\" %}{{ M() }}", "m." + e: "{% macro M %}" + doc.Src + "{% end %}"}
			case "extends":
				c.Files = map[string]string{idx: "{% extends \"layout." + e + "\" %}{% macro Body %}" + doc.Src + "{% end %}", "layout." + e: "top {{ Body() }} bottom"}
			default:
				src := doc.Src
				if rapid.IntRange(0, 4).Draw(t, "recover") == 0 {
					src = "{%% defer func() { recover() }() %%}" + src
					c.Recover = true
				}
				c.Files = map[string]string{idx: src}
			}
			c.Name = idx
			for _, h := range doc.Holes {
				c.Vars = append(c.Vars, h.Var)
			}
			ev.Label("generated_" + format)
		}
		for range c.Vars {
			var v vals.TV
			if rapid.IntRange(0, 2).Draw(t, "vkind") == 0 {
				v = vals.Gen(t, opts)
			} else {
				v = vals.TV{T: vals.T{K: "string"}, V: vals.V{S: []byte(rapid.SampledFrom([]string{"x", "a&b", "<p>", "?q=1", "a b", "", "\"'", "é", "1,2"}).Draw(t, "s"))}}
			}
			c.Values = append(c.Values, v)
		}
		c.Partial = rapid.Bool().Draw(t, "partial")
		if c.Recover {
			ev.Label("template_recovers")
		}
		var keys []string
		for k, v := range c.Files {
			keys = append(keys, k+"="+v)
		}
		ev.NontrivialSample(map[string]any{"files": c.Files, "partial": c.Partial, "recover": c.Recover}, strings.Join(keys, "|"), fmt.Sprint(c.Partial))
		if msg := judge(c); msg != "" {
			// shrink to the failing k for the replay file
			var k int
			if _, err := fmt.Sscanf(msg, "k=%d", &k); err == nil {
				c.OnlyK = k
			}
			ev.Fail(t, "fault", c, "%s", msg)
		}
	})
}

package c29

import (
	"bufio"
	"encoding/json"
	"fmt"
	"io"
	"os"
	"os/exec"
	"sync"
)

// pipe client for the verif-tagged test binary of cmd/scriggo (hook 3).
type server struct {
	cmd *exec.Cmd
	in  io.WriteCloser
	out *bufio.Reader
}

var (
	srvMu sync.Mutex
	srv   *server
)

type response struct {
	Out   []byte `json:"out"`
	Err   string `json:"err"`
	Panic string `json:"panic"`
}

func start() (*server, error) {
	bin := os.Getenv("VERIF_CMDTEST")
	if bin == "" {
		return nil, fmt.Errorf("VERIF_CMDTEST not set (run through ./check)")
	}
	cmd := exec.Command(bin, "-test.run", "^TestVerifServe$")
	cmd.Env = append(os.Environ(), "VERIF_PIPE=1")
	in, _ := cmd.StdinPipe()
	out, _ := cmd.StdoutPipe()
	cmd.Stderr = os.Stderr
	if err := cmd.Start(); err != nil {
		return nil, err
	}
	return &server{cmd, in, bufio.NewReaderSize(out, 1<<20)}, nil
}

// call sends one request; if the server died it is restarted and the death is reported.
func call(op, base, dir string, src []byte) (response, error) {
	srvMu.Lock()
	defer srvMu.Unlock()
	if srv == nil {
		s, err := start()
		if err != nil {
			return response{}, err
		}
		srv = s
	}
	req, _ := json.Marshal(map[string]any{"op": op, "base": base, "dir": dir, "src": src})
	if _, err := srv.in.Write(append(req, '\n')); err != nil {
		srv = nil
		return response{}, fmt.Errorf("server died: %v", err)
	}
	line, err := srv.out.ReadBytes('\n')
	if err != nil {
		srv.cmd.Process.Kill()
		srv.cmd.Wait()
		srv = nil
		return response{Panic: "server process died while handling the request"}, nil
	}
	var res response
	if err := json.Unmarshal(line, &res); err != nil {
		return response{}, fmt.Errorf("bad response %q: %v", line, err)
	}
	return res, nil
}

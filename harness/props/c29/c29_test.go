// C29 — rewriting Markdown link destinations changes only link destinations.
package c29

import (
	"bytes"
	"encoding/json"
	"fmt"
	"net/url"
	"path"
	"regexp"
	"strings"
	"testing"

	"github.com/yuin/goldmark"
	gast "github.com/yuin/goldmark/ast"
	"github.com/yuin/goldmark/text"
	"pgregory.net/rapid"

	"verif/harness/lib/ev"
)

func TestMain(m *testing.M)    { ev.Main(m, "C29") }
func TestReplay(t *testing.T)  { ev.Replay(t) }
func TestRegress(t *testing.T) { ev.Regress(t) }

type Case struct {
	Src  []byte `json:"src"`
	Show string `json:"show"`
	Base string `json:"base"`
	Dir  string `json:"dir"`
}

type EscCase struct {
	U []byte `json:"u"`
}

var md = goldmark.New()

type item struct {
	kind string
	text string
	dest string
	isLk bool
}

// flatten returns the document as a sequence of (kind, payload); link and image
// destinations are kept apart so they can be compared by rule.
func flatten(src []byte) []item {
	doc := md.Parser().Parse(text.NewReader(src))
	var out []item
	lines := func(n gast.Node) string {
		var b strings.Builder
		l := n.Lines()
		for i := 0; i < l.Len(); i++ {
			s := l.At(i)
			b.Write(s.Value(src))
		}
		return b.String()
	}
	gast.Walk(doc, func(n gast.Node, entering bool) (gast.WalkStatus, error) {
		if !entering {
			out = append(out, item{kind: "/" + n.Kind().String()})
			return gast.WalkContinue, nil
		}
		it := item{kind: n.Kind().String()}
		switch v := n.(type) {
		case *gast.Text:
			it.text = string(v.Segment.Value(src))
			if cs, ok := n.Parent().(*gast.CodeSpan); ok {
				it.kind = "CodeSpan>Text"
				first, last := cs.FirstChild().(*gast.Text), cs.LastChild().(*gast.Text)
				if first != nil && last != nil && bytes.ContainsAny(src[first.Segment.Start:last.Segment.Stop], "\n") {
					it.kind = "CodeSpan(multiline)>Text"
				}
			}
			if v.SoftLineBreak() {
				it.text += "⏎"
			}
			if v.HardLineBreak() {
				it.text += "⏎⏎"
			}
		case *gast.String:
			it.text = string(v.Value)
		case *gast.CodeSpan:
		case *gast.FencedCodeBlock:
			if v.Info != nil {
				it.text = string(v.Info.Segment.Value(src)) + "\n"
			}
			it.text += lines(v)
		case *gast.CodeBlock:
			it.text = lines(v)
		case *gast.HTMLBlock:
			it.text = lines(v)
			if v.HasClosure() {
				it.text += string(v.ClosureLine.Value(src))
			}
		case *gast.RawHTML:
			for i := 0; i < v.Segments.Len(); i++ {
				s := v.Segments.At(i)
				it.text += string(s.Value(src))
			}
		case *gast.AutoLink:
			it.text = string(v.URL(src)) + "|" + string(v.Label(src))
		case *gast.Link:
			it.text = string(v.Title)
			it.dest = string(v.Destination)
			it.isLk = true
		case *gast.Image:
			it.text = string(v.Title)
			it.dest = string(v.Destination)
			it.isLk = true
		case *gast.Heading:
			it.text = fmt.Sprint(v.Level)
		case *gast.List:
			it.text = fmt.Sprint(v.Marker, v.Start, v.IsTight)
		}
		out = append(out, it)
		return gast.WalkContinue, nil
	})
	return out
}

var simpleDest = regexp.MustCompile(`^[A-Za-z0-9/._\-?#=&:~+]*$`)

// wantDest is the documented resolution of a destination.
func wantDest(orig string, base *url.URL, dir string) (want string, mayChange bool) {
	u, err := url.Parse(orig)
	if err != nil {
		return orig, false
	}
	if u.Scheme != "" || (u.Host == "" && u.Path == "") {
		return orig, false
	}
	u.Scheme = base.Scheme
	if u.Host == "" {
		u.Host = base.Host
		endSlash := strings.HasSuffix(u.Path, "/")
		if path.IsAbs(u.Path) {
			u.Path = path.Join(base.Path, u.Path)
		} else {
			u.Path = path.Join(base.Path, dir, u.Path)
		}
		if endSlash {
			if !strings.HasSuffix(u.Path, "/") {
				u.Path += "/"
			}
		} else if ext := path.Ext(u.Path); ext == "" || ext == ".html" {
			u.Path = strings.TrimSuffix(u.Path, ".html") + ".md"
		}
	}
	return u.String(), true
}

func short(b []byte) string {
	s := fmt.Sprintf("%q", b)
	if len(s) > 700 {
		s = s[:700] + "…"
	}
	return s
}

// lastFailure describes the most recent text-level disagreement, for classify.
type failure struct {
	Kind     string // "text-changed" | "kind-changed" | "structure" | "dest" | "idempotence" | "panic"
	NodeKind string
	Old, New string
}

var lastFailure failure

func judge(c Case) string {
	lastFailure = failure{}
	base, err := url.Parse(c.Base)
	if err != nil {
		return "bad base in case"
	}
	res, err := call("replace", c.Base, c.Dir, c.Src)
	if err != nil {
		panic("infrastructure: " + err.Error())
	}
	if res.Panic != "" {
		return "replace panicked: " + res.Panic
	}
	if res.Err != "" {
		return "replace returned an error: " + res.Err
	}
	out := res.Out
	// idempotence
	res2, err := call("replace", c.Base, c.Dir, out)
	if err != nil {
		panic("infrastructure: " + err.Error())
	}
	if res2.Panic != "" || res2.Err != "" {
		return "second replace failed: " + res2.Panic + res2.Err
	}
	if !bytes.Equal(res2.Out, out) {
		lastFailure = failure{Kind: "idempotence"}
		return fmt.Sprintf("not idempotent: replace(src) = %s, replace(replace(src)) = %s", short(out), short(res2.Out))
	}
	if bytes.Equal(out, c.Src) {
		return ""
	}
	a, b := flatten(c.Src), flatten(out)
	if len(a) != len(b) {
		lastFailure = failure{Kind: "structure"}
		return fmt.Sprintf("document structure changed (%d nodes → %d nodes): %s → %s", len(a), len(b), short(c.Src), short(out))
	}
	for i := range a {
		x, y := a[i], b[i]
		if x.kind != y.kind {
			lastFailure = failure{Kind: "kind-changed", NodeKind: x.kind}
			return fmt.Sprintf("node %d changed kind %s → %s: %s → %s", i, x.kind, y.kind, short(c.Src), short(out))
		}
		if x.text != y.text {
			lastFailure = failure{Kind: "text-changed", NodeKind: x.kind, Old: x.text, New: y.text}
			return fmt.Sprintf("bytes outside link destinations changed in %s node: %q → %q; document %s → %s", x.kind, x.text, y.text, short(c.Src), short(out))
		}
		if !x.isLk || x.dest == y.dest {
			continue
		}
		// a destination was rewritten: it must be absolute against the base …
		nu, err := url.Parse(y.dest)
		if err != nil || nu.Scheme != base.Scheme || nu.Host == "" {
			lastFailure = failure{Kind: "dest", NodeKind: x.kind, Old: x.dest, New: y.dest}
			return fmt.Sprintf("rewritten destination %q → %q is not absolute against %s", x.dest, y.dest, c.Base)
		}
		want, may := wantDest(x.dest, base, c.Dir)
		if !may {
			return fmt.Sprintf("destination %q must be left unchanged (absolute or query/fragment only) but became %q", x.dest, y.dest)
		}
		// … and, for plain destinations, equal to the documented resolution
		if simpleDest.MatchString(x.dest) && y.dest != want {
			return fmt.Sprintf("destination %q rewritten to %q, documented resolution is %q (base %s dir %q)", x.dest, y.dest, want, c.Base, c.Dir)
		}
	}
	return ""
}

func judgeEsc(c EscCase) string {
	e, err := call("escape", "", "", c.U)
	if err != nil {
		panic("infrastructure: " + err.Error())
	}
	if e.Panic != "" {
		return "markdownURLEscape panicked: " + e.Panic
	}
	u, err := call("unescape", "", "", e.Out)
	if err != nil {
		panic("infrastructure: " + err.Error())
	}
	if u.Panic != "" || u.Err != "" {
		return "markdownUnescape failed: " + u.Panic + u.Err
	}
	if !bytes.Equal(u.Out, c.U) {
		return fmt.Sprintf("markdownUnescape(markdownURLEscape(%q)) = %q (escaped form %q)", c.U, u.Out, e.Out)
	}
	return ""
}

func init() {
	ev.RegisterReplay("replace", func(t ev.TB, raw json.RawMessage) {
		var c Case
		if err := json.Unmarshal(raw, &c); err != nil {
			t.Fatalf("bad case: %v", err)
		}
		if msg := judge(c); msg != "" {
			t.Fatalf("%s", msg)
		}
	})
	ev.RegisterReplay("escape", func(t ev.TB, raw json.RawMessage) {
		var c EscCase
		if err := json.Unmarshal(raw, &c); err != nil {
			t.Fatalf("bad case: %v", err)
		}
		if msg := judgeEsc(c); msg != "" {
			t.Fatalf("%s", msg)
		}
	})
}

// ---------------------------------------------------------------- generator

var dests = []string{"api", "api.html", "api.md", "a/b", "a/b/", "../x", "../x.html", "/abs", "/abs/", "/", "./", ".", "x.png", "a.b.c", "?q=1", "#frag", "api#frag", "api?x=1&y=2", "api.html?x#f",
	"http://h.com/p", "https://h.com", "//other.host/p", "mailto:a@b.c", "a(b)c", "a\\)b", "a\\(b", "a\\*b", "a&amp;b", "a%20b", "a_b", "a\\_b", "x\\\\y", "é", "a+b", "a:b", "0", "-", "..", "api.HTML", "dir.d/file", "a//b"}
var texts = []string{"text", "API", "a b", "*em*", "`code`", "", "x\\]y", "a [nested] b", "[", "é"}
var textsNested = []string{"![i](img.png)", "[in](ner)", "a ![i](img.png) b"}
var titles = []string{"", "", "", ` "title"`, ` 'title'`, ` (title)`, ` "a \" b"`, ` "[x](y)"`}
var words = []string{"word", "foo", "bar", "a", "1.", "x_y", "é", "&amp;", "\\*", "\\[", "\\]", "]", "(", ")", "!", "<", ">", "**b**", "_e_", "\\", "https://plain.example/x"}

func genLink(t *rapid.T) string {
	d := rapid.SampledFrom(dests).Draw(t, "dest")
	if rapid.IntRange(0, 5).Draw(t, "angle") == 0 {
		d = "<" + strings.ReplaceAll(d, " ", "") + ">"
		if rapid.IntRange(0, 2).Draw(t, "sp") == 0 {
			d = "<a b>"
		}
	}
	pre := ""
	if rapid.IntRange(0, 6).Draw(t, "img") == 0 {
		pre = "!"
	}
	sp := ""
	if rapid.IntRange(0, 6).Draw(t, "dsp") == 0 {
		sp = " "
	}
	txt := rapid.SampledFrom(texts).Draw(t, "text")
	if ev.IsKnown("C29-malformed-brackets") && (txt == "[" || txt == "a [nested] b") {
		txt = "text"
	}
	if !ev.IsKnown("C29-nested-image-in-link-text") && rapid.IntRange(0, 5).Draw(t, "nested") == 0 {
		txt = rapid.SampledFrom(textsNested).Draw(t, "ntext")
	}
	return pre + "[" + txt + "](" + sp + d + rapid.SampledFrom(titles).Draw(t, "title") + sp + ")"
}

// genInline produces one line of inline content (no newline).
func genInline(t *rapid.T, sw switches) string {
	n := rapid.IntRange(1, 5).Draw(t, "ninl")
	var parts []string
	for i := 0; i < n; i++ {
		switch rapid.IntRange(0, 13).Draw(t, "inl") {
		case 0, 1, 2:
			w := rapid.SampledFrom(words).Draw(t, "w")
			if !sw.malformed && (w == "]" || w == "(" || w == ")" || w == "<" || w == ">" || w == "!" || w == "\\") {
				w = "word"
			}
			parts = append(parts, w)
		case 3, 4, 5, 6:
			parts = append(parts, genLink(t))
		case 7:
			ticks := strings.Repeat("`", rapid.IntRange(1, 3).Draw(t, "ticks"))
			parts = append(parts, ticks+" "+genLink(t)+" "+ticks)
		case 8:
			parts = append(parts, "\\"+genLink(t))
		case 9:
			if !sw.htmlInline {
				parts = append(parts, rapid.SampledFrom([]string{"<b>x</b>", "<br>", "<br/>", "<span title=\"[x](y)\">y</span>", "<img src=\"i\">", "<!-- [c](d) -->"}).Draw(t, "htmlb"))
				break
			}
			parts = append(parts, rapid.SampledFrom([]string{"<span title=\"[x](y)\">", "</span>", "<a href=\"z\">", "</a>", "<br>", "<br/>", "<!-- [c](d) -->", "<b>", "</b>", "<img src=\"i\">", "<x-y a='[p](q)'>"}).Draw(t, "html"))
		case 10:
			if !sw.htmlInline {
				parts = append(parts, "word")
				break
			}
			parts = append(parts, rapid.SampledFrom([]string{"<http://auto.link/x>", "<a@b.c>"}).Draw(t, "auto"))
		case 11:
			parts = append(parts, "["+rapid.SampledFrom([]string{"ref", "Ref", "r2", "undefined"}).Draw(t, "rl")+"]"+rapid.SampledFrom([]string{"", "[]", "[ref]", "[r2]"}).Draw(t, "rl2"))
		case 12:
			if !sw.malformed {
				parts = append(parts, "word")
				break
			}
			parts = append(parts, "["+rapid.SampledFrom(texts).Draw(t, "t2")+"]("+rapid.SampledFrom([]string{"", " ", "a b", "a\"t\"", "a 'x", "(", "a(b", "<a", "a\tb"}).Draw(t, "bad")+")")
		case 13:
			if sw.multilineSpan {
				parts = append(parts, rapid.SampledFrom([]string{"`", "``"}).Draw(t, "open"))
			} else {
				parts = append(parts, "word")
			}
		}
	}
	line := strings.Join(parts, " ")
	if !sw.htmlBlocks && strings.HasPrefix(line, "<") {
		line = "word " + line // a line that starts with a tag would open an HTML block
	}
	return line
}

var refDefs = []string{"[ref]: api", "[ref]: api.html \"title\"", "[r2]: <a/b> 'title'", "[r2]: /abs (t)", "  [ref]: ../x", "[ref]:", "[ref]: a b", "[r2]: #frag", "[ref]: http://h.com/x", "[ref]: api \"bad", "[ref] : api", "[]: x", "[a\\]b]: dest", "    [ref]: indented"}

type switches struct {
	multilineSpan bool // unclosed backtick runs that make code spans span lines
	htmlBlocks    bool
	lazyIndent    bool // indented lines that continue a paragraph
	refInPara     bool // reference-definition-looking line inside a paragraph
	containers    bool // block quotes and lists
	tabs          bool
	malformed     bool // stray brackets/parentheses, ill-formed links
	htmlInline    bool // unbalanced inline tags, autolinks
}

func genDoc(t *rapid.T, sw switches) string {
	var b strings.Builder
	nb := rapid.IntRange(1, 6).Draw(t, "nblocks")
	for i := 0; i < nb; i++ {
		kind := rapid.IntRange(0, 13).Draw(t, "block")
		prefix := ""
		if sw.containers && rapid.IntRange(0, 4).Draw(t, "cont") == 0 {
			prefix = rapid.SampledFrom([]string{"> ", "- ", "1. ", "* ", ">", "  - "}).Draw(t, "prefix")
		}
		switch kind {
		case 0, 1, 2, 3:
			nl := rapid.IntRange(1, 3).Draw(t, "plines")
			for l := 0; l < nl; l++ {
				ind := ""
				if l > 0 && sw.lazyIndent && rapid.IntRange(0, 4).Draw(t, "lazy") == 0 {
					ind = rapid.SampledFrom([]string{"    ", "     ", " ", "   "}).Draw(t, "ind")
					if sw.tabs && rapid.Bool().Draw(t, "tab") {
						ind = "\t"
					}
				}
				if l > 0 && sw.refInPara && rapid.IntRange(0, 5).Draw(t, "rip") == 0 {
					b.WriteString(prefix + rapid.SampledFrom(refDefs).Draw(t, "refp") + "\n")
					continue
				}
				b.WriteString(prefix + ind + genInline(t, sw) + "\n")
				if l > 0 {
					prefix = strings.Repeat(" ", len(prefix)) // continuation
					if strings.HasPrefix(strings.TrimSpace(prefix), ">") {
						prefix = "> "
					}
				}
			}
		case 4:
			b.WriteString(prefix + strings.Repeat("#", rapid.IntRange(1, 6).Draw(t, "h")) + " " + genInline(t, sw) + "\n")
		case 5:
			b.WriteString(prefix + genInline(t, sw) + "\n" + strings.Repeat(" ", len(prefix)) + rapid.SampledFrom([]string{"===", "---", "-"}).Draw(t, "setext") + "\n")
		case 6:
			fc := rapid.SampledFrom([]string{"```", "~~~", "````", "~~~~", "  ```", "   ~~~"}).Draw(t, "fence")
			info := rapid.SampledFrom([]string{"", "go", " md", "a`b"}).Draw(t, "info")
			if strings.Contains(fc, "`") && strings.Contains(info, "`") && (!sw.multilineSpan || !rapid.Bool().Draw(t, "badinfo")) {
				info = ""
			}
			b.WriteString(prefix + fc + info + "\n")
			for l := rapid.IntRange(0, 3).Draw(t, "flines"); l > 0; l-- {
				b.WriteString(strings.Repeat(" ", len(prefix)) + rapid.SampledFrom([]string{genLink(t), "[ref]: api", "", "```x", "~~~ y", "  " + genLink(t)}).Draw(t, "fl") + "\n")
			}
			if rapid.IntRange(0, 5).Draw(t, "close") != 0 {
				closer := strings.TrimSpace(fc)
				if rapid.IntRange(0, 3).Draw(t, "longer") == 0 {
					closer += closer[:1]
				}
				b.WriteString(strings.Repeat(" ", len(prefix)) + closer + "\n")
			}
		case 7:
			ind := "    "
			if sw.tabs && rapid.Bool().Draw(t, "tab") {
				ind = "\t"
			}
			b.WriteString("\n")
			for l := rapid.IntRange(1, 2).Draw(t, "ilines"); l > 0; l-- {
				b.WriteString(ind + genLink(t) + "\n")
			}
		case 8:
			if !sw.htmlBlocks {
				// well-formed HTML blocks only: the opening tag alone on its line after a blank line,
				// content without blank lines (raw-text elements may contain them), the matching
				// closing tag alone on its line, then a blank line.
				el := rapid.SampledFrom([]string{"div", "pre", "script", "style", "textarea", "table", "section", "!--"}).Draw(t, "wfel")
				if !strings.HasSuffix(b.String(), "\n\n") && b.Len() > 0 {
					b.WriteString("\n")
				}
				raw := el == "pre" || el == "script" || el == "style" || el == "textarea" || el == "!--"
				if el == "!--" {
					b.WriteString("<!--\n")
				} else {
					b.WriteString("<" + el + rapid.SampledFrom([]string{"", " class=\"x\"", " title=\"[x](y)\""}).Draw(t, "wfattr") + ">\n")
				}
				for l := rapid.IntRange(0, 3).Draw(t, "wflines"); l > 0; l-- {
					ln := rapid.SampledFrom([]string{genLink(t), "[ref]: api", "text", "<b>bold</b>", "    " + genLink(t)}).Draw(t, "wfl")
					if raw && rapid.IntRange(0, 3).Draw(t, "wfblank") == 0 {
						ln = ""
					}
					if el == "!--" {
						ln = strings.ReplaceAll(ln, "--", "- -")
					}
					b.WriteString(ln + "\n")
				}
				if el == "!--" {
					b.WriteString("-->\n\n")
				} else {
					b.WriteString("</" + el + ">\n\n")
				}
				ev.Label("wellformed_html_block")
				continue
			}
			open := rapid.SampledFrom([]string{"<div>", "<div class=\"x\">", "<pre>", "<script>", "<style>", "<textarea>", "<!--", "<?php", "<!DOCTYPE x", "<![CDATA[", "<table>", "<span>", "<custom-el>", "</div>", "<p>", "<details>"}).Draw(t, "open")
			b.WriteString(open + rapid.SampledFrom([]string{"", " " + genLink(t)}).Draw(t, "sameline") + "\n")
			for l := rapid.IntRange(0, 3).Draw(t, "hlines"); l > 0; l-- {
				b.WriteString(rapid.SampledFrom([]string{genLink(t), "", "[ref]: api", "<b>", "text"}).Draw(t, "hl") + "\n")
			}
			b.WriteString(rapid.SampledFrom([]string{"</div>", "</pre>", "</script>", "</style>", "</textarea>", "-->", "?>", ">", "]]>", "</table>", "", "</span>", "</details>"}).Draw(t, "hclose") + "\n")
		case 9, 10:
			if !sw.refInPara && !strings.HasSuffix(b.String(), "\n\n") && b.Len() > 0 {
				b.WriteString("\n") // a definition cannot interrupt a paragraph: keep it apart
			}
			rd := rapid.SampledFrom(refDefs).Draw(t, "ref")
			if !sw.multilineSpan && (rd == "[ref]:" || rd == "[ref]: api \"bad") {
				rd = "[ref]: api"
			}
			b.WriteString(prefix + rd + "\n")
		case 11:
			b.WriteString(rapid.SampledFrom([]string{"***", "---", "___"}).Draw(t, "hr") + "\n")
		case 12:
			b.WriteString(prefix + genLink(t) + "\n")
		case 13:
			b.WriteString("| a | " + genLink(t) + " |\n|---|---|\n")
		}
		if rapid.IntRange(0, 3).Draw(t, "blank") != 0 {
			b.WriteString("\n")
		}
	}
	s := b.String()
	if rapid.IntRange(0, 6).Draw(t, "noeol") == 0 {
		s = strings.TrimSuffix(s, "\n")
	}
	if rapid.IntRange(0, 8).Draw(t, "crlf") == 0 {
		s = strings.ReplaceAll(s, "\n", "\r\n")
	}
	return s
}

var bases = []string{"https://example.com", "https://example.com/", "https://example.com/docs", "https://example.com/docs/", "http://h.org:8080/a/b/"}
var dirs = []string{"", "docs", "a/b", "."}

func currentSwitches() switches {
	return switches{
		multilineSpan: !ev.IsKnown("C29-code-span-across-lines"),
		htmlBlocks:    !ev.IsKnown("C29-html-block-boundaries"),
		lazyIndent:    !ev.IsKnown("C29-indented-paragraph-continuation"),
		refInPara:     !ev.IsKnown("C29-refdef-inside-paragraph"),
		containers:    !ev.IsKnown("C29-container-blocks"),
		tabs:          true,
		malformed:     !ev.IsKnown("C29-malformed-brackets"),
		htmlInline:    !ev.IsKnown("C29-html-block-boundaries"),
	}
}

func TestPropReplace(t *testing.T) {
	sw := currentSwitches()
	ev.Check(t, ev.N{Quick: 12000, Thorough: 1500000}, func(t *rapid.T) {
		src := genDoc(t, sw)
		c := Case{Src: []byte(src), Show: src, Base: rapid.SampledFrom(bases).Draw(t, "base"), Dir: rapid.SampledFrom(dirs).Draw(t, "dir")}
		ev.Eval()
		hasLink, hasTrap := false, false
		for _, it := range flatten(c.Src) {
			if it.isLk {
				hasLink = true
			}
			if (it.kind == "CodeSpan" || it.kind == "FencedCodeBlock" || it.kind == "CodeBlock" || it.kind == "HTMLBlock" || it.kind == "RawHTML") || strings.Contains(it.text, "](") {
				hasTrap = true
			}
		}
		if hasLink {
			ev.Label("has_link")
		}
		if hasLink && hasTrap {
			ev.Label("nontrivial")
			ev.NontrivialSample(map[string]string{"doc": src, "base": c.Base, "dir": c.Dir}, src, c.Base, c.Dir)
		}
		if msg := judge(c); msg != "" {
			if id := classify(c, msg); id != "" && ev.Known(id) {
				return
			}
			ev.Fail(t, "replace", c, "%s", msg)
		}
	})
}

var (
	reRefDefLine       = regexp.MustCompile(`(?m)^[^\n]*\S[^\n]*\r?\n {0,3}\[[^\]\n]+\]:[ \t]*\S`)
	reContainer        = regexp.MustCompile(`(?m)^ {0,3}(>|[-+*]( |$)|[0-9]{1,9}[.)]( |$))`)
	reNestedImage      = regexp.MustCompile(`\[[^\]\n]*!\[`)
	reBracketBeforeTag = regexp.MustCompile(`(?m)\[[^\n]*<[A-Za-z/!?]`)
	reOpenTag          = regexp.MustCompile(`<[A-Za-z][^>\n]*>`)
	reDanglingRefDef   = regexp.MustCompile(`(?m)^ {0,3}\[[^\]\n]+\]:[ \t]*\r?$`)
	reMalformed        = regexp.MustCompile(`\]\([^)\n]*[(\[]|\[[^\]\n]*\[|\( *\)|\]\( *[^) \n]+ +[^"'() \n]`)
	reNestedInLink     = regexp.MustCompile(`\[[^\]\n]*\[[^\]\n]*\]\(`)
)

func hasMultilineCodeSpan(src []byte) bool {
	for _, it := range flatten(src) {
		if it.kind == "CodeSpan(multiline)>Text" {
			return true
		}
	}
	return false
}

// classify maps a live failure to a recorded known finding by its specific
// shape (node kind that changed plus the construct present in the source).
func classify(c Case, msg string) string {
	f := lastFailure
	src := string(c.Src)
	switch {
	case f.Kind == "text-changed" && f.NodeKind == "HTMLBlock":
		return "C29-html-block-boundaries"
	case f.Kind == "text-changed" && (f.NodeKind == "FencedCodeBlock" || f.NodeKind == "CodeBlock") && !reContainer.MatchString(src) && reOpenTag.MatchString(src):
		return "C29-html-block-boundaries"
	case (f.Kind == "structure" || f.Kind == "kind-changed" || f.Kind == "text-changed") && reDanglingRefDef.MatchString(src):
		return "C29-code-span-across-lines"
	case reMalformed.MatchString(src) && (f.Kind == "text-changed" || f.Kind == "dest" || f.Kind == "structure" || f.Kind == "kind-changed"):
		return "C29-malformed-brackets"
	case f.Kind == "text-changed" && (f.NodeKind == "CodeSpan(multiline)>Text" || f.NodeKind == "Text" && hasMultilineCodeSpan(c.Src)):
		return "C29-code-span-across-lines"
	case f.Kind == "text-changed" && (f.NodeKind == "FencedCodeBlock" || f.NodeKind == "CodeBlock") && reContainer.MatchString(src):
		return "C29-container-blocks"
	case f.Kind == "text-changed" && f.NodeKind == "Text" && strings.Contains(f.Old, ":") && reRefDefLine.MatchString(src):
		return "C29-refdef-inside-paragraph"
	case f.Kind == "text-changed" && f.NodeKind == "RawHTML" && reBracketBeforeTag.MatchString(src):
		return "C29-raw-html-after-open-bracket"
	case f.Kind == "text-changed" && (f.NodeKind == "Link" || f.NodeKind == "Image") && strings.Contains(f.Old, "](") && (reNestedImage.MatchString(src) || reNestedInLink.MatchString(src)):
		return "C29-nested-image-in-link-text"
	}
	return ""
}

func TestPropEscapePair(t *testing.T) {
	atoms := []string{"\\", "\\\\", "a", "(", ")", "*", "_", "#", "&", "<", ">", "~", "|", "!", ".", "-", "+", "=", "[", "]", "{", "}", "`", "/", ":", "?", "%20", "x", "\"", "'", " ", "n", "0"}
	ev.Check(t, ev.N{Quick: 6000, Thorough: 600000}, func(t *rapid.T) {
		n := rapid.IntRange(0, 10).Draw(t, "n")
		var b strings.Builder
		for i := 0; i < n; i++ {
			b.WriteString(rapid.SampledFrom(atoms).Draw(t, "a"))
		}
		s := b.String()
		if rapid.IntRange(0, 4).Draw(t, "url") == 0 {
			u := url.URL{Scheme: "https", Host: "h.com", Path: "/" + s, RawQuery: rapid.SampledFrom([]string{"", "a=1", "x=\\"}).Draw(t, "q")}
			s = u.String()
		}
		c := EscCase{U: []byte(s)}
		ev.Eval()
		ev.Label("escape_pair")
		if strings.Contains(s, "\\") {
			ev.NontrivialSample(map[string]string{"url": s}, "esc", s)
		}
		if msg := judgeEsc(c); msg != "" {
			ev.Fail(t, "escape", c, "%s", msg)
		}
	})
}

// C23 — the in-memory Files type is a well-behaved io/fs file system.
package c23

import (
	"encoding/json"
	"errors"
	"fmt"
	"io"
	"io/fs"
	"path"
	"sort"
	"strings"
	"testing"
	"testing/fstest"

	"github.com/open2b/scriggo"
	"pgregory.net/rapid"

	"verif/harness/lib/ev"
)

func TestMain(m *testing.M)    { ev.Main(m, "C23") }
func TestReplay(t *testing.T)  { ev.Replay(t) }
func TestRegress(t *testing.T) { ev.Regress(t) }

type Case struct {
	Files map[string]string `json:"files"` // name -> content
	Pages []int             `json:"pages"` // ReadDir arguments applied to every directory
	Bufs  []int             `json:"bufs"`  // Read buffer sizes, cycled
	Probe []string          `json:"probe"` // extra names to Open (missing / invalid)
	Mode  string            `json:"mode"`  // "all" | "testfs" | "paging" | "files"
}

// the first four are used for directories; later names extend them with bytes below and above '/' so that
// a sibling can share a prefix with a directory name ("a/…" next to "ab", "a1", "a-", "a.b.c")
var segs = []string{"a", "b", "c", "ab", "a1", "a-", "aé", "b2", "c_", "d.txt", "e.html", ".h", "..x", "é", "日本", "a.b.c", "x-y", "Z", "a b", "0", "abc"}

func genFiles(t *rapid.T) map[string]string {
	files := map[string]string{}
	isDir := map[string]bool{}
	n := rapid.IntRange(0, 14).Draw(t, "nfiles")
	for i := 0; i < n; i++ {
		depth := rapid.IntRange(1, 5).Draw(t, "depth")
		parts := make([]string, depth)
		for j := range parts {
			// few distinct names near the root so that directories get several children
			k := len(segs)
			if j < depth-1 {
				k = 4
			}
			parts[j] = segs[rapid.IntRange(0, k-1).Draw(t, "seg")]
		}
		name := strings.Join(parts, "/")
		// non-conflicting: a name may not be both a file and a directory
		if isDir[name] {
			continue
		}
		conflict := false
		for j := 1; j < depth; j++ {
			if _, ok := files[strings.Join(parts[:j], "/")]; ok {
				conflict = true
			}
		}
		if conflict {
			continue
		}
		for j := 1; j < depth; j++ {
			isDir[strings.Join(parts[:j], "/")] = true
		}
		clen := rapid.SampledFrom([]int{0, 0, 1, 3, 17, 600}).Draw(t, "clen")
		files[name] = strings.Repeat("x", clen)
		if clen > 0 {
			files[name] = name[:1] + strings.Repeat("y", clen-1)
		}
	}
	return files
}

// model of the tree
type node struct {
	dir      bool
	content  string
	children []string // base names, sorted
}

func modelOf(files map[string]string) map[string]*node {
	m := map[string]*node{".": {dir: true}}
	add := func(parent, base string) {
		p := m[parent]
		for _, c := range p.children {
			if c == base {
				return
			}
		}
		p.children = append(p.children, base)
	}
	for name, content := range files {
		parts := strings.Split(name, "/")
		parent := "."
		for j := 1; j <= len(parts); j++ {
			full := strings.Join(parts[:j], "/")
			if j == len(parts) {
				m[full] = &node{content: content}
			} else if m[full] == nil {
				m[full] = &node{dir: true}
			}
			add(parent, parts[j-1])
			parent = full
		}
	}
	for _, n := range m {
		sort.Strings(n.children)
	}
	return m
}

func judge(c Case) (msg string) {
	defer func() {
		if e := recover(); e != nil {
			msg = fmt.Sprintf("panic: %v", e)
		}
	}()
	fsys := scriggo.Files{}
	for n, s := range c.Files {
		fsys[n] = []byte(s)
	}
	m := modelOf(c.Files)
	all := func(mode string) bool { return c.Mode == "" || c.Mode == "all" || c.Mode == mode }

	if all("testfs") {
		var names []string
		for n := range m {
			if n != "." {
				names = append(names, n)
			}
		}
		sort.Strings(names)
		if err := fstest.TestFS(fsys, names...); err != nil {
			s := err.Error()
			if len(s) > 1500 {
				s = s[:1500] + "…"
			}
			return "fstest.TestFS: " + s
		}
	}

	if all("paging") {
		for name, n := range m {
			if !n.dir {
				continue
			}
			f, err := fsys.Open(name)
			if err != nil {
				return fmt.Sprintf("Open(%q) directory: %v", name, err)
			}
			d, ok := f.(fs.ReadDirFile)
			if !ok {
				return fmt.Sprintf("Open(%q) is not a ReadDirFile", name)
			}
			st, err := f.Stat()
			if err != nil || !st.IsDir() || !st.Mode().IsDir() || st.Name() != path.Base(name) {
				return fmt.Sprintf("Stat of directory %q: IsDir=%v name=%q err=%v", name, st.IsDir(), st.Name(), err)
			}
			pos := 0
			for _, k := range c.Pages {
				ents, err := d.ReadDir(k)
				remaining := n.children[pos:]
				var want []string
				var wantErr error
				if k <= 0 {
					want = remaining
				} else {
					if len(remaining) == 0 {
						wantErr = io.EOF
					}
					want = remaining
					if len(want) > k {
						want = want[:k]
					}
				}
				if err != wantErr {
					return fmt.Sprintf("dir %q pos %d: ReadDir(%d) err = %v, want %v", name, pos, k, err, wantErr)
				}
				if len(ents) != len(want) {
					return fmt.Sprintf("dir %q pos %d: ReadDir(%d) returned %d entries %v, want %d %v", name, pos, k, len(ents), entNames(ents), len(want), want)
				}
				for i, e := range ents {
					child := want[i]
					full := child
					if name != "." {
						full = name + "/" + child
					}
					cn := m[full]
					if e.Name() != child {
						return fmt.Sprintf("dir %q: entry %d is %q, want %q (sorted listing %v)", name, pos+i, e.Name(), child, n.children)
					}
					if e.IsDir() != cn.dir {
						return fmt.Sprintf("dir %q: entry %q IsDir=%v, want %v", name, child, e.IsDir(), cn.dir)
					}
					if e.Type().IsDir() != cn.dir || e.Type() != e.Type().Type() {
						return fmt.Sprintf("dir %q: entry %q Type=%v, want dir=%v and only type bits", name, child, e.Type(), cn.dir)
					}
					info, err := e.Info()
					if err != nil {
						return fmt.Sprintf("dir %q: entry %q Info: %v", name, child, err)
					}
					if info.Name() != child || info.IsDir() != cn.dir || info.Mode().IsDir() != cn.dir {
						return fmt.Sprintf("dir %q: entry %q Info name=%q IsDir=%v mode=%v", name, child, info.Name(), info.IsDir(), info.Mode())
					}
					if !cn.dir && info.Size() != int64(len(cn.content)) {
						return fmt.Sprintf("dir %q: entry %q Info.Size=%d, want %d", name, child, info.Size(), len(cn.content))
					}
				}
				pos += len(want)
			}
			f.Close()
		}
	}

	if all("files") {
		bi := 0
		for name, n := range m {
			if n.dir {
				continue
			}
			f, err := fsys.Open(name)
			if err != nil {
				return fmt.Sprintf("Open(%q): %v", name, err)
			}
			st, err := f.Stat()
			if err != nil || st.IsDir() || st.Size() != int64(len(n.content)) || st.Name() != path.Base(name) || !st.Mode().IsRegular() {
				return fmt.Sprintf("Stat(%q): size=%d name=%q mode=%v err=%v", name, st.Size(), st.Name(), st.Mode(), err)
			}
			var got []byte
			for steps := 0; ; steps++ {
				bs := 7
				if len(c.Bufs) > 0 {
					bs = c.Bufs[bi%len(c.Bufs)]
					bi++
				}
				if bs < 1 {
					bs = 1
				}
				buf := make([]byte, bs)
				k, err := f.Read(buf)
				if k < 0 || k > bs {
					return fmt.Sprintf("Read(%q) returned n=%d for a buffer of %d", name, k, bs)
				}
				got = append(got, buf[:k]...)
				if err == io.EOF {
					break
				}
				if err != nil {
					return fmt.Sprintf("Read(%q): %v", name, err)
				}
				if steps > len(n.content)+10 {
					return fmt.Sprintf("Read(%q) does not reach EOF", name)
				}
			}
			if string(got) != n.content {
				return fmt.Sprintf("Read(%q) = %q, want %q", name, got, n.content)
			}
			if err := f.Close(); err != nil {
				return fmt.Sprintf("Close(%q): %v", name, err)
			}
			if _, err := f.Read(make([]byte, 1)); err == nil || err == io.EOF && len(n.content) > 0 {
				// after Close a Read must fail (io/fs: behaviour undefined, but fstest and os return an error);
				// only flagged when it silently succeeds.
				if err == nil {
					return fmt.Sprintf("Read(%q) after Close succeeded", name)
				}
			}
		}
		for _, p := range c.Probe {
			if _, ok := m[p]; ok {
				continue
			}
			f, err := fsys.Open(p)
			if err == nil {
				f.Close()
				return fmt.Sprintf("Open(%q) of a name that does not exist succeeded", p)
			}
			if fs.ValidPath(p) && !errors.Is(err, fs.ErrNotExist) {
				return fmt.Sprintf("Open(%q): error %v does not satisfy fs.ErrNotExist", p, err)
			}
			var pe *fs.PathError
			if !errors.As(err, &pe) {
				return fmt.Sprintf("Open(%q): error %T is not a *fs.PathError", p, err)
			}
		}
	}
	return ""
}

func entNames(es []fs.DirEntry) []string {
	var s []string
	for _, e := range es {
		s = append(s, e.Name())
	}
	return s
}

func init() {
	ev.RegisterReplay("files", func(t ev.TB, raw json.RawMessage) {
		var c Case
		if err := json.Unmarshal(raw, &c); err != nil {
			t.Fatalf("bad case: %v", err)
		}
		if msg := judge(c); msg != "" {
			t.Fatalf("%s", msg)
		}
	})
}

func TestPropFiles(t *testing.T) {
	ev.Check(t, ev.N{Quick: 2400, Thorough: 200000}, func(t *rapid.T) {
		c := Case{Files: genFiles(t), Mode: "all"}
		c.Pages = rapid.SliceOfN(rapid.SampledFrom([]int{1, 1, 2, 3, 5, 100, -1, 0, -1}), 1, 6).Draw(t, "pages")
		c.Pages = append(c.Pages, -1, 1)
		c.Bufs = rapid.SliceOfN(rapid.SampledFrom([]int{1, 2, 5, 16, 1000}), 1, 4).Draw(t, "bufs")
		c.Probe = rapid.SliceOfN(rapid.SampledFrom([]string{"nope", "a/nope", "a/", "/a", "a//b", "..", "a/../b", "", "./a", "a/.", "d.txt/x", "é"}), 0, 4).Draw(t, "probe")
		ev.Eval()
		m := modelOf(c.Files)
		levels, wide := 0, false
		for name, n := range m {
			if n.dir && len(n.children) >= 3 {
				wide = true
			}
			if d := strings.Count(name, "/") + 1; n.dir && name != "." && d > levels {
				levels = d
			}
		}
		if len(c.Files) == 0 {
			ev.Label("empty_map")
		}
		if levels >= 2 && wide {
			ev.Label("nontrivial")
			var names []string
			for n := range c.Files {
				names = append(names, n)
			}
			sort.Strings(names)
			ev.NontrivialSample(map[string]any{"files": names, "pages": c.Pages}, strings.Join(names, "|"), fmt.Sprint(c.Pages))
		}
		if msg := judge(c); msg != "" {
			ev.Fail(t, "files", c, "%s", msg)
		}
	})
}

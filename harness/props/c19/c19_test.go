// C19 — code reaches only the host functionality the embedder supplies: imports resolve
// through the configured importer only, unknown globals and unsupplied packages fail the
// build, the go statement needs AllowGoStmt, and at run time the host functions executed
// are exactly the supplied ones the code calls.
package c19

import (
	"encoding/json"
	"errors"
	"fmt"
	"sort"
	"strings"
	"sync"
	"testing"

	"github.com/open2b/scriggo"
	"github.com/open2b/scriggo/native"
	"pgregory.net/rapid"

	"verif/harness/lib/ev"
	"verif/harness/lib/sg"
)

func TestMain(m *testing.M)    { ev.Main(m, "C19") }
func TestReplay(t *testing.T)  { ev.Replay(t) }
func TestRegress(t *testing.T) { ev.Regress(t) }

// universe of package paths a case may mention. The first four can be supplied.
var suppliable = []string{"host", "x/tools", "os", "unsafe"}
var neverSupplied = []string{"fmt", "syscall", "os/exec", "net/http", "reflect", "runtime", "C", "x/nothere", "host/internal", "Host", "host ", "plugin"}

// Call is one call of a supplied function written in the source.
type Call struct {
	Pkg  string `json:"pkg"`  // index into the imported supplied packages (its path)
	Fn   string `json:"fn"`   // F | G | Obj.M | Ptr.PM
	Mode string `json:"mode"` // direct | value | closure | defer | go | macro
	Arg  int    `json:"arg"`
}

// Case is a program or template with a host configuration.
type Case struct {
	Kind     string   `json:"kind"`     // program | template
	Supplied []string `json:"supplied"` // package paths the importer returns
	Importer string   `json:"importer"` // packages | combined | custom | nil
	Imports  []string `json:"imports"`  // import paths written in the source, in order
	Alias    []string `json:"alias"`    // per import: "" | name | "." | "_"
	Calls    []Call   `json:"calls"`
	GoStmt   bool     `json:"go_stmt"`   // the source contains a go statement
	GoForm   int      `json:"go_form"`   // which form of go statement (see goForms) when no call uses the go mode
	AllowGo  bool     `json:"allow_go"`  // BuildOptions.AllowGoStmt
	Bad      string   `json:"bad"`       // "" | undeclared-global | unexported | undeclared-member
	Globals  bool     `json:"globals"`   // template: functions are also declared as globals
	Dead     bool     `json:"dead_code"` // an unsupplied reference sits in dead code (must still fail)
}

// goForms are go statements with every kind of callee: a function literal, a declared
// function value, and the builtins that may be used in a go statement.
var goForms = []string{
	"\t{\n\t\tdone := make(chan int)\n\t\tgo func() { done <- 1 }()\n\t\tn += <-done\n\t}\n",
	"\t{\n\t\tdone := make(chan int, 1)\n\t\tf := func(c chan int) { c <- 1 }\n\t\tgo f(done)\n\t\tn += <-done\n\t}\n",
	"\tgo println(\"g\")\n",
	"\tgo print(\"g\")\n",
	"\t{\n\t\tc := make(chan int)\n\t\tgo close(c)\n\t\t<-c\n\t}\n",
	"\t{\n\t\tm := map[string]int{\"k\": 1}\n\t\tgo delete(m, \"z\")\n\t}\n",
	"\t{\n\t\td := make([]int, 1)\n\t\tgo copy(d, []int{})\n\t}\n",
	"\tgo recover()\n",
}

var goFormsTemplate = []string{
	"{% if true %}{% done := make(chan int) %}{% go func() { done <- 1 }() %}{% n += <-done %}{% end %}",
	"{% if true %}{% done := make(chan int, 1) %}{% f := func(c chan int) { c <- 1 } %}{% go f(done) %}{% n += <-done %}{% end %}",
	"{% go println(\"g\") %}",
	"{% go print(\"g\") %}",
	"{% if true %}{% c := make(chan int) %}{% go close(c) %}{% _, _ = <-c %}{% end %}",
	"{% go recover() %}",
}

// recorder collects the host functions executed.
type recorder struct {
	mu    sync.Mutex
	calls []string
}

func (r *recorder) add(s string) {
	r.mu.Lock()
	r.calls = append(r.calls, s)
	r.mu.Unlock()
}

// Obj is a supplied value with methods.
type Obj struct {
	name string
	rec  *recorder
	// secret is not reachable from the code
	secret int
}

func (o Obj) M(x int) int {
	o.rec.add(fmt.Sprintf("%s.Obj.M(%d)", o.name, x))
	return x + 1
}

func (o *Obj) PM(x int) int {
	o.rec.add(fmt.Sprintf("%s.Ptr.PM(%d)", o.name, x))
	return x + 2
}

func (o Obj) hidden() int { return o.secret }

func pkgName(path string) string {
	if i := strings.LastIndex(path, "/"); i >= 0 {
		return path[i+1:]
	}
	return path
}

func makePackage(path string, rec *recorder) native.Package {
	name := pkgName(path)
	o := Obj{name: path, rec: rec}
	return native.Package{Name: name, Declarations: native.Declarations{
		"F":   func(x int) int { rec.add(fmt.Sprintf("%s.F(%d)", path, x)); return x },
		"G":   func(x int) int { rec.add(fmt.Sprintf("%s.G(%d)", path, x)); return x * 2 },
		"Obj": &o,
		"Ptr": func() **Obj { p := &Obj{name: path, rec: rec}; return &p }(),
		"K":   7,
	}}
}

// recImporter records the paths it is asked for.
type recImporter struct {
	inner native.Importer
	mu    sync.Mutex
	asked []string
}

func (r *recImporter) Import(path string) (native.ImportablePackage, error) {
	r.mu.Lock()
	r.asked = append(r.asked, path)
	r.mu.Unlock()
	if r.inner == nil {
		return nil, nil
	}
	return r.inner.Import(path)
}

type customImporter map[string]native.Package

func (c customImporter) Import(path string) (native.ImportablePackage, error) {
	if p, ok := c[path]; ok {
		return p, nil
	}
	return nil, nil
}

func importerOf(c Case, rec *recorder) native.Importer {
	pk := native.Packages{}
	for _, p := range c.Supplied {
		pk[p] = makePackage(p, rec)
	}
	switch c.Importer {
	case "nil":
		return nil
	case "combined":
		a, b := native.Packages{}, native.Packages{}
		i := 0
		for p, v := range pk {
			if i%2 == 0 {
				a[p] = v
			} else {
				b[p] = v
			}
			i++
		}
		return native.CombinedImporter{a, native.Packages{}, b}
	case "custom":
		ci := customImporter{}
		for p, v := range pk {
			ci[p] = v.(native.Package)
		}
		return ci
	}
	return pk
}

func has(list []string, s string) bool {
	for _, x := range list {
		if x == s {
			return true
		}
	}
	return false
}

// ref is how the source names a declaration of the i-th import.
func ref(c Case, i int, member string) string {
	switch c.Alias[i] {
	case ".":
		return member
	case "":
		return pkgName(c.Imports[i]) + "." + member
	}
	return c.Alias[i] + "." + member
}

func importIndex(c Case, path string) int {
	for i, p := range c.Imports {
		if p == path && c.Alias[i] != "_" {
			return i
		}
	}
	return -1
}

func callExpr(c Case, k Call) string {
	i := importIndex(c, k.Pkg)
	return fmt.Sprintf("%s(%d)", ref(c, i, k.Fn), k.Arg)
}

// source writes the program or template of the case.
func source(c Case) map[string]string {
	if c.Kind == "program" {
		return map[string]string{"go.mod": "module m\n", "main.go": programSource(c)}
	}
	return map[string]string{"index.html": templateSource(c)}
}

func programSource(c Case) string {
	var b strings.Builder
	b.WriteString("package main\n\n")
	for i, p := range c.Imports {
		if c.Alias[i] == "" {
			fmt.Fprintf(&b, "import %q\n", p)
		} else {
			fmt.Fprintf(&b, "import %s %q\n", c.Alias[i], p)
		}
	}
	b.WriteString("\nfunc main() {\n\tn := 0\n")
	for i, p := range c.Imports {
		if c.Alias[i] != "_" && has(c.Supplied, p) {
			fmt.Fprintf(&b, "\tn += %s - 7\n", ref(c, i, "K")) // every import is used
		}
	}
	for _, k := range c.Calls {
		e := callExpr(c, k)
		i := importIndex(c, k.Pkg)
		switch k.Mode {
		case "direct":
			fmt.Fprintf(&b, "\tn += %s\n", e)
		case "value":
			fmt.Fprintf(&b, "\t{\n\t\tf := %s\n\t\tn += f(%d)\n\t}\n", ref(c, i, k.Fn), k.Arg)
		case "closure":
			fmt.Fprintf(&b, "\tfunc() { n += %s }()\n", e)
		case "defer":
			fmt.Fprintf(&b, "\tdefer %s\n", e)
		case "go":
			fmt.Fprintf(&b, "\t{\n\t\tdone := make(chan int)\n\t\tgo func() { done <- %s }()\n\t\tn += <-done\n\t}\n", e)
		}
	}
	if c.GoStmt && !hasMode(c, "go") {
		b.WriteString(goForms[c.GoForm%len(goForms)])
	}
	bad := badExpr(c)
	if bad != "" {
		if c.Dead {
			fmt.Fprintf(&b, "\tif false {\n\t\t_ = %s\n\t}\n", bad)
		} else {
			fmt.Fprintf(&b, "\t_ = %s\n", bad)
		}
	}
	b.WriteString("\tprintln(n)\n}\n")
	return b.String()
}

func hasMode(c Case, m string) bool {
	for _, k := range c.Calls {
		if k.Mode == m {
			return true
		}
	}
	return false
}

func badExpr(c Case) string {
	switch c.Bad {
	case "undeclared-global":
		return "Undeclared(1)"
	case "unexported":
		if i := firstUsable(c); i >= 0 {
			return ref(c, i, "Obj") + ".secret"
		}
		return "Undeclared(1)"
	case "unexported-method":
		if i := firstUsable(c); i >= 0 {
			return ref(c, i, "Obj") + ".hidden()"
		}
		return "Undeclared(1)"
	case "undeclared-member":
		if i := firstUsable(c); i >= 0 && c.Alias[i] != "." {
			return ref(c, i, "Exec") + "(1)"
		}
		return "Undeclared(1)"
	}
	return ""
}

func firstUsable(c Case) int {
	for i, p := range c.Imports {
		if c.Alias[i] != "_" && has(c.Supplied, p) {
			return i
		}
	}
	return -1
}

func templateSource(c Case) string {
	var b strings.Builder
	for i, p := range c.Imports {
		switch c.Alias[i] {
		case "":
			// in templates an import without a name declares the members in the file block
			fmt.Fprintf(&b, "{%% import %s %q %%}", pkgName(p), p)
		default:
			fmt.Fprintf(&b, "{%% import %s %q %%}", c.Alias[i], p)
		}
	}
	b.WriteString("{% var n = 0 %}")
	for i, p := range c.Imports {
		if has(c.Supplied, p) {
			fmt.Fprintf(&b, "{%% n += %s - 7 %%}", ref(c, i, "K"))
		}
	}
	for _, k := range c.Calls {
		e := callExpr(c, k)
		i := importIndex(c, k.Pkg)
		switch k.Mode {
		case "direct":
			fmt.Fprintf(&b, "{%% n += %s %%}", e)
		case "value":
			fmt.Fprintf(&b, "{%% if true %%}{%% f := %s %%}{%% n += f(%d) %%}{%% end %%}", ref(c, i, k.Fn), k.Arg)
		case "closure":
			fmt.Fprintf(&b, "{%% func() { n += %s }() %%}", e)
		case "show":
			fmt.Fprintf(&b, "[{{ %s }}]", e)
		case "go":
			fmt.Fprintf(&b, "{%% if true %%}{%% done := make(chan int) %%}{%% go func() { done <- %s }() %%}{%% n += <-done %%}{%% end %%}", e)
		}
	}
	if c.GoStmt && !hasMode(c, "go") {
		b.WriteString(goFormsTemplate[c.GoForm%len(goFormsTemplate)])
	}
	if bad := badExpr(c); bad != "" {
		if c.Dead {
			fmt.Fprintf(&b, "{%% if false %%}{{ %s }}{%% end %%}", bad)
		} else {
			fmt.Fprintf(&b, "{{ %s }}", bad)
		}
	}
	b.WriteString("{{ n }}")
	return b.String()
}

// model: must the build succeed, and which host calls happen, in which order.
func model(c Case) (builds bool, why string, calls []string) {
	for i, p := range c.Imports {
		_ = i
		if !has(c.Supplied, p) || c.Importer == "nil" {
			return false, fmt.Sprintf("import of %q, which the importer does not return", p), nil
		}
	}
	if c.GoStmt && !c.AllowGo {
		return false, "go statement without AllowGoStmt", nil
	}
	if c.Bad != "" {
		return false, "reference to " + c.Bad, nil
	}
	var deferred []string
	for _, k := range c.Calls {
		s := fmt.Sprintf("%s.%s(%d)", k.Pkg, k.Fn, k.Arg)
		if k.Mode == "defer" {
			deferred = append(deferred, s)
			continue
		}
		calls = append(calls, s)
	}
	for i := len(deferred) - 1; i >= 0; i-- {
		calls = append(calls, deferred[i])
	}
	return true, "", calls
}

func judge(c Case) string {
	rec := &recorder{}
	ri := &recImporter{inner: importerOf(c, rec)}
	files := source(c)
	var imp native.Importer = ri
	if c.Importer == "nil" {
		imp = nil
	}
	wantBuild, why, wantCalls := model(c)
	var buildErr error
	var run func() sg.Result
	if c.Kind == "program" {
		var p *scriggo.Program
		var bp any
		func() {
			defer func() { bp = recover() }()
			p, buildErr = scriggo.Build(sg.Files(files), &scriggo.BuildOptions{Packages: imp, AllowGoStmt: c.AllowGo})
		}()
		if bp != nil {
			return fmt.Sprintf("Build panicked: %v", bp)
		}
		run = func() sg.Result { return sg.RunProgram(p, sg.Opts{}) }
	} else {
		opts := sg.Opts{Packages: imp, AllowGo: c.AllowGo}
		t, res := sg.BuildTemplate(files, "index.html", opts)
		if res.BuildPanic != nil {
			return fmt.Sprintf("BuildTemplate panicked: %v", res.BuildPanic)
		}
		buildErr = res.BuildErr
		run = func() sg.Result { return sg.RunTemplate(t, opts) }
	}
	// the importer may only be asked for paths the source imports
	ri.mu.Lock()
	asked := append([]string(nil), ri.asked...)
	ri.mu.Unlock()
	for _, a := range asked {
		if !has(c.Imports, a) {
			return fmt.Sprintf("the importer was asked for %q, which the source does not import (imports %q)", a, c.Imports)
		}
	}
	if !wantBuild {
		if buildErr == nil {
			return "the build succeeds although the source has a " + why
		}
		var be *scriggo.BuildError
		if !errors.As(buildErr, &be) {
			return fmt.Sprintf("the build fails with %T, not a *BuildError: %v", buildErr, buildErr)
		}
		if len(rec.calls) > 0 {
			return fmt.Sprintf("host functions ran during a failed build: %q", rec.calls)
		}
		return ""
	}
	if buildErr != nil {
		return fmt.Sprintf("the build fails although everything is supplied: %v", buildErr)
	}
	if len(rec.calls) > 0 {
		return fmt.Sprintf("host functions ran during the build: %q", rec.calls)
	}
	res := run()
	if d := res.Describe(); d != "" {
		return "run failed: " + d
	}
	got := append([]string(nil), rec.calls...)
	if strings.Join(got, " ") != strings.Join(wantCalls, " ") {
		return fmt.Sprintf("host functions executed: %q, the code calls: %q", got, wantCalls)
	}
	return ""
}

func describe(c Case) string {
	files := source(c)
	var names []string
	for n := range files {
		if n != "go.mod" {
			names = append(names, n)
		}
	}
	sort.Strings(names)
	var b strings.Builder
	for _, n := range names {
		fmt.Fprintf(&b, "\n--- %s\n%s", n, files[n])
	}
	fmt.Fprintf(&b, "\n--- supplied %q importer=%s allow_go=%v", c.Supplied, c.Importer, c.AllowGo)
	return b.String()
}

func init() {
	ev.RegisterReplay("confine", func(t ev.TB, raw json.RawMessage) {
		var c Case
		if err := json.Unmarshal(raw, &c); err != nil {
			t.Fatalf("bad case: %v", err)
		}
		if msg := judge(c); msg != "" {
			t.Fatalf("%s%s", msg, describe(c))
		}
	})
}

func genCase(t *rapid.T) Case {
	c := Case{Kind: rapid.SampledFrom([]string{"program", "template"}).Draw(t, "kind")}
	c.Importer = rapid.SampledFrom([]string{"packages", "packages", "combined", "custom", "nil"}).Draw(t, "importer")
	for _, p := range suppliable {
		if rapid.IntRange(0, 2).Draw(t, "supply") > 0 {
			c.Supplied = append(c.Supplied, p)
		}
	}
	// imports: mostly supplied ones, sometimes one that is not
	nimp := rapid.IntRange(0, 3).Draw(t, "nimports")
	used := map[string]bool{}
	names := map[string]bool{}
	for i := 0; i < nimp; i++ {
		var p string
		switch rapid.IntRange(0, 9).Draw(t, "impkind") {
		case 0:
			p = rapid.SampledFrom(neverSupplied).Draw(t, "never")
		case 1:
			p = rapid.SampledFrom(suppliable).Draw(t, "maybe")
		default:
			if len(c.Supplied) == 0 {
				p = rapid.SampledFrom(suppliable).Draw(t, "maybe")
			} else {
				p = rapid.SampledFrom(c.Supplied).Draw(t, "supplied")
			}
		}
		if used[p] || !validPath(p) {
			continue
		}
		alias := rapid.SampledFrom([]string{"", "", "", "al" + fmt.Sprint(i), ".", "_"}).Draw(t, "alias")
		if alias == "." && names["."] {
			alias = "" // two period imports would redeclare F
		}
		if c.Kind == "template" && alias == "_" {
			alias = ""
		}
		nm := alias
		if nm == "" {
			nm = pkgName(p)
		}
		if names[nm] {
			continue
		}
		names[nm] = true
		used[p] = true
		c.Imports = append(c.Imports, p)
		c.Alias = append(c.Alias, alias)
	}
	c.AllowGo = rapid.Bool().Draw(t, "allowgo")
	c.GoStmt = rapid.IntRange(0, 3).Draw(t, "gostmt") == 0
	c.GoForm = rapid.IntRange(0, 7).Draw(t, "goform")
	// calls on the imported, supplied packages
	var callable []string
	for i, p := range c.Imports {
		if c.Alias[i] != "_" && has(c.Supplied, p) {
			callable = append(callable, p)
		}
	}
	if len(callable) > 0 {
		ncalls := rapid.IntRange(0, 6).Draw(t, "ncalls")
		modes := []string{"direct", "direct", "value", "closure", "defer", "go"}
		if c.Kind == "template" {
			modes = []string{"direct", "direct", "value", "closure", "show", "go"}
		}
		for i := 0; i < ncalls; i++ {
			k := Call{Pkg: rapid.SampledFrom(callable).Draw(t, "callpkg"), Fn: rapid.SampledFrom([]string{"F", "G", "Obj.M", "Ptr.PM"}).Draw(t, "callfn"), Mode: rapid.SampledFrom(modes).Draw(t, "callmode"), Arg: rapid.IntRange(0, 9).Draw(t, "callarg")}
			if k.Mode == "go" {
				if !c.GoStmt {
					k.Mode = "direct"
				}
			}
			c.Calls = append(c.Calls, k)
		}
	}
	if rapid.IntRange(0, 4).Draw(t, "bad") == 0 {
		c.Bad = rapid.SampledFrom([]string{"undeclared-global", "unexported", "unexported-method", "undeclared-member"}).Draw(t, "badkind")
		c.Dead = rapid.Bool().Draw(t, "dead")
	}
	return c
}

// validPath: the paths the generator writes must be acceptable to the parser, the question
// is only whether they are supplied.
func validPath(p string) bool { return !strings.ContainsAny(p, " ") }

func TestPropConfinement(t *testing.T) {
	ev.Check(t, ev.N{Quick: 12000, Thorough: 600000}, func(t *rapid.T) {
		c := genCase(t)
		ev.Eval()
		builds, why, calls := model(c)
		switch {
		case !builds:
			w := strings.SplitN(why, ",", 2)[0]
			if i := strings.Index(w, " \""); i > 0 {
				w = w[:i]
			}
			ev.Label("must_fail: " + w)
		default:
			ev.Label(fmt.Sprintf("must_build_%s_calls_%d", c.Kind, min(len(calls), 3)))
		}
		if !builds || len(calls) >= 2 {
			ev.NontrivialSample(map[string]any{"case": describe(c), "model_builds": builds, "model_why": why, "model_calls": calls}, describe(c))
		}
		ev.Journal("confine", c)
		if msg := judge(c); msg != "" {
			ev.Fail(t, "confine", c, "%s%s", msg, describe(c))
		}
	})
}

package c04

import (
	"fmt"
	"strings"
	"testing"

	"verif/harness/gen/oddops"
	"verif/harness/gen/srcmut"
	"verif/harness/lib/ev"
	"verif/harness/lib/probe"
)

// TestExhOddOperands builds every program of gen/oddops (an operand of every sort in every
// expression position, mostly ill-typed), as a program and, for the statement alone, inside a
// template script block: the build must end with a program/template or an error, never with a
// panic, a hang or a leaked goroutine.
func TestExhOddOperands(t *testing.T) {
	shard, shards := ev.Shard()
	n := 0
	for ci, ctx := range oddops.Contexts {
		for oi, op := range oddops.Operands {
			n++
			if n%shards != shard {
				continue
			}
			stmt := strings.ReplaceAll(ctx, "%s", op)
			cases := []srcmut.Case{
				{Input: probe.Input{Kind: "program", Files: map[string]string{"go.mod": "module m\n", "main.go": oddops.Program(ctx, op)}}, Origin: "oddops", Mutation: fmt.Sprintf("ctx %d op %d", ci, oi)},
				{Input: probe.Input{Kind: "template", Files: map[string]string{"index.html": "{% type T struct{ a int } %}{% var x0 int %}{% var v = func() {} %}{% var v2 = func(int) {} %}{% var two = func() (int, int) { return 1, 2 } %}{% var one = func() int { return 1 } %}{%%\n" + stmt + "\n%%}"}, Main: "index.html"}, Origin: "oddops", Mutation: fmt.Sprintf("template ctx %d op %d", ci, oi)},
			}
			for _, c := range cases {
				ev.Journal("build", c)
				msg, o := judge(c)
				record(c, o)
				ev.NontrivialSample(map[string]any{"kind": c.Kind, "origin": c.Origin, "statement": stmt, "built": o.Built, "error": fmt.Sprint(o.Err)}, c.Kind, ctx, op)
				if msg != "" {
					ev.Fail(t, "build", c, "%s%s", msg, describe(c))
				}
			}
		}
	}
	// positions that exist only in templates
	for ci, ctx := range oddops.TemplateContexts {
		for oi, op := range oddops.Operands {
			n++
			if n%shards != shard {
				continue
			}
			c := srcmut.Case{Input: probe.Input{Kind: "template", Files: map[string]string{"index.html": oddops.TemplateProgram(ctx, op)}, Main: "index.html"}, Origin: "oddops", Mutation: fmt.Sprintf("template-only ctx %d op %d", ci, oi)}
			ev.Journal("build", c)
			msg, o := judge(c)
			record(c, o)
			ev.NontrivialSample(map[string]any{"kind": c.Kind, "origin": c.Origin, "statement": strings.ReplaceAll(ctx, "%s", op), "built": o.Built, "error": fmt.Sprint(o.Err)}, "template-only", ctx, op)
			if msg != "" {
				ev.Fail(t, "build", c, "%s%s", msg, describe(c))
			}
		}
	}
	ev.Exhaustive()
}

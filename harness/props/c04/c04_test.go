// C04 — building never crashes, hangs or leaks, whatever the source bytes; disassembling
// whatever was built never panics.
package c04

import (
	"encoding/json"
	"fmt"
	"regexp"
	"sort"
	"strings"
	"testing"

	"pgregory.net/rapid"

	"verif/harness/gen/srcmut"
	"verif/harness/lib/ev"
	"verif/harness/lib/probe"
)

func TestMain(m *testing.M)    { ev.Main(m, "C04") }
func TestReplay(t *testing.T)  { ev.Replay(t) }
func TestRegress(t *testing.T) { ev.Regress(t) }

func describe(c srcmut.Case) string {
	var names []string
	for n := range c.Files {
		if n != "go.mod" {
			names = append(names, n)
		}
	}
	sort.Strings(names)
	var b strings.Builder
	fmt.Fprintf(&b, "\n--- %s from %s, mutation %s, built file %q", c.Kind, c.Origin, c.Mutation, c.Main)
	for _, n := range names {
		s := c.Files[n]
		if len(s) > 1500 {
			s = s[:700] + fmt.Sprintf("…(%d bytes)…", len(s)-1400) + s[len(s)-700:]
		}
		fmt.Fprintf(&b, "\n--- %s\n%q", n, s)
	}
	return b.String()
}

var reLabelledJump = regexp.MustCompile(`\b(continue|break)[ \t]+[A-Za-z_]`)

func judge(c srcmut.Case) (string, probe.Outcome) {
	o := probe.Build(c.Input)
	msg := o.Describe()
	if o.Panic != nil && fmt.Sprint(o.Panic) == "scriggo: internal error: not implemented" {
		// recorded finding: continue (and break in a range loop) with a label is not
		// implemented by the emitter; only sources that contain such a statement qualify
		for _, s := range c.Files {
			if reLabelledJump.MatchString(s) && ev.Known("C04-labelled-continue-not-implemented") {
				return "", o
			}
		}
	}
	if msg != "" && o.Stack != "" {
		st := o.Stack
		if i := strings.Index(st, "panic("); i >= 0 {
			st = st[i:]
		}
		if len(st) > 1200 {
			st = st[:1200]
		}
		msg += "\n" + st
	}
	return msg, o
}

func init() {
	ev.RegisterReplay("build", func(t ev.TB, raw json.RawMessage) {
		var c srcmut.Case
		if err := json.Unmarshal(raw, &c); err != nil {
			t.Fatalf("bad case: %v", err)
		}
		if msg, _ := judge(c); msg != "" {
			t.Fatalf("%s%s", msg, describe(c))
		}
	})
}

func record(c srcmut.Case, o probe.Outcome) {
	ev.Eval()
	ev.Label("origin_" + c.Origin)
	ev.Label("kind_" + c.Kind)
	switch {
	case o.Built:
		ev.Label("outcome_built")
	case o.Err != nil:
		ev.Label("outcome_error")
	}
	for _, m := range strings.FieldsFunc(c.Mutation, func(r rune) bool { return r == '+' || r == ';' }) {
		if i := strings.LastIndex(m, ":"); i >= 0 {
			m = m[i+1:]
		}
		ev.Label("mutation_" + m)
	}
}

func TestPropBuildRobust(t *testing.T) {
	ev.Check(t, ev.N{Quick: 16000, Thorough: 1500000}, func(t *rapid.T) {
		c := srcmut.Gen(t)
		ev.Journal("build", c)
		msg, o := judge(c)
		record(c, o)
		// non-trivial: the source is not accepted as is (something had to be rejected or survived a mutation)
		if c.Mutation != "none" || c.Origin == "random-bytes" || c.Origin == "fragments" {
			var key []string
			for n, s := range c.Files {
				key = append(key, n, s)
			}
			sort.Strings(key)
			ev.NontrivialSample(map[string]any{"kind": c.Kind, "origin": c.Origin, "mutation": c.Mutation, "built": o.Built, "error": fmt.Sprint(o.Err)}, key...)
		}
		if msg != "" {
			ev.Fail(t, "build", c, "%s%s", msg, describe(c))
		}
	})
}

// TestExhTruncations cuts valid sources at every byte offset.
func TestExhTruncations(t *testing.T) {
	// (not ev.Count: a VERIF_CHECKS override is meant for the random property)
	_, shards := ev.Shard()
	seeds := 24 / shards
	if ev.Thorough() {
		seeds = 1200 / shards
	}
	if seeds < 1 {
		seeds = 1
	}
	gen := rapid.Custom(srcmut.Seeds)
	base := int(ev.Seed("trunc") % 1000003)
	sh, _ := ev.Shard()
	for i := 0; i < seeds+2; i++ {
		c := gen.Example(base + i)
		if i >= seeds {
			// every shard also sweeps one of the hand-written sources that hold all the
			// literal and escape forms
			c = srcmut.Rich(sh*2 + i - seeds)
		}
		name := c.Main
		if c.Kind == "program" {
			name = "main.go"
		}
		full := c.Files[name]
		if len(full) > 3000 {
			full = full[:3000]
		}
		for cut := 0; cut <= len(full); cut++ {
			cc := c
			cc.Files = map[string]string{}
			for n, s := range c.Files {
				cc.Files[n] = s
			}
			cc.Files[name] = full[:cut]
			cc.Mutation = fmt.Sprintf("truncate-at-%d", cut)
			ev.Journal("build", cc)
			msg, o := judge(cc)
			ev.Eval()
			ev.Label("truncation")
			if o.Built {
				ev.Label("truncation_built")
			}
			ev.NontrivialCount(1)
			if msg != "" {
				ev.Fail(t, "build", cc, "%s%s", msg, describe(cc))
				return
			}
		}
	}
}

// TestExhBuildSequence: a build must not change what later builds in the same process
// do (fixed finding C04-universe-constant-typeinfo-shared: the type info of the universe
// constants was shared and modified).
func TestExhBuildSequence(t *testing.T) {
	if s, _ := ev.Shard(); s != 0 {
		t.Skip("shard 0 only")
	}
	prog := func(src string) srcmut.Case {
		return srcmut.Case{Input: probe.Input{Kind: "program", Files: map[string]string{"go.mod": "module m\n", "main.go": src}}, Origin: "regress", Mutation: "none"}
	}
	victim := prog("package main\nfunc main() {\n\tx := 1\n\tprintln(true && (x == x), false)\n\tvar b bool = true\n\t_ = b\n}\n")
	polluters := []string{
		"package main\ntype T bool\nfunc main() {\n\tvar x T = true\n\tvar y T = false\n\t_, _ = x, y\n}\n",
		"package main\ntype T bool\nfunc f(t T) {}\nfunc main() {\n\tf(true)\n\tf(false)\n}\n",
		"package main\ntype I interface{}\nfunc main() {\n\tvar i I = true\n\tvar j interface{} = false\n\t_, _ = i, j\n}\n",
	}
	for _, p := range polluters {
		ev.Eval()
		ev.Label("build_sequence")
		if msg, _ := judge(prog(p)); msg != "" {
			ev.Fail(t, "build", prog(p), "%s", msg)
			return
		}
		if msg, o := judge(victim); msg != "" || o.Err != nil {
			ev.Fail(t, "build", victim, "after building %q the build of an unrelated program fails: %s %v", p, msg, o.Err)
			return
		}
	}
}

// C27 — printing a parsed syntax tree gives source that parses back to the same tree: for
// every expression and statement the parser produces, String() re-parses to a structurally
// identical node, ignoring positions.
package c27

import (
	"encoding/json"
	"fmt"
	"strings"
	"testing"

	"github.com/open2b/scriggo/ast"
	"pgregory.net/rapid"

	"verif/harness/gen/exprgen"
	"verif/harness/gen/goprog"
	"verif/harness/gen/tmplset"
	"verif/harness/lib/asttree"
	"verif/harness/lib/ev"
)

func TestMain(m *testing.M) {
	ast.VerifSetExpandedPrint(true) // composite literals print their elements, as in the ast tests
	// the context of a show (HTML, quoted attribute, script…) is where the node is, not what it is
	asttree.IgnoreFields["Context"] = true
	ev.Main(m, "C27")
}
func TestReplay(t *testing.T)  { ev.Replay(t) }
func TestRegress(t *testing.T) { ev.Regress(t) }

// Case is a template source; every expression and printable statement of its tree is checked.
type Case struct {
	Src    string `json:"src"`
	Origin string `json:"origin"`
}

// descriptive reports the node kinds whose String is a description for error messages,
// not source ("func literal", "block statement"…): there is nothing to parse back.
func descriptive(n ast.Node) bool {
	switch n.(type) {
	case *ast.Func, *ast.Block, *ast.Text, *ast.Placeholder:
		return true
	}
	return false
}

func containsDescriptive(n ast.Node) bool {
	for _, d := range asttree.All(n) {
		if descriptive(d) {
			return true
		}
	}
	return false
}

// reparse parses the printed form of a node back into a node of the same syntactic class.
func reparse(n ast.Node, s string) (ast.Node, error) {
	var src string
	_, isExpr := n.(ast.Expression)
	if isExpr {
		src = "{{ " + s + " }}"
	} else {
		src = "{% " + s + " %}"
	}
	tree, err := asttree.Parse(map[string]string{"index.html": src}, "index.html")
	if err != nil {
		return nil, err
	}
	if len(tree.Nodes) != 1 {
		return nil, fmt.Errorf("%d nodes parsed from %q", len(tree.Nodes), src)
	}
	if isExpr {
		show, ok := tree.Nodes[0].(*ast.Show)
		if !ok || len(show.Expressions) != 1 {
			return nil, fmt.Errorf("%q does not parse as one shown expression (%T)", src, tree.Nodes[0])
		}
		return show.Expressions[0], nil
	}
	return tree.Nodes[0], nil
}

type finding struct {
	node, printed, problem string
}

// judge checks every printable node of the source and returns the first failure.
func judge(c Case) (msg string, checked int, parsed bool) {
	tree, err := asttree.Parse(map[string]string{"index.html": c.Src}, "index.html")
	if err != nil {
		return "", 0, false // not valid source: outside the domain
	}
	seen := map[string]bool{}
	all := asttree.All(tree)
	skip := map[ast.Node]bool{}
	for _, n := range all {
		switch n := n.(type) {
		case *ast.Func:
			if n.Type != nil {
				skip[n.Type] = true // the signature of a declaration is not an expression of the source
			}
		case *ast.TypeSwitch:
			if n.Assignment != nil {
				skip[n.Assignment] = true // "x := v.(type)" exists only as a type switch guard
				for _, e := range n.Assignment.Rhs {
					skip[e] = true
				}
			}
		case *ast.ForRange:
			if n.Assignment != nil {
				skip[n.Assignment] = true // a range clause is not an assignment statement
			}
		case *ast.Import:
			if n.Ident != nil {
				skip[n.Ident] = true // the name of an import may be "." or "_"
			}
		case *ast.CompositeLiteral:
			if n.Type == nil {
				skip[n] = true // an element with elided type exists only inside its literal
			}
		case *ast.FuncType:
			if n.Macro && len(n.Result) == 0 {
				skip[n] = true // a macro type without result exists only in a using clause
			}
		}
	}
	for _, n := range all {
		st, ok := n.(fmt.Stringer)
		if !ok || skip[n] || containsDescriptive(n) {
			continue
		}
		switch n.(type) {
		case *ast.Tree, *ast.Comment, *ast.Raw, *ast.URL:
			continue
		case *ast.Goto:
			continue // needs an enclosing function body to parse
		}
		var printed string
		var perr any
		func() {
			defer func() { perr = recover() }()
			printed = st.String()
		}()
		if perr != nil {
			return fmt.Sprintf("String of a %T panicked: %v", n, perr), checked, true
		}
		if p := n.Pos(); p != nil && printed == p.String() {
			// the type has no String method of its own: what printed is the promoted
			// Position.String ("line:column"); there is no printed form to parse back
			ev.Label(fmt.Sprintf("no_own_string_%T", n))
			continue
		}
		key := fmt.Sprintf("%T|%s", n, printed)
		if seen[key] {
			continue
		}
		seen[key] = true
		checked++
		ev.Eval()
		ev.Label(fmt.Sprintf("node_%T", n))
		back, err := reparse(n, printed)
		if err != nil {
			if id := known(n, printed, "parse"); id != "" && ev.Known(id) {
				continue
			}
			return fmt.Sprintf("the printed form of a %T does not parse: %q: %v", n, printed, err), checked, true
		}
		a, b := asttree.Render(n, false), asttree.Render(back, false)
		if a != b {
			if id := known(n, printed, "differ"); id != "" && ev.Known(id) {
				continue
			}
			return fmt.Sprintf("the printed form of a %T parses to a different tree: %q\n   %s", n, printed, asttree.FirstDiff(a, b)), checked, true
		}
	}
	return "", checked, true
}

// known maps a failure to a recorded finding id ("" if none applies); filled as findings
// are recorded.
func known(n ast.Node, printed, kind string) string {
	for _, k := range knownRules {
		if k.match(n, printed, kind) {
			return k.id
		}
	}
	return ""
}

type knownRule struct {
	id    string
	match func(n ast.Node, printed, kind string) bool
}

var knownRules = []knownRule{
	{"C27-selector-on-unary-operand", func(n ast.Node, printed, kind string) bool {
		// (op x).F prints "op x.F"; the repository's checker tests pin the message
		// "&pointInt{...}.SetZ undefined", so the operand cannot be parenthesised
		for _, d := range asttree.All(n) {
			if sel, ok := d.(*ast.Selector); ok {
				if _, ok := sel.Expr.(*ast.UnaryOperator); ok {
					return true
				}
			}
		}
		return false
	}},
}

func init() {
	ev.RegisterReplay("print", func(t ev.TB, raw json.RawMessage) {
		var c Case
		if err := json.Unmarshal(raw, &c); err != nil {
			t.Fatalf("bad case: %v", err)
		}
		if msg, _, _ := judge(c); msg != "" {
			t.Fatalf("%s\n--- source:\n%s", msg, c.Src)
		}
	})
}

func genCase(t *rapid.T) Case {
	switch rapid.IntRange(0, 9).Draw(t, "origin") {
	case 0, 1, 2:
		return Case{Src: "{{ " + exprgen.Expr(t, true, rapid.IntRange(0, 4).Draw(t, "depth")) + " }}", Origin: "expression"}
	case 3, 4:
		return Case{Src: "{% " + exprgen.Stmt(t, true, rapid.IntRange(0, 2).Draw(t, "depth")) + " %}", Origin: "statement"}
	case 5, 6:
		return Case{Src: exprgen.Template(t), Origin: "template"}
	case 7:
		ts := tmplset.Gen(t)
		var names []string
		for n := range ts.Files {
			names = append(names, n)
		}
		// deterministic choice
		best := names[0]
		for _, n := range names {
			if n < best {
				best = n
			}
		}
		return Case{Src: ts.Files[best], Origin: "template-set"}
	default:
		p := goprog.Gen(t, goprog.Off{})
		body := strings.TrimPrefix(p.Src, "package main\n")
		return Case{Src: "{%%\n" + body + "\n%%}", Origin: "goprog"}
	}
}

func TestPropPrintParse(t *testing.T) {
	ev.Check(t, ev.N{Quick: 6000, Thorough: 400000}, func(t *rapid.T) {
		c := genCase(t)
		ev.Journal("print", c)
		msg, checked, parsed := judge(c)
		if !parsed {
			ev.Excluded("source_does_not_parse_" + c.Origin)
			return
		}
		ev.Label("origin_" + c.Origin)
		if checked > 0 {
			ev.NontrivialSample(map[string]any{"origin": c.Origin, "nodes_checked": checked, "source": c.Src}, c.Src)
		}
		if msg != "" {
			ev.Fail(t, "print", c, "%s\n--- source:\n%s", msg, c.Src)
		}
	})
}

// C20 — exceeding an implementation limit is a limit-exceeded build error, never wrong
// code: program families with one size parameter swept across each limit either build and
// behave as under gc, or fail with a *BuildError that reports an exceeded limit.
package c20

import (
	"encoding/json"
	"errors"
	"fmt"
	"strings"
	"testing"

	"github.com/open2b/scriggo"
	"github.com/open2b/scriggo/native"
	"pgregory.net/rapid"

	"verif/harness/lib/ev"
	"verif/harness/lib/gcref"
	"verif/harness/lib/sg"
)

func TestMain(m *testing.M)    { ev.Main(m, "C20") }
func TestReplay(t *testing.T)  { ev.Replay(t) }
func TestRegress(t *testing.T) { ev.Regress(t) }

// Case is one member of a family.
type Case struct {
	Family string `json:"family"`
	N      int    `json:"n"`
	Where  string `json:"where"` // main | helper | closure
	Typ    string `json:"typ,omitempty"`
	Block  bool   `json:"block,omitempty"` // every repeated statement in its own block (registers are released at the end of a block)
	Src    string `json:"src,omitempty"`   // filled by build()
}

// limits of internal/compiler/builder.go; used only to aim the sweep, never as an oracle.
var aim = map[string]int{
	"locals": 127, "temps": 127, "args": 127, "strings": 256, "types": 256, "funcs": 256, "natives": 256, "fields": 256, "generals": 256,
	"ints": 16384, "floats": 16384,
	"tmpl-strings": 256, "tmpl-vars": 127, "tmpl-macros": 256,
}

func wrap(where, decls, body string) string {
	switch where {
	case "helper":
		return "package main\n\n" + decls + "func work() {\n" + body + "}\n\nfunc main() {\n\twork()\n}\n"
	case "closure":
		return "package main\n\n" + decls + "func main() {\n\tf := func() {\n" + body + "\t}\n\tf()\n}\n"
	}
	return "package main\n\n" + decls + "func main() {\n" + body + "}\n"
}

func zero(typ string, i int) string {
	switch typ {
	case "string":
		return fmt.Sprintf("%q", fmt.Sprintf("s%d", i))
	case "float64":
		return fmt.Sprintf("%d.5", i)
	case "[]int":
		return fmt.Sprintf("[]int{%d}", i)
	}
	return fmt.Sprint(i)
}

// build returns the source of the case and whether it imports the native package.
func build(c Case) (src string, natives int) {
	var d, b strings.Builder
	n := c.N
	// rep writes one of the n repeated statements
	rep := func(format string, args ...any) {
		st := fmt.Sprintf(format, args...)
		if c.Block {
			b.WriteString("\t{\n\t" + strings.ReplaceAll(strings.TrimSuffix(st, "\n"), "\n", "\n\t") + "\n\t}\n")
			return
		}
		b.WriteString(st)
	}
	switch c.Family {
	case "locals":
		// n live variables of one register kind
		for i := 0; i < n; i++ {
			fmt.Fprintf(&b, "\tv%d := one(%s)\n", i, zero(c.Typ, i))
		}
		switch c.Typ {
		case "int":
			d.WriteString("func one(x int) int { return x }\n\n")
			b.WriteString("\tsum := 0\n")
			for i := 0; i < n; i++ {
				fmt.Fprintf(&b, "\tsum += v%d\n", i)
			}
			b.WriteString("\tprintln(sum)\n")
		case "float64":
			d.WriteString("func one(x float64) float64 { return x }\n\n")
			b.WriteString("\tsum := 0.0\n")
			for i := 0; i < n; i++ {
				fmt.Fprintf(&b, "\tsum += v%d\n", i)
			}
			b.WriteString("\tprintln(sum)\n")
		case "string":
			d.WriteString("func one(x string) string { return x }\n\n")
			b.WriteString("\tsum := 0\n")
			for i := 0; i < n; i++ {
				fmt.Fprintf(&b, "\tsum += len(v%d)\n", i)
			}
			b.WriteString("\tprintln(sum)\n")
		default:
			d.WriteString("func one(x []int) []int { return x }\n\n")
			b.WriteString("\tsum := 0\n")
			for i := 0; i < n; i++ {
				fmt.Fprintf(&b, "\tsum += v%d[0]\n", i)
			}
			b.WriteString("\tprintln(sum)\n")
		}
	case "temps":
		// a right-nested expression keeps n operands alive
		d.WriteString("func id(x int) int { return x }\n\n")
		b.WriteString("\tprintln(")
		for i := 0; i < n; i++ {
			fmt.Fprintf(&b, "id(%d) - (", i)
		}
		b.WriteString("0" + strings.Repeat(")", n) + ")\n")
	case "args":
		// a call with n arguments
		var ps, as []string
		for i := 0; i < n; i++ {
			ps = append(ps, fmt.Sprintf("p%d", i))
			as = append(as, fmt.Sprintf("id(%d)", i))
		}
		d.WriteString("func id(x int) int { return x }\n\n")
		if n > 0 {
			fmt.Fprintf(&d, "func many(%s int) int {\n\treturn p0 + p%d\n}\n\n", strings.Join(ps, ", "), n-1)
		} else {
			d.WriteString("func many() int { return 0 }\n\n")
		}
		fmt.Fprintf(&b, "\tprintln(many(%s))\n", strings.Join(as, ", "))
	case "strings":
		b.WriteString("\tn := 0\n")
		for i := 0; i < n; i++ {
			rep("\tn += len(one(\"str%d\"))\n", i)
		}
		d.WriteString("func one(x string) string { return x }\n\n")
		b.WriteString("\tprintln(n)\n")
	case "ints":
		b.WriteString("\tn := 0\n")
		for i := 0; i < n; i++ {
			rep("\tn ^= %d\n", 1000000+i)
		}
		b.WriteString("\tprintln(n)\n")
	case "floats":
		b.WriteString("\tn := 0.0\n")
		for i := 0; i < n; i++ {
			rep("\tn += %d.25\n", i)
		}
		b.WriteString("\tprintln(n)\n")
	case "generals":
		// complex constants are kept among the general values
		b.WriteString("\tvar z complex128\n")
		for i := 0; i < n; i++ {
			rep("\tz += %d + 2i\n", i)
		}
		b.WriteString("\tprintln(int(real(z)), int(imag(z)))\n")
	case "types":
		b.WriteString("\tn := 0\n\tvar x interface{}\n\t_ = x\n")
		for i := 0; i < n; i++ {
			rep("\tx = [%d]int{}\n\tn += len(x.([%d]int))\n", i+1, i+1)
		}
		b.WriteString("\tprintln(n)\n")
	case "funcs":
		for i := 0; i < n; i++ {
			fmt.Fprintf(&d, "func f%d() int { return %d }\n", i, i)
		}
		d.WriteString("\n")
		b.WriteString("\tn := 0\n")
		for i := 0; i < n; i++ {
			rep("\tn += f%d()\n", i)
		}
		b.WriteString("\tprintln(n)\n")
	case "natives":
		natives = n
		d.WriteString("import \"host\"\n\n")
		b.WriteString("\tn := 0\n")
		for i := 0; i < n; i++ {
			rep("\tn += host.F%d()\n", i)
		}
		b.WriteString("\tprintln(n)\n")
	case "fields":
		d.WriteString("type S struct {\n")
		for i := 0; i < n; i++ {
			fmt.Fprintf(&d, "\tF%d int\n", i)
		}
		d.WriteString("}\n\n")
		b.WriteString("\tvar s S\n\t_ = s\n\tn := 0\n")
		for i := 0; i < n; i++ {
			rep("\ts.F%d = %d\n", i, i)
		}
		for i := 0; i < n; i++ {
			rep("\tn += s.F%d\n", i)
		}
		b.WriteString("\tprintln(n)\n")
	}
	return wrap(c.Where, d.String(), b.String()), natives
}

// expected is the closed-form output (each family is a sum the harness can compute).
func expected(c Case) string {
	n := c.N
	tri := n * (n - 1) / 2
	switch c.Family {
	case "locals":
		switch c.Typ {
		case "float64":
			return sg.FormatPrint(float64(tri)+0.5*float64(n)) + "\n"
		case "string":
			s := 0
			for i := 0; i < n; i++ {
				s += len(fmt.Sprintf("s%d", i))
			}
			return fmt.Sprintln(s)
		}
		return fmt.Sprintln(tri)
	case "temps":
		// 0 - (1 - (2 - ... (n-1 - 0)))
		v := 0
		for i := n - 1; i >= 0; i-- {
			v = i - v
		}
		return fmt.Sprintln(v)
	case "args":
		if n == 0 {
			return "0\n"
		}
		return fmt.Sprintln(n - 1)
	case "strings":
		s := 0
		for i := 0; i < n; i++ {
			s += len(fmt.Sprintf("str%d", i))
		}
		return fmt.Sprintln(s)
	case "ints":
		v := 0
		for i := 0; i < n; i++ {
			v ^= 1000000 + i
		}
		return fmt.Sprintln(v)
	case "floats":
		return sg.FormatPrint(float64(tri)+0.25*float64(n)) + "\n"
	case "types":
		return fmt.Sprintln(n * (n + 1) / 2)
	case "generals":
		return fmt.Sprintln(tri, 2*n)
	}
	return fmt.Sprintln(tri)
}

func hostWith(n int) native.Packages {
	d := native.Declarations{}
	for i := 0; i < n; i++ {
		v := i
		d[fmt.Sprintf("F%d", i)] = func() int { return v }
	}
	return native.Packages{"host": native.Package{Name: "host", Declarations: d}}
}

// judge returns "" when the case is handled as the property demands, and the outcome class.
func judge(c Case) (msg string, class string) {
	if strings.HasPrefix(c.Family, "tmpl-") {
		return judgeTemplate(c)
	}
	src, natives := build(c)
	var opts sg.Opts
	if natives > 0 {
		opts.Packages = hostWith(natives)
	}
	p, res := sg.BuildProgram(src, opts)
	if res.BuildPanic != nil {
		return fmt.Sprintf("Build panicked: %v", res.BuildPanic), "panic"
	}
	if res.BuildErr != nil {
		var be *scriggo.BuildError
		if !errors.As(res.BuildErr, &be) {
			return fmt.Sprintf("Build failed with %T, not a *BuildError: %v", res.BuildErr, res.BuildErr), "error"
		}
		if !strings.Contains(be.Message(), "exceeded") {
			return fmt.Sprintf("a valid program is rejected with an error that is not a limit error: %v", res.BuildErr), "error"
		}
		return "", "limit:" + strings.TrimSpace(strings.SplitN(be.Message(), "count", 2)[0])
	}
	r := sg.RunProgram(p, opts)
	if d := r.Describe(); d != "" {
		return "the program builds but does not run as under gc: " + d, "run"
	}
	if want := expected(c); r.Printed != want {
		return fmt.Sprintf("the program builds but prints %q, want %q", r.Printed, want), "wrong"
	}
	return "", "ok"
}

func init() {
	ev.RegisterReplay("limit", func(t ev.TB, raw json.RawMessage) {
		var c Case
		if err := json.Unmarshal(raw, &c); err != nil {
			t.Fatalf("bad case: %v", err)
		}
		c.Src = ""
		if msg, _ := judge(c); msg != "" {
			t.Fatalf("%s\n family %s n=%d where=%s typ=%s", msg, c.Family, c.N, c.Where, c.Typ)
		}
	})
}

// template families: the main function of a template is subject to the same limits.
func buildTemplate(c Case) string {
	var b strings.Builder
	n := c.N
	switch c.Family {
	case "tmpl-strings":
		// n distinct string constants shown in one template body
		for i := 0; i < n; i++ {
			if c.Block {
				fmt.Fprintf(&b, "{%% if true %%}{{ \"s%d;\" }}{%% end %%}", i)
			} else {
				fmt.Fprintf(&b, "{{ \"s%d;\" }}", i)
			}
		}
	case "tmpl-vars":
		for i := 0; i < n; i++ {
			fmt.Fprintf(&b, "{%% var v%d = one(%d) %%}", i, i)
		}
		b.WriteString("{{ 0")
		for i := 0; i < n; i++ {
			fmt.Fprintf(&b, " + v%d", i)
		}
		b.WriteString(" }}")
		return b.String()
	case "tmpl-macros":
		for i := 0; i < n; i++ {
			fmt.Fprintf(&b, "{%% macro M%d %%}%d;{%% end %%}", i, i)
		}
		for i := 0; i < n; i++ {
			if c.Block {
				fmt.Fprintf(&b, "{%% if true %%}{{ M%d() }}{%% end %%}", i)
			} else {
				fmt.Fprintf(&b, "{{ M%d() }}", i)
			}
		}
	}
	return b.String()
}

func expectedTemplate(c Case) string {
	var b strings.Builder
	switch c.Family {
	case "tmpl-strings":
		for i := 0; i < c.N; i++ {
			fmt.Fprintf(&b, "s%d;", i)
		}
	case "tmpl-vars":
		return fmt.Sprint(c.N * (c.N - 1) / 2)
	case "tmpl-macros":
		for i := 0; i < c.N; i++ {
			fmt.Fprintf(&b, "%d;", i)
		}
	}
	return b.String()
}

func judgeTemplate(c Case) (msg string, class string) {
	src := buildTemplate(c)
	opts := sg.Opts{Globals: native.Declarations{"one": func(x int) int { return x }}}
	t, res := sg.BuildTemplate(map[string]string{"index.txt": src}, "index.txt", opts)
	if res.BuildPanic != nil {
		return fmt.Sprintf("BuildTemplate panicked: %v", res.BuildPanic), "panic"
	}
	if res.BuildErr != nil {
		var be *scriggo.BuildError
		if !errors.As(res.BuildErr, &be) {
			return fmt.Sprintf("BuildTemplate failed with %T, not a *BuildError: %v", res.BuildErr, res.BuildErr), "error"
		}
		if !strings.Contains(be.Message(), "exceeded") {
			return fmt.Sprintf("a valid template is rejected with an error that is not a limit error: %v", res.BuildErr), "error"
		}
		return "", "limit:" + strings.TrimSpace(strings.SplitN(be.Message(), "count", 2)[0])
	}
	r := sg.RunTemplate(t, opts)
	if d := r.Describe(); d != "" {
		return "the template builds but does not run: " + d, "run"
	}
	if want := expectedTemplate(c); r.Out != want {
		return fmt.Sprintf("the template builds but renders %q, want %q", clipS(r.Out), clipS(want)), "wrong"
	}
	return "", "ok"
}

func clipS(s string) string {
	if len(s) > 300 {
		return s[:150] + "…" + s[len(s)-150:]
	}
	return s
}

var templateFamilies = []string{"tmpl-strings", "tmpl-vars", "tmpl-macros"}

var families = []string{"locals", "temps", "args", "strings", "types", "funcs", "natives", "fields", "generals"}

func genCase(t *rapid.T, big bool) Case {
	fams := append(append([]string{}, families...), templateFamilies...)
	if big {
		fams = []string{"ints", "floats"}
	}
	c := Case{Family: rapid.SampledFrom(fams).Draw(t, "family")}
	c.Where = rapid.SampledFrom([]string{"main", "main", "helper", "closure"}).Draw(t, "where")
	if c.Family != "locals" && c.Family != "temps" && c.Family != "args" {
		c.Block = rapid.Bool().Draw(t, "block")
	}
	if big {
		c.Block = true
	}
	if c.Family == "locals" {
		c.Typ = rapid.SampledFrom([]string{"int", "float64", "string", "[]int"}).Draw(t, "typ")
	}
	lim := aim[c.Family]
	switch rapid.IntRange(0, 9).Draw(t, "zone") {
	case 0:
		c.N = rapid.IntRange(1, lim/2).Draw(t, "n")
	case 1:
		c.N = rapid.IntRange(lim/2, lim-8).Draw(t, "n")
	case 2:
		c.N = rapid.IntRange(lim+8, lim+lim/4).Draw(t, "n")
	default:
		c.N = rapid.IntRange(lim-8, lim+8).Draw(t, "n")
	}
	return c
}

func run(t *rapid.T, c Case) {
	ev.Eval()
	ev.Journal("limit", c)
	msg, class := judge(c)
	ev.Label(fmt.Sprintf("%s_block=%v_%s", c.Family, c.Block, class))
	if msg != "" {
		ev.Note("%s n=%d where=%s typ=%s: %s", c.Family, c.N, c.Where, c.Typ, strings.SplitN(msg, "\n", 2)[0])
	}
	if d := c.N - aim[c.Family]; d >= -8 && d <= 8 {
		ev.NontrivialSample(map[string]any{"family": c.Family, "n": c.N, "where": c.Where, "typ": c.Typ, "block": c.Block, "outcome": class}, c.Family, fmt.Sprint(c.N), c.Where, c.Typ, fmt.Sprint(c.Block))
	}
	if msg != "" {
		if strings.HasPrefix(c.Family, "tmpl-") {
			c.Src = buildTemplate(c)
		} else {
			c.Src, _ = build(c)
		}
		if len(c.Src) > 4000 {
			c.Src = c.Src[:4000] + "…"
		}
		ev.Fail(t, "limit", c, "%s\n family %s n=%d where=%s typ=%s", msg, c.Family, c.N, c.Where, c.Typ)
	}
}

func TestPropLimits(t *testing.T) {
	ev.Check(t, ev.N{Quick: 1200, Thorough: 40000}, func(t *rapid.T) { run(t, genCase(t, false)) })
}

// TestPropBigLimits: the 16384-constant limits need sources of 16 thousand statements.
func TestPropBigLimits(t *testing.T) {
	ev.Check(t, ev.N{Quick: 16, Thorough: 400}, func(t *rapid.T) { run(t, genCase(t, true)) })
}

// TestExhGcAgrees cross-checks the closed-form expectations with gc on small members of
// every family (the closed forms are the oracle above; this shows they are gc's answers).
func TestExhGcAgrees(t *testing.T) {
	if s, _ := ev.Shard(); s != 0 {
		t.Skip("shard 0 only")
	}
	var cases []Case
	var srcs []string
	for _, f := range append(append([]string{}, families...), "ints", "floats") {
		if f == "natives" {
			continue // needs the host package
		}
		for _, n := range []int{1, 2, 7, 40} {
			for _, w := range []string{"main", "helper", "closure"} {
				typs := []string{""}
				if f == "locals" {
					typs = []string{"int", "float64", "string", "[]int"}
				}
				for _, ty := range typs {
					for _, blk := range []bool{false, true} {
						c := Case{Family: f, N: n, Where: w, Typ: ty, Block: blk}
						src, _ := build(c)
						cases = append(cases, c)
						srcs = append(srcs, src)
					}
				}
			}
		}
	}
	ts, err := gcref.Run(srcs)
	if err != nil {
		t.Skipf("gc reference unavailable: %v", err)
	}
	for i, c := range cases {
		ev.Eval()
		ev.Label("closed_form_vs_gc")
		if ts[i].BuildErr != "" {
			t.Errorf("gc rejects family %s n=%d: %s", c.Family, c.N, ts[i].BuildErr)
			continue
		}
		if ts[i].Out != expected(c) {
			t.Errorf("closed form for %s n=%d where=%s typ=%s is %q, gc prints %q", c.Family, c.N, c.Where, c.Typ, expected(c), ts[i].Out)
		}
	}
}

package c01

import (
	"encoding/json"
	"fmt"
	"sort"
	"strings"
	"testing"

	"github.com/open2b/scriggo"
	"pgregory.net/rapid"

	"verif/harness/gen/gopkgs"
	"verif/harness/lib/ev"
	"verif/harness/lib/gcref"
	"verif/harness/lib/sg"
)

// ModCase is a program made of several packages.
type ModCase struct {
	Files map[string]string `json:"files"`
}

func runScriggoModule(files map[string]string) (o outcome) {
	var p *scriggo.Program
	var err error
	func() {
		defer func() {
			if e := recover(); e != nil {
				o.hostPanic = fmt.Sprintf("Build panicked: %v", e)
			}
		}()
		p, err = scriggo.Build(sg.Files(files), &scriggo.BuildOptions{Packages: gopkgs.HostPackage()})
	}()
	if o.hostPanic != "" {
		return
	}
	if err != nil {
		o.buildErr = err.Error()
		return
	}
	r := sg.RunProgram(p, sg.Opts{})
	o.out = r.Printed
	if r.RunPanic != nil {
		o.hostPanic = fmt.Sprintf("Run panicked: %v", r.RunPanic)
		return
	}
	if r.RunErr != nil {
		if pe, ok := r.RunErr.(*scriggo.PanicError); ok {
			o.panicText = strings.TrimRight(pe.Error(), "\n")
		} else {
			o.otherErr = r.RunErr.Error()
		}
	}
	return
}

func describeModule(files map[string]string) string {
	var names []string
	for n := range files {
		names = append(names, n)
	}
	sort.Strings(names)
	var b strings.Builder
	for _, n := range names {
		fmt.Fprintf(&b, "\n--- %s\n%s", n, files[n])
	}
	return b.String()
}

func compareModule(files map[string]string, ref gcref.Transcript) string {
	if ref.BuildErr != "" {
		ev.Excluded("generator_module_rejected_by_gc")
		ev.Note("gc rejects a generated module: %s", ref.BuildErr)
		return ""
	}
	if ref.Fatal != "" {
		ev.Excluded("gc_fatal_" + strings.SplitN(ref.Fatal, ":", 3)[0])
		return ""
	}
	o := runScriggoModule(files)
	switch {
	case o.hostPanic != "":
		return "host panic: " + o.hostPanic
	case o.buildErr != "":
		return "Build rejects a program gc accepts: " + o.buildErr
	case o.otherErr != "":
		return "Run returned an unexpected error: " + o.otherErr
	}
	lastOrderOnly = false
	if o.out != ref.Out {
		lastOrderOnly = sameLines(o.out, ref.Out) && o.panicText == ref.Panic
		return fmt.Sprintf("printed output differs.\n--- gc:\n%s\n--- scriggo:\n%s\n--- first difference: %s", clip(ref.Out), clip(o.out), firstDiff(ref.Out, o.out))
	}
	if o.panicText != ref.Panic {
		return fmt.Sprintf("final outcome differs: gc panic=%q, scriggo panic=%q", ref.Panic, o.panicText)
	}
	return ""
}

func init() {
	ev.RegisterReplay("gcmod", func(t ev.TB, raw json.RawMessage) {
		var c ModCase
		if err := json.Unmarshal(raw, &c); err != nil {
			t.Fatalf("bad case: %v", err)
		}
		ts, err := gcref.RunModules([]map[string]string{c.Files})
		if err != nil {
			t.Fatalf("infrastructure: gc reference unavailable: %v", err)
		}
		if msg := compareModule(c.Files, ts[0]); msg != "" {
			if _, ambiguous := gopkgs.OrderInfo(c.Files); ambiguous && lastOrderOnly {
				return // see Module.OrderAmbiguous
			}
			t.Fatalf("%s%s", msg, describeModule(c.Files))
		}
	})
}

// TestPropGcPackages: programs made of up to four packages with declarations in an order
// unrelated to their dependencies, init functions, closures over package variables of the
// same and of imported packages, and a native package. The observable is the order of
// package initialisation (every function and init prints) and the final values.
func TestPropGcPackages(t *testing.T) {
	batch := 16
	ev.Check(t, ev.N{Quick: 12, Thorough: 140}, func(t *rapid.T) {
		n := rapid.IntRange(batch/2, batch).Draw(t, "nmodules")
		mods := make([]map[string]string, n)
		shape := make([]int, n)
		agrees := make([]bool, n)
		ambiguous := make([]bool, n)
		for i := range mods {
			m := gopkgs.Gen(t)
			mods[i] = m.Files
			shape[i] = len(m.Pkgs)
			agrees[i] = m.ImportOrderAgrees
			ambiguous[i] = m.OrderAmbiguous
		}
		ts, err := gcref.RunModules(mods)
		if err != nil {
			panic("infrastructure: gc reference unavailable: " + err.Error())
		}
		for i, files := range mods {
			ev.Eval()
			ev.Label(fmt.Sprintf("module_packages_%d", shape[i]))
			if shape[i] >= 2 || strings.Contains(files["main.go"], "func init()") {
				ev.NontrivialSample(map[string]any{"module": clip(describeModule(files)), "gc_output": clip(ts[i].Out)}, describeModule(files))
			}
			ev.Journal("gcmod", ModCase{Files: files})
			if !agrees[i] {
				ev.Label("module_import_order_differs_from_spec_order")
			}
			if msg := compareModule(files, ts[i]); msg != "" {
				// Independent packages are initialised in the source order of the imports
				// and not in import path order (recorded finding): a module where the two
				// orders differ, and only such a module, is attributed to it.
				if !agrees[i] && lastOrderOnly && ev.Known("C01-independent-package-init-order") {
					continue
				}
				if ambiguous[i] && lastOrderOnly {
					ev.Excluded("gc_order_depends_on_packages_without_init_work")
					continue
				}
				ev.Fail(t, "gcmod", ModCase{Files: files}, "%s%s", msg, describeModule(files))
			}
		}
	})
}

// lastOrderOnly: the last comparison found the same printed lines in a different order.
var lastOrderOnly bool

// sameLines reports whether two transcripts hold the same lines in a different order.
func sameLines(a, b string) bool {
	la, lb := strings.Split(a, "\n"), strings.Split(b, "\n")
	sort.Strings(la)
	sort.Strings(lb)
	return strings.Join(la, "\n") == strings.Join(lb, "\n")
}

// C01 — interpreted programs behave exactly like the same program compiled by gc.
package c01

import (
	"context"
	"encoding/json"
	"fmt"
	"os"
	"regexp"
	"sort"
	"strings"
	"testing"
	"time"

	"github.com/open2b/scriggo"
	"pgregory.net/rapid"

	"verif/harness/gen/goprog"
	"verif/harness/lib/ev"
	"verif/harness/lib/gcref"
	"verif/harness/lib/sg"
)

func TestMain(m *testing.M)    { ev.Main(m, "C01") }
func TestReplay(t *testing.T)  { ev.Replay(t) }
func TestRegress(t *testing.T) { ev.Regress(t) }

type Case struct {
	Src string `json:"src"`
}

// observed behaviour of the interpreted program
type outcome struct {
	buildErr  string
	out       string
	panicText string // "" when Run returned nil
	hostPanic string
	otherErr  string
}

func runScriggo(src string) (o outcome) {
	p, res := sg.BuildProgram(src, sg.Opts{})
	if res.BuildPanic != nil {
		o.hostPanic = fmt.Sprintf("Build panicked: %v", res.BuildPanic)
		return
	}
	if res.BuildErr != nil {
		o.buildErr = res.BuildErr.Error()
		return
	}
	// gc's run of the same program terminated (the reference marks the others as outside the
	// domain), so a run that does not end within a minute is a divergence, not a long program
	ctx, cancel := context.WithTimeout(context.Background(), time.Minute)
	defer cancel()
	r := sg.RunProgram(p, sg.Opts{Ctx: ctx})
	o.out = r.Printed
	if r.RunPanic != nil {
		o.hostPanic = fmt.Sprintf("Run panicked: %v", r.RunPanic)
		return
	}
	if r.RunErr == context.DeadlineExceeded {
		o.otherErr = "the program does not terminate within one minute (gc's run of it terminates)"
		return
	}
	if r.RunErr != nil {
		if pe, ok := r.RunErr.(*scriggo.PanicError); ok {
			o.panicText = strings.TrimRight(pe.Error(), "\n")
		} else {
			o.otherErr = r.RunErr.Error()
		}
	}
	return
}

var lastClass string

// compare returns "" when the interpreted program behaves as the gc-built one.
func compare(src string, ref gcref.Transcript) string {
	lastClass = ""
	if ref.BuildErr != "" {
		ev.Excluded("generator_program_rejected_by_gc")
		ev.Note("gc rejects a generated program: %s", ref.BuildErr)
		return ""
	}
	if ref.Fatal != "" {
		ev.Excluded("gc_fatal_" + strings.SplitN(ref.Fatal, ":", 3)[0])
		return ""
	}
	o := runScriggo(src)
	switch {
	case o.hostPanic != "":
		lastClass = "host-panic"
		return "host panic: " + o.hostPanic
	case o.buildErr != "":
		lastClass = "build-reject"
		return "Build rejects a program gc accepts: " + o.buildErr
	case o.otherErr != "":
		return "Run returned an unexpected error: " + o.otherErr
	}
	// message details covered by recorded findings are normalised on both sides; a hit is counted
	if o.out != ref.Out && normalise(o.out) == normalise(ref.Out) {
		countMessageFindings(o.out, ref.Out)
		ref.Out = o.out
	}
	if o.out != ref.Out {
		lastClass = "output"
		return fmt.Sprintf("printed output differs.\n--- gc:\n%s\n--- scriggo:\n%s\n--- first difference: %s", clip(ref.Out), clip(o.out), firstDiff(ref.Out, o.out))
	}
	if (o.panicText != "") != (ref.Panic != "") {
		lastClass = "outcome"
		return fmt.Sprintf("final outcome differs: gc panic=%q, scriggo panic=%q", ref.Panic, o.panicText)
	}
	if o.panicText != ref.Panic && normalise(o.panicText) == normalise(ref.Panic) {
		countMessageFindings(o.panicText, ref.Panic)
		return ""
	}
	if o.panicText != ref.Panic {
		lastClass = "panic-message"
		return fmt.Sprintf("panic message differs: gc %q, scriggo %q", ref.Panic, o.panicText)
	}
	return ""
}

func clip(s string) string {
	if len(s) > 1500 {
		return s[:1500] + "…"
	}
	return s
}

func firstDiff(a, b string) string {
	la, lb := strings.Split(a, "\n"), strings.Split(b, "\n")
	for i := 0; i < len(la) || i < len(lb); i++ {
		var x, y string
		if i < len(la) {
			x = la[i]
		}
		if i < len(lb) {
			y = lb[i]
		}
		if x != y {
			return fmt.Sprintf("line %d: gc %q, scriggo %q", i+1, x, y)
		}
	}
	return "none"
}

func judge(c Case) string {
	ts, err := gcref.Run([]string{c.Src})
	if err != nil {
		panic("infrastructure: gc reference unavailable: " + err.Error())
	}
	return compare(c.Src, ts[0])
}

func init() {
	ev.RegisterReplay("gc", func(t ev.TB, raw json.RawMessage) {
		var c Case
		if err := json.Unmarshal(raw, &c); err != nil {
			t.Fatalf("bad case: %v", err)
		}
		if msg := judge(c); msg != "" {
			t.Fatalf("%s\n--- program:\n%s", msg, c.Src)
		}
	})
}

// known findings → generator switches
var switchOf = map[string]string{
	"C01-float-division-by-constant-zero": "float.div_const_zero",
	"C01-recover-inside-range-loop":       "recover.in_range",
}

func offSwitches() goprog.Off {
	off := goprog.Off{}
	for id, sw := range switchOf {
		if ev.IsKnown(id) {
			off[sw] = true
		}
	}
	return off
}

func classify(src, msg string) string {
	switch {
	case lastClass == "panic-message" && strings.Contains(msg, `gc "runtime error: slice bounds out of range [`) && strings.Contains(msg, `scriggo "runtime error: slice bounds out of range"`):
		return "C01-slice-bounds-message"
	case lastClass == "build-reject" && strings.HasSuffix(strings.TrimSpace(strings.SplitN(msg, "\n", 2)[0]), "division by zero") && reFloatDivZero.MatchString(src):
		return "C01-float-division-by-constant-zero"
	}
	return ""
}

var reSliceDetail = regexp.MustCompile(`slice bounds out of range \[[^\]\n]*\]( with (length|capacity) [0-9]+)?`)

func normalise(s string) string {
	if ev.IsKnown("C01-slice-bounds-message") {
		s = reSliceDetail.ReplaceAllString(s, "slice bounds out of range")
	}
	if ev.IsKnown("C01-negative-index-message") {
		s = reNegIndex.ReplaceAllString(s, "$1")
	}
	return s
}

func countMessageFindings(a, b string) {
	if reSliceDetail.MatchString(a + b) {
		ev.Known("C01-slice-bounds-message")
	}
	if reNegIndex.MatchString(a + b) {
		ev.Known("C01-negative-index-message")
	}
}

var reNegIndex = regexp.MustCompile(`(index out of range \[-[0-9]+\]) with length [0-9]+`)

var reFloatDivZero = regexp.MustCompile(`/ \(*float(32|64)\(0\)`)

var nontrivialFeatures = map[string]bool{"shift_int8": true, "shift_uint8": true, "shift_int16": true, "shift_uint16": true, "shift_int32": true, "shift_uint32": true, "conv_int": true, "recover": true, "closure_mutation": true, "multi_value_call": true, "package_var": true, "fault_divzero": true, "fault_index": true, "fault_nilmap": true, "fault_assert": true, "arith_int8": true, "arith_uint8": true, "arith_int16": true, "arith_uint16": true, "arith_int32": true, "arith_uint32": true, "div_minus_one": true, "defer": true, "fallthrough": true}

func TestPropGc(t *testing.T) {
	off := offSwitches()
	batch := 40
	ev.Check(t, ev.N{Quick: 28, Thorough: 700}, func(t *rapid.T) {
		n := rapid.IntRange(batch/2, batch).Draw(t, "nprograms")
		progs := make([]goprog.Prog, n)
		srcs := make([]string, n)
		for i := range progs {
			progs[i] = goprog.Gen(t, off)
			if rapid.IntRange(0, 3).Draw(t, "closureform") == 0 || os.Getenv("VERIF_ALL_CLOSURE_FORM") != "" {
				// the same program with every function as a function literal of main
				progs[i].Src = goprog.AsClosures(progs[i].Src)
				progs[i].Features = append(progs[i].Features, "closure_form")
			}
			srcs[i] = progs[i].Src
		}
		ts, err := gcref.Run(srcs)
		if err != nil {
			panic("infrastructure: gc reference unavailable: " + err.Error())
		}
		for i, p := range progs {
			ev.Eval()
			nt := false
			for _, f := range p.Features {
				ev.Label("feature_" + f)
				if nontrivialFeatures[f] {
					nt = true
				}
			}
			if ts[i].Panic != "" {
				ev.Label("gc_outcome_panic")
			}
			if nt {
				sort.Strings(p.Features)
				ev.NontrivialSample(map[string]any{"program": p.Src, "gc_output": clip(ts[i].Out), "gc_panic": ts[i].Panic}, p.Src)
			}
			ev.Journal("gc", Case{Src: p.Src})
			if msg := compare(p.Src, ts[i]); msg != "" {
				if id := classify(p.Src, msg); id != "" && ev.Known(id) {
					continue
				}
				ev.Fail(t, "gc", Case{Src: p.Src}, "%s\n--- program:\n%s", msg, p.Src)
			}
		}
	})
}

package c01

import (
	"fmt"
	"strings"
	"testing"

	"verif/harness/lib/ev"
	"verif/harness/lib/gcref"
)

var convTypes = []string{"int", "int8", "int16", "int32", "int64", "uint", "uint8", "uint16", "uint32", "uint64"}

// convProgram converts boundary values, known only at run time, from one integer type to another
// and observes the result through every operator family, as a slice element, in an interface and
// as a map key (printing the converted value alone can mask a register that was not narrowed or
// extended).
func convProgram(from, to string) string {
	src := `package main

var seeds = []int64{-3, -300, 200, 70000, -1, 0, 1, 127, -128, 128, 255, 256, 32767, -32768, 32768, 65535, 65536,
	2147483647, -2147483648, 2147483648, 4294967295, 4294967296, -9223372036854775808, 9223372036854775807}

func cv(s int64) {
	x := FROM(s)
	y := TO(x)
	println(y, y>>1, y<<3, y == TO(x), y > 100, uint64(y), int64(y), int(y), uint32(y), int16(y))
	println(y^1, y&0x7f, y|1, ^y, -y, y/3, y%7, y*3, y+1, y-1, float64(y))
	l := []TO{y}
	var i interface{} = y
	println(l[0] == y, i.(TO) == y, l[0]>>2, map[TO]int{y: 1}[TO(x)])
	var w struct{ F TO }
	w.F = TO(x)
	println(w.F, w.F < 0, w.F == y, uint64(w.F)+1)
}

func main() {
	for _, s := range seeds {
		cv(s)
	}
}
`
	return strings.ReplaceAll(strings.ReplaceAll(src, "FROM", from), "TO", to)
}

// TestExhConvMatrix: every ordered pair of integer types, 24 boundary values each, judged against
// gc like every other program of this property. The conv_matrix snippet of the generator draws one
// cell of this matrix per occurrence; the quick tier enumerates it so that no cell depends on the
// draw.
func TestExhConvMatrix(t *testing.T) {
	shard, shards := ev.Shard()
	var srcs []string
	var names []string
	n := 0
	for _, from := range convTypes {
		for _, to := range convTypes {
			n++
			if n%shards != shard {
				continue
			}
			srcs = append(srcs, convProgram(from, to))
			names = append(names, from+"->"+to)
		}
	}
	if len(srcs) == 0 {
		return
	}
	ts, err := gcref.Run(srcs)
	if err != nil {
		panic("infrastructure: gc reference unavailable: " + err.Error())
	}
	for i, src := range srcs {
		ev.Eval()
		ev.Label("conv_matrix_cell")
		ev.NontrivialSample(map[string]any{"conversion": names[i], "gc_output": clip(ts[i].Out)}, "conv_matrix", names[i])
		if msg := compare(src, ts[i]); msg != "" {
			if id := classify(src, msg); id != "" && ev.Known(id) {
				continue
			}
			ev.Fail(t, "gc", Case{Src: src}, "%s\n--- conversion %s, program:\n%s", msg, names[i], fmt.Sprint(src))
		}
	}
}

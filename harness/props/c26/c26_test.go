// C26 — Markdown escaping neutralises Markdown syntax.
package c26

import (
	"encoding/json"
	"fmt"
	"strings"
	"testing"
	"unicode/utf8"

	"github.com/open2b/scriggo/native"
	"golang.org/x/net/html"
	"golang.org/x/net/html/atom"
	"pgregory.net/rapid"

	"verif/harness/lib/ev"
	"verif/harness/lib/sg"
)

func TestMain(m *testing.M)    { ev.Main(m, "C26") }
func TestReplay(t *testing.T)  { ev.Replay(t) }
func TestRegress(t *testing.T) { ev.Regress(t) }

type Case struct {
	V     []byte `json:"v"`     // the shown string
	Show  string `json:"show"`  // readable form
	Shape string `json:"shape"` // template shape
}

// template shapes: where the show sits in the Markdown document
var shapes = map[string]string{
	"para_alone":   "{{ v }}\n",
	"para_mid":     "before {{ v }} after\n",
	"para_start":   "first paragraph\n\n{{ v }} after\n",
	"para_end":     "before {{ v }}\n\nlast paragraph\n",
	"para_line2":   "before\n{{ v }}\nafter\n",
	"code_tab":     "before\n\n\t{{ v }}\n\nafter\n",
	"code_spaces":  "before\n\n    {{ v }}\n\nafter\n",
	"code_tab_mid": "before\n\n\tx {{ v }} y\n\nafter\n",
}

func loneCR(v string) bool {
	for i := 0; i < len(v); i++ {
		if v[i] == '\r' && (i+1 >= len(v) || v[i+1] != '\n') {
			return true
		}
	}
	return false
}

func isCode(shape string) bool { return strings.HasPrefix(shape, "code_") }

type elem struct {
	tag  string
	text string
}

// outline returns the element names in document order and the text.
func outline(h string) (tags []string, text string, perTop []elem, err error) {
	nodes, err := html.ParseFragment(strings.NewReader(h), &html.Node{Type: html.ElementNode, Data: "body", DataAtom: atom.Body})
	if err != nil {
		return nil, "", nil, err
	}
	var sb strings.Builder
	var walk func(n *html.Node, sb *strings.Builder)
	walk = func(n *html.Node, sb *strings.Builder) {
		switch n.Type {
		case html.ElementNode:
			tags = append(tags, n.Data)
		case html.TextNode:
			sb.WriteString(n.Data)
		case html.CommentNode:
			tags = append(tags, "#comment")
		}
		for c := n.FirstChild; c != nil; c = c.NextSibling {
			walk(c, sb)
		}
	}
	for _, n := range nodes {
		var es strings.Builder
		walk(n, &es)
		if n.Type == html.ElementNode {
			perTop = append(perTop, elem{n.Data, es.String()})
		} else if strings.TrimSpace(es.String()) != "" {
			perTop = append(perTop, elem{"#text", es.String()})
		}
		sb.WriteString(es.String())
		sb.WriteString("\n")
	}
	return tags, sb.String(), perTop, nil
}

// norm collapses the whitespace Markdown does not preserve.
func norm(s string) string {
	// NUL: CommonMark replaces it with U+FFFD, the HTML parser drops or replaces it; ignore both spellings
	s = strings.ReplaceAll(strings.ReplaceAll(s, "\x00", ""), "\uFFFD", "")
	f := strings.FieldsFunc(s, func(r rune) bool {
		return r == ' ' || r == '\t' || r == '\n' || r == '\r' || r == ' ' || r == '\f' || r == '\v'
	})
	return strings.Join(f, " ")
}

func judge(c Case) string {
	tmpl, ok := shapes[c.Shape]
	if !ok {
		return "unknown shape " + c.Shape
	}
	v := string(c.V)
	if isCode(c.Shape) && loneCR(v) {
		// goldmark does not treat a CR that is not followed by LF as a line ending, CommonMark does:
		// the reference and the specification disagree, so no outcome can be judged.
		ev.Excluded("code_block_value_with_lone_CR")
		return ""
	}
	res := sg.Render(map[string]string{"index.md": tmpl}, "index.md", sg.Opts{
		Globals: native.Declarations{"v": (*string)(nil)}, Vars: map[string]any{"v": v}})
	if d := res.Describe(); d != "" {
		return "render failed: " + d
	}
	h := sg.MarkdownToHTML(res.Out)
	tags, text, tops, err := outline(h)
	if err != nil {
		return "html parse: " + err.Error()
	}
	if !isCode(c.Shape) {
		for _, tg := range tags {
			if tg != "p" {
				return fmt.Sprintf("shown value introduced element <%s>: markdown %q converts to %q", tg, res.Out, h)
			}
		}
		for _, e := range tops {
			if e.tag != "p" {
				return fmt.Sprintf("top-level %s outside a paragraph: markdown %q converts to %q", e.tag, res.Out, h)
			}
		}
		if !utf8.ValidString(v) {
			ev.Excluded("text_equality_skipped_invalid_utf8")
			return ""
		}
		want := norm(strings.Replace(tmpl, "{{ v }}", v, 1))
		if got := norm(text); got != want {
			return fmt.Sprintf("text content changed: markdown %q converts to %q with text %q, want %q", res.Out, h, got, want)
		}
		return ""
	}
	// code block: <p>before</p><pre><code>…value…</code></pre><p>after</p>
	innerTmpl := strings.TrimSpace(strings.Split(tmpl, "\n\n")[1])
	if norm(strings.Replace(innerTmpl, "{{ v }}", v, 1)) == "" {
		// a whitespace-only indented chunk is no code block at all in CommonMark
		if len(tops) == 2 && tops[0].tag == "p" && tops[1].tag == "p" && norm(tops[0].text) == "before" && norm(tops[1].text) == "after" {
			return ""
		}
	}
	if len(tops) != 3 || tops[0].tag != "p" || tops[1].tag != "pre" || tops[2].tag != "p" ||
		norm(tops[0].text) != "before" || norm(tops[2].text) != "after" {
		return fmt.Sprintf("value left the code block: markdown %q converts to %q", res.Out, h)
	}
	for _, tg := range tags {
		if tg != "p" && tg != "pre" && tg != "code" {
			return fmt.Sprintf("shown value introduced element <%s>: markdown %q converts to %q", tg, res.Out, h)
		}
	}
	if utf8.ValidString(v) {
		inner := strings.Replace(strings.TrimSpace(strings.Split(tmpl, "\n\n")[1]), "{{ v }}", v, 1)
		if got, want := norm(tops[1].text), norm(inner); got != want {
			return fmt.Sprintf("code block text changed: markdown %q converts to %q with code text %q, want %q", res.Out, h, got, want)
		}
	}
	return ""
}

func init() {
	ev.RegisterReplay("md", func(t ev.TB, raw json.RawMessage) {
		var c Case
		if err := json.Unmarshal(raw, &c); err != nil {
			t.Fatalf("bad case: %v", err)
		}
		if msg := judge(c); msg != "" {
			t.Fatalf("%s", msg)
		}
	})
}

var dict = []string{
	"*", "**", "_", "__", "*a*", "**a**", "_a_", "`", "``", "`a`", "```", "~~~", "~~a~~",
	"[a](b)", "[a]", "[a]: b", "![a](b)", "](", "[", "]", "(", ")", "<b>", "</b>", "<!--", "-->", "<![CDATA[", "]]>", "<a href=x>", "<http://x.y>", "<a@b.c>", "http://x.y", "www.x.y",
	"&amp;", "&lt;", "&#35;", "&#x23;", "&copy;", "&", "#", "# h", "## h", "#\t", "===", "=", "---", "-", "- a", "+ a", "* a", "1. a", "1) a", "10. a", "-\ta", "***", "___", "- - -",
	"> q", ">", "|", "| a | b |", "|-|-|", "\\", "\\\\", "\\*", "\\\n", "  \n", " \n", "\n", "\n\n", "\n\n\n", "\r", "\r\n", "\n\r", "\t", "\t\t", "    ", "   ", "  ", " ", " ", " ", "\f", "\v", "\x00",
	"a", "b", "Z", "0", "é", "日本", "😀", ".", "!", "{", "}", "{{", "{%", "{#", "~", "$", "^", ":", "\"", "'", "<", "\xff", "\xc3",
	"<script>", "<pre>", "</pre>", "<div>", "<?php", "<!DOCTYPE x>", "[x]: /u \"t\"", "Setext\n===", "Setext\n---", ":---:", "a | b\n--|--",
}

var lineEnds = []string{"\n", "\n\n", "\n\n\n", "\r\n", "\r\n\r\n", "\r", "\n\r", "  \n", "\\\n", " \n"}
var indents = []string{"\t", " ", "  ", "   ", "    ", "     ", "\t\t", " \t", "  \t", "\u00a0", "\u00a0\t", "\f", "\v"}

// genValue builds a value line by line: [indent] piece* lineEnd, so that
// block-level syntax lands at line starts behind every kind of indentation.
func genValue(t *rapid.T) string {
	var b strings.Builder
	lines := rapid.IntRange(1, 4).Draw(t, "lines")
	for l := 0; l < lines; l++ {
		if rapid.IntRange(0, 2).Draw(t, "ind") == 0 {
			b.WriteString(rapid.SampledFrom(indents).Draw(t, "indent"))
		}
		n := rapid.IntRange(0, 4).Draw(t, "n")
		for i := 0; i < n; i++ {
			if rapid.IntRange(0, 9).Draw(t, "rnd") == 0 {
				b.WriteString(rapid.StringN(0, 4, -1).Draw(t, "u"))
			} else {
				b.WriteString(rapid.SampledFrom(dict).Draw(t, "d"))
			}
		}
		if l < lines-1 || rapid.IntRange(0, 3).Draw(t, "trail") == 0 {
			b.WriteString(rapid.SampledFrom(lineEnds).Draw(t, "le"))
		}
	}
	return b.String()
}

var shapeNames = []string{"para_alone", "para_mid", "para_start", "para_end", "para_line2", "code_tab", "code_spaces", "code_tab_mid"}

func TestPropMarkdown(t *testing.T) {
	ev.Check(t, ev.N{Quick: 30000, Thorough: 3000000}, func(t *rapid.T) {
		v := genValue(t)
		c := Case{V: []byte(v), Show: fmt.Sprintf("%q", v), Shape: rapid.SampledFrom(shapeNames).Draw(t, "shape")}
		ev.Eval()
		ev.Label("shape_" + c.Shape)
		// non-trivial: the unescaped value would create an element
		raw := strings.Replace(shapes[c.Shape], "{{ v }}", v, 1)
		tags, _, _, _ := outline(sg.MarkdownToHTML(raw))
		extra := false
		for _, tg := range tags {
			if tg != "p" && !(isCode(c.Shape) && (tg == "pre" || tg == "code")) {
				extra = true
			}
		}
		if isCode(c.Shape) && strings.ContainsAny(v, "\n\r") {
			extra = true
		}
		if extra {
			ev.Label("nontrivial")
			ev.NontrivialSample(map[string]string{"value": c.Show, "shape": c.Shape}, c.Shape, v)
		}
		if msg := judge(c); msg != "" {
			if id := classify(c, msg); id != "" && ev.Known(id) {
				return
			}
			ev.Fail(t, "md", c, "%s", msg)
		}
	})
}

func classify(c Case, msg string) string { return "" }

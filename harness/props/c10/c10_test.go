// C10 — a compiled program or template can be run any number of times, in sequence and from
// many goroutines at once; every run behaves like the single run of a freshly built copy
// with the same inputs, and concurrent runs are free of data races (the package is built
// with the race detector).
package c10

import (
	"encoding/json"
	"fmt"
	"runtime"
	"sort"
	"strings"
	"sync"
	"testing"

	"github.com/open2b/scriggo"
	"pgregory.net/rapid"

	"verif/harness/gen/gopkgs"
	"verif/harness/gen/goprog"
	"verif/harness/gen/tmpl"
	"verif/harness/gen/tmplset"
	"verif/harness/lib/ev"
	"verif/harness/lib/sg"
)

func TestMain(m *testing.M)    { ev.Main(m, "C10") }
func TestReplay(t *testing.T)  { ev.Replay(t) }
func TestRegress(t *testing.T) { ev.Regress(t) }

// Case is an artefact plus a run plan.
type Case struct {
	Kind     string            `json:"kind"` // program | template
	Shape    string            `json:"shape"`
	Files    map[string]string `json:"files"`
	Main     string            `json:"main,omitempty"`
	NVars    int               `json:"nvars"`
	Seq      []int             `json:"seq"`        // input index of each sequential run
	Procs    int               `json:"gomaxprocs"` // GOMAXPROCS during the concurrent phase
	Conc     []int             `json:"conc"`       // input index of each concurrent run
	Jitter   []int             `json:"jitter"`     // scheduler yields before each concurrent run starts
	SeqAfter int               `json:"seq_after"`  // one more sequential run afterwards with this input
}

const inputs = 3

type artefact struct {
	prog *scriggo.Program
	tmpl *scriggo.Template
}

func build(c Case) (artefact, string) {
	if c.Kind == "program" {
		var p *scriggo.Program
		var err error
		var bp any
		func() {
			defer func() { bp = recover() }()
			p, err = scriggo.Build(sg.Files(c.Files), &scriggo.BuildOptions{Packages: gopkgs.HostPackage()})
		}()
		if bp != nil {
			return artefact{}, fmt.Sprintf("build panic: %v", bp)
		}
		if err != nil {
			return artefact{}, "build error: " + err.Error()
		}
		return artefact{prog: p}, ""
	}
	g, _ := tmplset.Globals(c.NVars, 0)
	t, res := sg.BuildTemplate(c.Files, c.Main, sg.Opts{Globals: g, Markdown: true, Packages: gopkgs.HostPackage()})
	if d := res.Describe(); d != "" {
		return artefact{}, d
	}
	return artefact{tmpl: t}, ""
}

// run executes the artefact once with the j-th input and returns everything observable.
func run(a artefact, c Case, j int) string {
	if a.prog != nil {
		// a program has no inputs: every run must be the same
		r := sg.RunProgram(a.prog, sg.Opts{})
		return r.Printed + "\n--\n" + r.Describe()
	}
	_, vars := tmplset.Globals(c.NVars, j)
	r := sg.RunTemplate(a.tmpl, sg.Opts{Vars: vars})
	return r.Out + "\n--\n" + r.Printed + "\n--\n" + r.Describe()
}

func firstDiff(a, b string) string {
	la, lb := strings.Split(a, "\n"), strings.Split(b, "\n")
	for i := 0; i < len(la) || i < len(lb); i++ {
		var x, y string
		if i < len(la) {
			x = la[i]
		}
		if i < len(lb) {
			y = lb[i]
		}
		if x != y {
			return fmt.Sprintf("line %d: fresh copy %q, this run %q", i+1, x, y)
		}
	}
	return "none"
}

// judge returns "" when every run of the shared artefact equals the run of a fresh copy.
func judge(c Case) (msg string, built bool) {
	shared, berr := build(c)
	if berr != "" {
		return "", false // not in the domain (C05 and C01 own build failures)
	}
	// reference: a fresh build per input, run once
	var ref [inputs]string
	for j := 0; j < inputs; j++ {
		fresh, e := build(c)
		if e != "" {
			return "a second build of the same sources fails: " + e, true
		}
		ref[j] = run(fresh, c, j)
	}
	for k, j := range c.Seq {
		ev.Eval()
		if got := run(shared, c, j); got != ref[j] {
			return fmt.Sprintf("sequential run %d (input %d) differs from a fresh copy: %s", k+1, j, firstDiff(ref[j], got)), true
		}
	}
	if len(c.Conc) > 0 {
		old := runtime.GOMAXPROCS(c.Procs)
		results := make([]string, len(c.Conc))
		start := make(chan struct{})
		var wg sync.WaitGroup
		for i := range c.Conc {
			wg.Add(1)
			go func(i int) {
				defer wg.Done()
				<-start
				for y := 0; y < c.Jitter[i]; y++ {
					runtime.Gosched()
				}
				results[i] = run(shared, c, c.Conc[i])
			}(i)
		}
		close(start)
		wg.Wait()
		runtime.GOMAXPROCS(old)
		for i, j := range c.Conc {
			ev.Eval()
			if results[i] != ref[j] {
				return fmt.Sprintf("concurrent run %d of %d (input %d, GOMAXPROCS %d) differs from a fresh copy: %s", i+1, len(c.Conc), j, c.Procs, firstDiff(ref[j], results[i])), true
			}
		}
	}
	ev.Eval()
	if got := run(shared, c, c.SeqAfter); got != ref[c.SeqAfter] {
		return fmt.Sprintf("the run after the concurrent phase (input %d) differs from a fresh copy: %s", c.SeqAfter, firstDiff(ref[c.SeqAfter], got)), true
	}
	return "", true
}

func describe(c Case) string {
	var names []string
	for n := range c.Files {
		if n != "go.mod" {
			names = append(names, n)
		}
	}
	sort.Strings(names)
	var b strings.Builder
	for _, n := range names {
		fmt.Fprintf(&b, "\n--- %s\n%s", n, c.Files[n])
	}
	fmt.Fprintf(&b, "\n--- plan: seq %v, gomaxprocs %d, conc %v, jitter %v", c.Seq, c.Procs, c.Conc, c.Jitter)
	return b.String()
}

func init() {
	ev.RegisterReplay("runs", func(t ev.TB, raw json.RawMessage) {
		var c Case
		if err := json.Unmarshal(raw, &c); err != nil {
			t.Fatalf("bad case: %v", err)
		}
		// schedules vary: the replay repeats the plan
		for i := 0; i < 20; i++ {
			if msg, _ := judge(c); msg != "" {
				t.Fatalf("%s%s", msg, describe(c))
			}
		}
	})
}

func genCase(t *rapid.T) Case {
	var c Case
	switch rapid.IntRange(0, 9).Draw(t, "shape") {
	case 0, 1, 2:
		p := goprog.Gen(t, goprog.Off{})
		c = Case{Kind: "program", Shape: "goprog", Files: map[string]string{"go.mod": "module m\n", "main.go": p.Src}}
	case 3, 4:
		m := gopkgs.Gen(t)
		c = Case{Kind: "program", Shape: "packages", Files: m.Files}
	case 5, 6, 7:
		ts := tmplset.Gen(t)
		c = Case{Kind: "template", Shape: "template-set", Files: ts.Files, Main: ts.Main}
	default:
		format := rapid.SampledFrom([]string{"html", "html", "js", "css", "json", "md", "text"}).Draw(t, "format")
		d := tmpl.Gen(t, format, 6, tmpl.Off{})
		c = Case{Kind: "template", Shape: "tmpl-" + format, Files: map[string]string{d.File: d.Src}, Main: d.File, NVars: len(d.Holes)}
	}
	nseq := rapid.IntRange(1, 4).Draw(t, "nseq")
	for i := 0; i < nseq; i++ {
		c.Seq = append(c.Seq, rapid.IntRange(0, inputs-1).Draw(t, "seqinput"))
	}
	c.Procs = rapid.SampledFrom([]int{1, 2, 3, 4, 8, 16}).Draw(t, "gomaxprocs")
	nconc := rapid.SampledFrom([]int{2, 2, 3, 4, 8, 16, 32}).Draw(t, "nconc")
	for i := 0; i < nconc; i++ {
		c.Conc = append(c.Conc, rapid.IntRange(0, inputs-1).Draw(t, "concinput"))
		c.Jitter = append(c.Jitter, rapid.IntRange(0, 40).Draw(t, "jitter"))
	}
	c.SeqAfter = rapid.IntRange(0, inputs-1).Draw(t, "seqafter")
	return c
}

func TestPropRuns(t *testing.T) {
	ev.Check(t, ev.N{Quick: 600, Thorough: 30000}, func(t *rapid.T) {
		c := genCase(t)
		ev.Journal("runs", c)
		msg, built := judge(c)
		if !built {
			ev.Excluded("does_not_build")
			return
		}
		ev.Label("shape_" + c.Shape)
		ev.Label(fmt.Sprintf("gomaxprocs_%d", c.Procs))
		ev.Label(fmt.Sprintf("concurrent_runs_%d", len(c.Conc)))
		ev.NontrivialSample(map[string]any{"shape": c.Shape, "seq": c.Seq, "gomaxprocs": c.Procs, "concurrent_runs": len(c.Conc)}, describe(c))
		if msg != "" {
			ev.Fail(t, "runs", c, "%s%s", msg, describe(c))
		}
	})
}

// C17 — template variables passed to Run are the values every reference sees.
package c17

import (
	"encoding/json"
	"fmt"
	"sort"
	"strings"
	"testing"

	"github.com/open2b/scriggo/native"
	"pgregory.net/rapid"

	"verif/harness/lib/ev"
	"verif/harness/lib/sg"
)

func TestMain(m *testing.M)    { ev.Main(m, "C17") }
func TestReplay(t *testing.T)  { ev.Replay(t) }
func TestRegress(t *testing.T) { ev.Regress(t) }

// Var is a declared global: Typ "string" or "int".
type Var struct {
	Name string `json:"name"`
	Typ  string `json:"typ"`
	Pass string `json:"pass"` // value | pointer | missing
	S    string `json:"s"`    // initial value when string
	I    int    `json:"i"`    // initial value when int
}

// Op is a read or a write of a global.
type Op struct {
	Var   int    `json:"var"`
	Write bool   `json:"write"`
	S     string `json:"s,omitempty"`
	I     int    `json:"i,omitempty"`
}

// Unit is a group of ops placed in one kind of scope.
type Unit struct {
	Where string `json:"where"` // top macro import render using closure layout
	Ops   []Op   `json:"ops"`
}

type Case struct {
	Vars    []Var             `json:"vars"`
	Units   []Unit            `json:"units"`
	Extends bool              `json:"extends"`         // the main file extends a layout that calls Body()
	Extra   bool              `json:"extra"`           // pass an extra, undeclared name in the map
	Files   map[string]string `json:"files,omitempty"` // filled by build, for readability of replay files
}

func opSrc(c Case, o Op) string {
	v := c.Vars[o.Var]
	if !o.Write {
		return "<" + v.Name + ":{{ " + v.Name + " }}>"
	}
	if v.Typ == "int" {
		return fmt.Sprintf("{%% %s = %d %%}", v.Name, o.I)
	}
	return fmt.Sprintf("{%% %s = %q %%}", v.Name, o.S)
}

// build lays the units out in files and returns the expected output.
func build(c Case) (files map[string]string, main string) {
	var top, macros, imp, layoutTop strings.Builder
	nm, ni, nr := 0, 0, 0
	files = map[string]string{}
	for _, u := range c.Units {
		var body strings.Builder
		for _, o := range u.Ops {
			body.WriteString(opSrc(c, o))
		}
		switch u.Where {
		case "macro":
			name := fmt.Sprintf("M%d", nm)
			nm++
			macros.WriteString("{% macro " + name + " %}" + body.String() + "{% end %}")
			top.WriteString("{{ " + name + "() }}")
		case "import":
			name := fmt.Sprintf("I%d", ni)
			ni++
			imp.WriteString("{% macro " + name + " %}" + body.String() + "{% end %}")
			top.WriteString("{{ " + name + "() }}")
		case "render":
			f := fmt.Sprintf("part%d.txt", nr)
			nr++
			files[f] = body.String()
			top.WriteString("{{ render \"" + f + "\" }}")
		case "using":
			top.WriteString("{% show itea; using %}" + body.String() + "{% end using %}")
		case "closure":
			// reads only: a function literal that returns the value of the global
			for _, o := range u.Ops {
				v := c.Vars[o.Var]
				if o.Write {
					top.WriteString(opSrc(c, o))
					continue
				}
				top.WriteString("{%% f" + fmt.Sprint(nm) + " := func() " + v.Typ + " { return " + v.Name + " } %%}<" + v.Name + ":{{ f" + fmt.Sprint(nm) + "() }}>")
				nm++
			}
		case "layout":
			layoutTop.WriteString(body.String())
		default:
			top.WriteString(body.String())
		}
	}
	if imp.Len() > 0 {
		files["imp.txt"] = imp.String()
	}
	importStmt := ""
	if imp.Len() > 0 {
		importStmt = "{% import \"imp.txt\" %}"
	}
	if c.Extends {
		files["layout.txt"] = layoutTop.String() + "{{ Body() }}"
		files["index.txt"] = "{% extends \"layout.txt\" %}" + importStmt + macros.String() + "{% macro Body %}" + top.String() + "{% end %}"
	} else {
		files["index.txt"] = importStmt + macros.String() + layoutTop.String() + top.String()
	}
	return files, "index.txt"
}

// expected interprets the units in execution order.
func expected(c Case) (out string, final []Var) {
	state := append([]Var(nil), c.Vars...)
	for i := range state {
		if state[i].Pass == "missing" {
			state[i].S, state[i].I = "", 0
		}
	}
	var b strings.Builder
	run := func(u Unit) {
		for _, o := range u.Ops {
			v := &state[o.Var]
			if o.Write {
				v.S, v.I = o.S, o.I
				continue
			}
			if v.Typ == "int" {
				fmt.Fprintf(&b, "<%s:%d>", v.Name, v.I)
			} else {
				fmt.Fprintf(&b, "<%s:%s>", v.Name, v.S)
			}
		}
	}
	// layout ops run first (they precede Body() / the top-level content)
	for _, u := range c.Units {
		if u.Where == "layout" {
			run(u)
		}
	}
	for _, u := range c.Units {
		if u.Where != "layout" {
			run(u)
		}
	}
	return b.String(), state
}

func judge(c Case) string {
	files, main := build(c)
	globals := native.Declarations{}
	for _, v := range c.Vars {
		if v.Typ == "int" {
			globals[v.Name] = (*int)(nil)
		} else {
			globals[v.Name] = (*string)(nil)
		}
	}
	t, res := sg.BuildTemplate(files, main, sg.Opts{Globals: globals})
	if res.BuildPanic != nil {
		return fmt.Sprintf("build panic: %v", res.BuildPanic)
	}
	if res.BuildErr != nil {
		return fmt.Sprintf("generated template does not build: %v\nfiles: %q", res.BuildErr, files)
	}
	vars := map[string]any{}
	ptrS := map[string]*string{}
	ptrI := map[string]*int{}
	for _, v := range c.Vars {
		switch v.Pass {
		case "value":
			if v.Typ == "int" {
				vars[v.Name] = v.I
			} else {
				vars[v.Name] = v.S
			}
		case "pointer":
			if v.Typ == "int" {
				x := v.I
				ptrI[v.Name] = &x
				vars[v.Name] = &x
			} else {
				x := v.S
				ptrS[v.Name] = &x
				vars[v.Name] = &x
			}
		}
	}
	if c.Extra {
		vars["undeclaredExtra"] = 42
	}
	r := sg.RunTemplate(t, sg.Opts{Vars: vars})
	if d := r.Describe(); d != "" {
		return fmt.Sprintf("run failed: %s\nfiles: %q", d, files)
	}
	want, final := expected(c)
	if r.Out != want {
		return fmt.Sprintf("references do not see the supplied values.\n files: %q\n vars: %s\n output: %q\n want:   %q", files, showVars(c), r.Out, want)
	}
	// UsedVars ⊆ declared, ⊇ referenced
	used := map[string]bool{}
	for _, n := range t.UsedVars() {
		used[n] = true
		if _, ok := globals[n]; !ok {
			return fmt.Sprintf("UsedVars reports %q which is not a declared global (UsedVars=%v)", n, t.UsedVars())
		}
	}
	for _, u := range c.Units {
		for _, o := range u.Ops {
			if n := c.Vars[o.Var].Name; !used[n] {
				return fmt.Sprintf("UsedVars %v does not report %q, which the template references\nfiles: %q", t.UsedVars(), n, files)
			}
		}
	}
	// pointer values are shared with the caller; non-pointer values are copied
	for i, v := range c.Vars {
		switch v.Pass {
		case "pointer":
			if v.Typ == "int" && *ptrI[v.Name] != final[i].I || v.Typ == "string" && *ptrS[v.Name] != final[i].S {
				return fmt.Sprintf("variable %s passed by pointer: caller sees %v after Run, the template's last value is %v/%q\nfiles: %q", v.Name, deref(ptrI[v.Name], ptrS[v.Name]), final[i].I, final[i].S, files)
			}
		case "value":
			if v.Typ == "int" && vars[v.Name] != any(v.I) || v.Typ == "string" && vars[v.Name] != any(v.S) {
				return fmt.Sprintf("variable %s passed by value was changed in the caller's map: %v", v.Name, vars[v.Name])
			}
		}
	}
	return ""
}

func deref(i *int, s *string) any {
	if i != nil {
		return *i
	}
	if s != nil {
		return *s
	}
	return nil
}

func showVars(c Case) string {
	var s []string
	for _, v := range c.Vars {
		if v.Typ == "int" {
			s = append(s, fmt.Sprintf("%s(%s,%s)=%d", v.Name, v.Typ, v.Pass, v.I))
		} else {
			s = append(s, fmt.Sprintf("%s(%s,%s)=%q", v.Name, v.Typ, v.Pass, v.S))
		}
	}
	return strings.Join(s, " ")
}

func init() {
	ev.RegisterReplay("vars", func(t ev.TB, raw json.RawMessage) {
		var c Case
		if err := json.Unmarshal(raw, &c); err != nil {
			t.Fatalf("bad case: %v", err)
		}
		if msg := judge(c); msg != "" {
			t.Fatalf("%s", msg)
		}
	})
}

var wheres = []string{"top", "top", "macro", "macro", "import", "render", "using", "closure", "layout"}

func genCase(t *rapid.T) Case {
	var c Case
	nv := rapid.IntRange(1, 3).Draw(t, "nvars")
	for i := 0; i < nv; i++ {
		v := Var{Name: fmt.Sprintf("g%d", i), Typ: rapid.SampledFrom([]string{"string", "int"}).Draw(t, "typ"), Pass: rapid.SampledFrom([]string{"value", "value", "pointer", "missing"}).Draw(t, "pass")}
		v.S = rapid.SampledFrom([]string{"hello", "x", "", "a b", "Z9"}).Draw(t, "s")
		v.I = rapid.IntRange(-3, 99).Draw(t, "i")
		if v.Typ == "int" {
			v.S = ""
		} else {
			v.I = 0
		}
		c.Vars = append(c.Vars, v)
	}
	c.Extends = rapid.IntRange(0, 3).Draw(t, "extends") == 0
	c.Extra = rapid.IntRange(0, 4).Draw(t, "extra") == 0
	nu := rapid.IntRange(1, 5).Draw(t, "nunits")
	for i := 0; i < nu; i++ {
		u := Unit{Where: rapid.SampledFrom(wheres).Draw(t, "where")}
		if u.Where == "layout" && !c.Extends {
			u.Where = "top"
		}
		no := rapid.IntRange(1, 3).Draw(t, "nops")
		for j := 0; j < no; j++ {
			o := Op{Var: rapid.IntRange(0, nv-1).Draw(t, "var"), Write: rapid.IntRange(0, 3).Draw(t, "write") == 0}
			if o.Write {
				if c.Vars[o.Var].Typ == "int" {
					o.I = rapid.IntRange(100, 199).Draw(t, "wi")
				} else {
					o.S = rapid.SampledFrom([]string{"new", "w1", "w2", ""}).Draw(t, "ws")
				}
			}
			u.Ops = append(u.Ops, o)
		}
		c.Units = append(c.Units, u)
	}
	return c
}

func TestPropVars(t *testing.T) {
	ev.Check(t, ev.N{Quick: 20000, Thorough: 2000000}, func(t *rapid.T) {
		c := genCase(t)
		ev.Eval()
		first := c.Units[0].Where
		for _, u := range c.Units {
			if u.Where == "layout" {
				first = "layout"
				break
			}
		}
		ev.Label("first_use_in_" + first)
		var shape []string
		for _, u := range c.Units {
			shape = append(shape, fmt.Sprintf("%s%d", u.Where, len(u.Ops)))
		}
		var passes []string
		for _, v := range c.Vars {
			passes = append(passes, v.Typ+"/"+v.Pass)
		}
		sort.Strings(passes)
		if first != "top" {
			ev.Label("nontrivial")
			files, _ := build(c)
			ev.NontrivialSample(map[string]any{"files": files, "vars": showVars(c)}, strings.Join(shape, ","), strings.Join(passes, ","), fmt.Sprint(c.Extends))
		}
		if msg := judge(c); msg != "" {
			c.Files, _ = build(c)
			ev.Fail(t, "vars", c, "%s", msg)
		}
	})
}

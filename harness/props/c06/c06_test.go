// C06 — autoescaping confines every shown untrusted value to its syntactic slot.
package c06

import (
	"encoding/json"
	"fmt"
	"reflect"
	"regexp"
	"sort"
	"strconv"
	"strings"
	"testing"

	"github.com/open2b/scriggo/native"
	"pgregory.net/rapid"

	"verif/harness/gen/tmpl"
	"verif/harness/gen/vals"
	"verif/harness/lib/ev"
	"verif/harness/lib/sg"
	"verif/harness/oracle/jstok"
	"verif/harness/oracle/skel"
)

func TestMain(m *testing.M)    { ev.Main(m, "C06") }
func TestReplay(t *testing.T)  { ev.Replay(t) }
func TestRegress(t *testing.T) { ev.Regress(t) }

type Case struct {
	Doc    tmpl.Doc  `json:"doc"`
	Values []vals.TV `json:"values"`
	K      int       `json:"k"`    // hole under test
	Wrap   string    `json:"wrap"` // none macro render import extends
	Show   string    `json:"show"` // readable form of the value under test
}

const marker = "mRk7Qz"

var ext = map[string]string{"html": "html", "js": "js", "css": "css", "json": "json", "md": "md", "text": "txt"}

func files(c Case) (map[string]string, string) {
	e := ext[c.Doc.Format]
	idx := "index." + e
	switch c.Wrap {
	case "macro":
		return map[string]string{idx: "{% macro M %}" + c.Doc.Src + "{% end %}{{ M() }}"}, idx
	case "render":
		return map[string]string{idx: "{{ render \"part." + e + "\" }}", "part." + e: c.Doc.Src}, idx
	case "import":
		return map[string]string{idx: "{% import \"m." + e + "\" %}{{ M() }}", "m." + e: "{% macro M %}" + c.Doc.Src + "{% end %}"}, idx
	case "extends":
		return map[string]string{idx: "{% extends \"layout." + e + "\" %}{% macro Body %}" + c.Doc.Src + "{% end %}", "layout." + e: "{{ Body() }}"}, idx
	}
	return map[string]string{idx: c.Doc.Src}, idx
}

// slotKind maps a true context to the token kind the marker must land in;
// "JSVALUE", "CSSVALUE", "JSONVALUE" are value slots.
func slotKind(ctx string) string {
	switch {
	case ctx == "html.text" || ctx == "html.rcdata" || strings.HasPrefix(ctx, "md."):
		return "TX"
	case ctx == "html.tag":
		return "AK"
	case ctx == "html.comment":
		return "CM"
	case ctx == "html.script.data":
		return "DATA"
	case strings.HasPrefix(ctx, "html.attr"):
		return "AV"
	case strings.HasPrefix(ctx, "js.expr"):
		return "JSVALUE"
	case strings.HasPrefix(ctx, "js.str"):
		return "JS:string"
	case ctx == "js.template":
		return "JS:template"
	case ctx == "js.regex":
		return "JS:regex"
	case ctx == "js.linecomment":
		return "JS:linecomment"
	case ctx == "js.blockcomment":
		return "JS:blockcomment"
	case ctx == "css.value":
		return "CSSVALUE"
	case strings.HasPrefix(ctx, "css.str") || ctx == "css.urlstr":
		return "CSS:string"
	case ctx == "css.url":
		return "CSS:url"
	case ctx == "css.comment":
		return "CSS:comment"
	case ctx == "json.value":
		return "JSONVALUE"
	case ctx == "json.str":
		return "J:string"
	case ctx == "text":
		return "TEXT"
	}
	return "?"
}

func tokens(out, format string) ([]skel.Tok, error) {
	if format == "md" {
		return skel.Tokens(sg.MarkdownToHTML(out), "html")
	}
	return skel.Tokens(out, format)
}

type failure struct {
	Class string // context-mismatch | breakout | render
	True  string
}

var last failure

func showToks(ts []skel.Tok) string {
	var s []string
	for i, t := range ts {
		if i >= 8 {
			s = append(s, "…")
			break
		}
		x := t.String()
		if len(x) > 80 {
			x = x[:80] + "…"
		}
		s = append(s, x)
	}
	return "[" + strings.Join(s, " ") + "]"
}

func oneJSONValue(ts []skel.Tok) bool {
	depth, items := 0, 0
	for _, t := range ts {
		if !strings.HasPrefix(t.Kind, "J:") {
			return false
		}
		switch t.Kind {
		case "J:{", "J:[":
			if depth == 0 {
				items++
			}
			depth++
		case "J:}", "J:]":
			depth--
			if depth < 0 {
				return false
			}
		default:
			if depth == 0 {
				items++
			}
		}
	}
	return depth == 0 && items == 1
}

// judge checks hole K with the other holes at their drawn values; a failure is
// then re-examined with the other holes benign, to tell a defect of this hole
// from damage done by another hole's value (reported by that hole's own case)
// and from a genuine interaction between holes.
func judge(c Case) string {
	msg := check(c, c.K, false)
	if msg == "" || len(c.Doc.Holes) < 2 {
		return msg
	}
	keep := last
	if alone := check(c, c.K, true); alone != "" {
		return alone
	}
	for j := range c.Doc.Holes {
		if j != c.K && check(c, j, true) != "" {
			ev.Excluded("failure_caused_by_another_holes_value")
			last = failure{}
			return ""
		}
	}
	last = keep
	return "interaction between holes: " + msg
}

func check(c Case, K int, othersBenign bool) string {
	last = failure{}
	if K >= len(c.Doc.Holes) {
		return ""
	}
	c.K = K
	if K < len(c.Values) {
		c.Show = fmt.Sprintf("%#v", c.Values[K].Interface())
		if len(c.Show) > 200 {
			c.Show = c.Show[:200] + "…"
		}
	}
	hole := c.Doc.Holes[c.K]
	last.True = hole.True
	fs, name := files(c)
	globals := native.Declarations{}
	for _, h := range c.Doc.Holes {
		globals[h.Var] = (*any)(nil)
	}
	t, res := sg.BuildTemplate(fs, name, sg.Opts{Globals: globals, Markdown: true})
	if res.BuildPanic != nil {
		last.Class = "render"
		return fmt.Sprintf("build panic: %v", res.BuildPanic)
	}
	if res.BuildErr != nil {
		// a generated document must build: generator bug or a build defect; either way not a confinement verdict
		ev.Excluded("document_does_not_build")
		ev.Note("document does not build: %v :: %s", res.BuildErr, c.Doc.Src)
		return ""
	}
	mk := func(useMarker bool) map[string]any {
		m := map[string]any{}
		for i, h := range c.Doc.Holes {
			var v any
			if i == c.K && useMarker {
				v = marker
			} else if i != c.K && othersBenign {
				v = fmt.Sprintf("b%dn", i)
			} else if i < len(c.Values) {
				v = c.Values[i].Interface()
			} else {
				v = "x"
			}
			p := new(any)
			*p = v
			m[h.Var] = p
		}
		return m
	}
	rm := sg.RunTemplate(t, sg.Opts{Vars: mk(true)})
	ra := sg.RunTemplate(t, sg.Opts{Vars: mk(false)})
	if rm.RunPanic != nil || ra.RunPanic != nil {
		last.Class = "render"
		ev.Excluded("host_panic_reported_by_C05")
		return ""
	}
	if rm.RunErr != nil || ra.RunErr != nil {
		ev.Excluded("run_error")
		return ""
	}
	if c.Doc.Format == "md" && strings.TrimSpace(strings.Replace(rm.Out, marker, "", 1)) == strings.TrimSpace(ra.Out) {
		ev.Excluded("markdown_value_renders_blank") // a blank value makes its paragraph vanish; nothing to confine
		return ""
	}
	tm, err1 := tokens(rm.Out, c.Doc.Format)
	ta, err2 := tokens(ra.Out, c.Doc.Format)
	if err1 != nil {
		// even the marker render does not tokenize: some OTHER hole's value broke the document; that hole's own case reports it
		ev.Excluded("marker_render_untokenizable")
		return ""
	}
	if err2 != nil {
		last.Class = "breakout"
		return fmt.Sprintf("value %s in %s makes the document untokenizable: %v\n template: %s\n output: %q", c.Show, hole.True, err2, c.Doc.Src, ra.Out)
	}
	_, mm, ma, _ := skel.Diff(tm, ta)
	if len(mm) == 0 && len(ma) == 0 {
		return ""
	}
	want := slotKind(hole.True)
	if want == "AK" {
		// attribute-name position: the tokenizer yields a name token and an (empty) value token per attribute
		okM := len(mm) >= 1 && len(mm) <= 2 && mm[0].Kind == "AK" && strings.EqualFold(mm[0].Text, marker) && (len(mm) == 1 || mm[1].Kind == "AV" && mm[1].Text == "")
		if !okM {
			last.Class = "context-mismatch"
			return fmt.Sprintf("hole in html.tag: the benign marker does not become one attribute name: %s\n template: %s\n output: %q", showToks(mm), c.Doc.Src, rm.Out)
		}
		okA := len(ma) == 0 || len(ma) <= 2 && ma[0].Kind == "AK" && (len(ma) == 1 || ma[1].Kind == "AV" && ma[1].Text == "")
		if !okA {
			last.Class = "breakout"
			return fmt.Sprintf("value %s shown at attribute-name position leaves its slot: marker render has %s, value render has %s\n template: %s\n output: %q", c.Show, showToks(mm), showToks(ma), c.Doc.Src, ra.Out)
		}
		return ""
	}
	// the marker must sit in exactly one token of the expected kind
	if len(mm) != 1 || !strings.Contains(mm[0].Text, marker) && !strings.Contains(strings.ToLower(mm[0].Text), strings.ToLower(marker)) {
		if len(mm) >= 1 && strings.Contains(strings.ToLower(mm[0].Text), strings.ToLower(marker)) {
			// the value changed tokens beyond the marker token
			last.Class = "breakout"
			return fmt.Sprintf("value %s in %s changes the document structure beyond its slot: marker render has %s where the value render has %s\n template: %s\n output: %q", c.Show, hole.True, showToks(mm), showToks(ma), c.Doc.Src, ra.Out)
		}
		last.Class = "breakout"
		return fmt.Sprintf("value %s in %s: renders differ outside the marker token: %s vs %s\n template: %s\n output: %q", c.Show, hole.True, showToks(mm), showToks(ma), c.Doc.Src, ra.Out)
	}
	got := mm[0].Kind
	valueSlot := want == "JSVALUE" || want == "CSSVALUE" || want == "JSONVALUE"
	if !valueSlot && got != want {
		last.Class = "context-mismatch"
		return fmt.Sprintf("hole in true context %s: the benign marker lands in a %s token, not %s (Scriggo's context and the real parser disagree)\n template: %s\n output: %q", hole.True, got, want, c.Doc.Src, rm.Out)
	}
	bad := func(why string) string {
		last.Class = "breakout"
		return fmt.Sprintf("value %s shown in %s leaves its slot (%s): marker render has %s, value render has %s\n template: %s\n output: %q", c.Show, hole.True, why, showToks(mm), showToks(ma), c.Doc.Src, ra.Out)
	}
	switch want {
	case "JSVALUE":
		if got != "JS:string" {
			last.Class = "context-mismatch"
			return fmt.Sprintf("hole in %s: the marker does not render as a string literal but as %s\n template: %s\n output: %q", hole.True, got, c.Doc.Src, rm.Out)
		}
		var raws []string
		for _, t := range ma {
			if !strings.HasPrefix(t.Kind, "JS:") {
				return bad("non-JS token in the slot")
			}
			raws = append(raws, t.Raw)
		}
		if _, err := jstok.ParseValue(strings.Join(raws, " ")); err != nil {
			return bad("not one value expression: " + err.Error())
		}
	case "CSSVALUE":
		if len(ma) == 2 && ma[0].Kind == "CSS:delim" && (ma[0].Text == "+" || ma[0].Text == "-") {
			ma = ma[1:] // a signed non-finite number ("+Inf"): sign and name, still one value
		}
		if len(ma) != 1 {
			return bad(fmt.Sprintf("%d CSS tokens instead of one component value", len(ma)))
		}
		switch ma[0].Kind {
		case "CSS:string", "CSS:number", "CSS:dimension", "CSS:percentage", "CSS:ident", "CSS:hash":
		default:
			return bad("token kind " + ma[0].Kind)
		}
	case "JSONVALUE":
		if !oneJSONValue(ma) {
			return bad("not exactly one JSON value")
		}
	default:
		if len(ma) > 1 {
			return bad(fmt.Sprintf("%d tokens instead of one", len(ma)))
		}
		if len(ma) == 1 && ma[0].Kind != want {
			return bad("token kind changed to " + ma[0].Kind)
		}
		if len(ma) == 0 && want != "TX" && want != "TEXT" && want != "DATA" {
			return bad("slot token disappeared")
		}
	}
	return ""
}

func init() {
	ev.RegisterReplay("confine", func(t ev.TB, raw json.RawMessage) {
		var c Case
		if err := json.Unmarshal(raw, &c); err != nil {
			t.Fatalf("bad case: %v", err)
		}
		if msg := judge(c); msg != "" {
			t.Fatalf("%s", msg)
		}
	})
}

// ---- values

var hostile = []string{
	"</script>", "</style>", "</ScRiPt >", "</title>", "</textarea>", "-->", "--!>", "]]>", "<!--", "<script>", "<b>", "<", ">", "\"", "'", "`", "\\", "\\\"", "\\'", "*/", "/*", "//", "${x}", "${", "}", "{", "\n", "\r", "\u2028", "\u2029", "\x00",
	"&quot;", "&#39;", "&#39", "&amp;", "&lt;", "=", " ", "\t", "/", "?", "#", "&", "%zz", "%41", "%", "+", "javascript:alert(1)", ",", ";", ":", "(", ")", "\\3c", "\\", "url(", "expression(", "x onmouseover=alert(1)", "a b", " x", "x ", "a=b", "a\"b", "a'b",
	"é", "日本", "😀", "\xff", "\xc3", "\ufeff", "0", "1e9", "-", "--", "..", "a", "", "<img src=x onerror=alert(1)>", "\" onclick=\"x", "' onclick='x", "><script>alert(1)</script>", "';alert(1);//", "\";alert(1);//", "\\\";alert(1);//", "</script><script>alert(1)</script>", "*/alert(1)/*", "\nalert(1)\n", "`+alert(1)+`", "${alert(1)}", "/;alert(1);/", "]/;alert(1);/[",
	"{{ v0 }}", "{% end %}", "{# c #}", "1 2", "1,2", "red;background:url(x)", "\"}x{\"", "\",\"k\":\"",
}

func genValue(t *rapid.T, ctx string) vals.TV {
	str := func() vals.TV {
		var s string
		switch rapid.IntRange(0, 5).Draw(t, "sv") {
		case 0:
			s = rapid.SampledFrom(hostile).Draw(t, "h1") + rapid.SampledFrom(hostile).Draw(t, "h2")
		case 1:
			s = rapid.String().Draw(t, "rs")
		case 2:
			s = "pre" + rapid.SampledFrom(hostile).Draw(t, "h3") + "post"
		default:
			s = rapid.SampledFrom(hostile).Draw(t, "h")
		}
		return vals.TV{T: vals.T{K: "string"}, V: vals.V{S: []byte(s)}}
	}
	opts := vals.Options{MaxDepth: 2, Strings: hostile, NonFinite: true, Uintptr: true, Time: true, ErrorIface: false}
	switch k := rapid.IntRange(0, 9).Draw(t, "vk"); {
	case k <= 5:
		return str()
	case k == 6:
		ty := vals.T{K: rapid.SampledFrom([]string{"int", "float64", "bool", "uint8", "int64", "float32"}).Draw(t, "nk")}
		return vals.TV{T: ty, V: vals.GenV(t, ty, 0, opts)}
	case k == 7:
		ty := vals.T{K: "lib", Lib: rapid.SampledFrom([]string{"MyString", "StrStringer", "EnvStr", "MyErr", "IntStringer"}).Draw(t, "lk")}
		return vals.TV{T: ty, V: vals.GenV(t, ty, 0, opts)}
	}
	if strings.HasPrefix(ctx, "js.expr") || ctx == "json.value" {
		return vals.Gen(t, opts)
	}
	return str()
}

func specialFor(ctx, s string) bool {
	switch {
	case strings.HasPrefix(ctx, "html.attr.url"), ctx == "md.url":
		return strings.ContainsAny(s, "\"'<>& ?#%&+=\\`\t\n")
	case strings.HasPrefix(ctx, "html."), strings.HasPrefix(ctx, "md."):
		return strings.ContainsAny(s, "\"'<>&= `\t\n/-")
	case strings.HasPrefix(ctx, "js."):
		return strings.ContainsAny(s, "\"'<>\\`\n\r/*$&") || strings.Contains(s, "\u2028")
	case strings.HasPrefix(ctx, "css."):
		return strings.ContainsAny(s, "\"'<>\\\n(){};:/*")
	case strings.HasPrefix(ctx, "json."):
		return strings.ContainsAny(s, "\"\\<>\n,:{}[]&")
	}
	return false
}

// findings: true-context classes with a recorded known finding
var findingOf = map[string]string{
	"js.regex":                "C06-js-regex-hole",
	"css.url":                 "C06-css-unquoted-url-hole",
	"js.template":             "C06-js-template-literal-hole",
	"js.blockcomment":         "C06-js-comment-hole",
	"js.expr.afterregexquote": "C06-js-regex-quote-desync",
	"html.tag":                "C06-tag-context-space",
	"md.url":                  "C06-md-url-markdown-chars",
}

func classify(c Case, msg string) string {
	if id, ok := findingOf[last.True]; ok {
		return id
	}
	if c.K < len(c.Values) {
		v := c.Values[c.K].Interface()
		if strings.HasSuffix(last.True, ".unq") && fmt.Sprint(v) == "" && last.Class == "breakout" {
			return "C06-unquoted-attr-empty-value"
		}
		if last.True == "md.text" && last.Class == "breakout" && reNumThenDot.MatchString(c.Doc.Src) && reDigits.MatchString(shownNumber(v)) {
			return "C06-md-number-before-dot"
		}
	}
	return ""
}

// shownNumber is the text a number is shown as: a float with an integral value is shown
// without exponent (1.2345679e+08 as 123456790), which can form a list marker as well.
func shownNumber(v any) string {
	switch x := v.(type) {
	case float64:
		return strconv.FormatFloat(x, 'f', -1, 64)
	case float32:
		return strconv.FormatFloat(float64(x), 'f', -1, 32)
	}
	return fmt.Sprint(v)
}

var reDigits = regexp.MustCompile(`^[0-9]{1,9}$`)
var reNumThenDot = regexp.MustCompile(`(?m)^(\{\{ ?v\d ?\}\}|\{% show v\d %\})[.)]`)

func offSwitches() tmpl.Off {
	off := tmpl.Off{}
	for ctx, id := range findingOf {
		if ev.IsKnown(id) {
			off[ctx] = true
		}
	}
	return off
}

var formats = []string{"html", "html", "html", "html", "js", "css", "json", "md", "text"}
var wraps = []string{"none", "none", "none", "macro", "render", "import", "extends"}

func TestPropConfinement(t *testing.T) {
	off := offSwitches()
	ev.Check(t, ev.N{Quick: 30000, Thorough: 3000000}, func(t *rapid.T) {
		format := rapid.SampledFrom(formats).Draw(t, "format")
		doc := tmpl.Gen(t, format, 5, off)
		if len(doc.Holes) == 0 {
			ev.Excluded("document_without_holes")
			return
		}
		c := Case{Doc: doc, Wrap: rapid.SampledFrom(wraps).Draw(t, "wrap")}
		for _, h := range doc.Holes {
			v := genValue(t, h.True)
			if strings.HasPrefix(h.True, "md.") && len(v.V.S) > 0 {
				// multi-line values in Markdown are C26's domain (a line ending legitimately ends a heading or paragraph)
				v.V.S = []byte(strings.NewReplacer("\n", " ", "\r", " ").Replace(string(v.V.S)))
			}
			c.Values = append(c.Values, v)
		}
		c.K = rapid.IntRange(0, len(doc.Holes)-1).Draw(t, "k")
		v := c.Values[c.K].Interface()
		c.Show = fmt.Sprintf("%#v", v)
		if len(c.Show) > 200 {
			c.Show = c.Show[:200] + "…"
		}
		hole := doc.Holes[c.K]
		ev.Eval()
		ev.Label("ctx_" + hole.True)
		ev.Label("wrap_" + c.Wrap)
		s, isStr := v.(string)
		if !isStr {
			s = fmt.Sprint(v)
			if v != nil {
				ev.Label("value_" + reflect.TypeOf(v).Kind().String())
			}
		}
		if specialFor(hole.True, s) && hole.True != "html.text" {
			ev.Label("nontrivial")
			ev.NontrivialSample(map[string]string{"template": doc.Src, "hole": hole.True, "value": c.Show, "wrap": c.Wrap}, hole.True, c.Show, skeletonKey(doc))
		}
		if msg := judge(c); msg != "" {
			if id := classify(c, msg); id != "" && ev.Known(id) {
				return
			}
			ev.Fail(t, "confine", c, "%s", msg)
		}
	})
}

func skeletonKey(d tmpl.Doc) string {
	var ctxs []string
	for _, h := range d.Holes {
		ctxs = append(ctxs, h.True)
	}
	sort.Strings(ctxs)
	return d.Format + ":" + strings.Join(ctxs, ",")
}

// ---- trusted types: the converse direction — a value of a trusted type (or of
// its Stringer interface) is emitted verbatim in a context of its own format.

type TrustedCase struct {
	Lib  string `json:"lib"`
	S    []byte `json:"s"`
	File string `json:"file"`
	Tmpl string `json:"tmpl"`
}

var trustedSpots = map[string][][2]string{
	"native.HTML": {{"i.html", "<p>a{{ v }}b</p>"}}, "HTMLStr": {{"i.html", "<p>a{{ v }}b</p>"}}, "HTMLEnvStr": {{"i.html", "<p>a{{ v }}b</p>"}},
	"native.CSS": {{"i.css", "p { a{{ v }}b }"}, {"i.html", "<style>p { a{{ v }}b }</style>"}}, "CSSStr": {{"i.css", "p { a{{ v }}b }"}}, "CSSEnvStr": {{"i.css", "p { a{{ v }}b }"}},
	"native.JS": {{"i.js", "var x = a{{ v }}b;"}, {"i.html", "<script>var x = a{{ v }}b;</script>"}}, "JSStr": {{"i.js", "var x = a{{ v }}b;"}}, "JSEnvStr": {{"i.js", "var x = a{{ v }}b;"}},
	"native.JSON": {{"i.json", "[1,{{ v }},2]"}}, "JSONStr": {{"i.json", "[1,{{ v }},2]"}}, "JSONEnvStr": {{"i.json", "[1,{{ v }},2]"}},
	"native.Markdown": {{"i.md", "a{{ v }}b\n"}}, "MDStr": {{"i.md", "a{{ v }}b\n"}}, "MDEnvStr": {{"i.md", "a{{ v }}b\n"}},
}

func judgeTrusted(c TrustedCase) string {
	ty := vals.T{K: "lib", Lib: c.Lib}
	val := vals.TV{T: ty, V: vals.V{S: c.S}}.Interface()
	p := new(any)
	*p = val
	res := sg.Render(map[string]string{c.File: c.Tmpl}, c.File, sg.Opts{Globals: native.Declarations{"v": (*any)(nil)}, Vars: map[string]any{"v": p}})
	if d := res.Describe(); d != "" {
		return "render failed: " + d
	}
	want := strings.Replace(c.Tmpl, "{{ v }}", string(c.S), 1)
	if c.Lib == "native.HTML" && strings.HasSuffix(c.File, ".md") {
		return "" // HTML in Markdown is escaped as Markdown with HTML allowed (documented), not verbatim
	}
	if res.Out != want {
		return fmt.Sprintf("trusted %s value %q not emitted verbatim: got %q want %q", c.Lib, c.S, res.Out, want)
	}
	return ""
}

func init() {
	ev.RegisterReplay("trusted", func(t ev.TB, raw json.RawMessage) {
		var c TrustedCase
		if err := json.Unmarshal(raw, &c); err != nil {
			t.Fatalf("bad case: %v", err)
		}
		if msg := judgeTrusted(c); msg != "" {
			t.Fatalf("%s", msg)
		}
	})
}

func TestPropTrusted(t *testing.T) {
	var libs []string
	for l := range trustedSpots {
		libs = append(libs, l)
	}
	sort.Strings(libs)
	ev.Check(t, ev.N{Quick: 3000, Thorough: 200000}, func(t *rapid.T) {
		lib := rapid.SampledFrom(libs).Draw(t, "lib")
		spot := rapid.SampledFrom(trustedSpots[lib]).Draw(t, "spot")
		s := rapid.SampledFrom(hostile).Draw(t, "s") + rapid.SampledFrom(hostile).Draw(t, "s2")
		c := TrustedCase{Lib: lib, S: []byte(s), File: spot[0], Tmpl: spot[1]}
		ev.Eval()
		ev.Label("trusted_verbatim")
		ev.Nontrivial("trusted", lib, spot[0], s)
		if msg := judgeTrusted(c); msg != "" {
			ev.Fail(t, "trusted", c, "%s", msg)
		}
	})
}

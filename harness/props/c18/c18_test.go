// C18 — template file loading stays inside the file system and terminates.
package c18

import (
	"encoding/json"
	"errors"
	"fmt"
	"io/fs"
	"path"
	"runtime/debug"
	"sort"
	"strings"
	"sync"
	"testing"
	"time"

	"github.com/open2b/scriggo"
	"pgregory.net/rapid"

	"verif/harness/lib/ev"
)

func TestMain(m *testing.M) {
	debug.SetMaxStack(64 << 20) // unbounded recursion dies in milliseconds, not after filling 1 GB
	ev.Main(m, "C18")
}
func TestReplay(t *testing.T)  { ev.Replay(t) }
func TestRegress(t *testing.T) { ev.Regress(t) }

// Ref is a reference from a file to another path.
type Ref struct {
	Kind string `json:"kind"` // render import extends
	Path string `json:"path"` // as written in the source
}

type File struct {
	Name string `json:"name"`
	Lib  bool   `json:"lib"` // contains only macro declarations (import target)
	Refs []Ref  `json:"refs"`
}

type Case struct {
	Files    []File `json:"files"` // Files[0] is the file built
	FormatFS bool   `json:"format_fs"`
}

func source(f File, idx int) string {
	var b strings.Builder
	ext := ""
	for _, r := range f.Refs {
		if r.Kind == "extends" {
			ext = "{% extends \"" + r.Path + "\" %}"
		}
	}
	b.WriteString(ext)
	var body strings.Builder
	n := 0
	for _, r := range f.Refs {
		switch r.Kind {
		case "import":
			n++
			fmt.Fprintf(&b, "{%% import l%d \"%s\" %%}", n, r.Path)
			fmt.Fprintf(&body, "{{ l%d.M() }}", n)
		case "render":
			fmt.Fprintf(&body, "{{ render \"%s\" }}", r.Path)
		}
	}
	switch {
	case f.Lib:
		b.WriteString("{% macro M %}lib" + body.String() + "{% end %}")
	case ext != "":
		b.WriteString("{% macro Body %}body" + body.String() + "{% end %}")
	default:
		fmt.Fprintf(&b, "file%d ", idx)
		b.WriteString(body.String())
	}
	return b.String()
}

// recFS records every Open.
type recFS struct {
	files scriggo.Files
	mu    sync.Mutex
	opens []string
	fmts  []string
}

func (r *recFS) Open(name string) (fs.File, error) {
	r.mu.Lock()
	r.opens = append(r.opens, name)
	r.mu.Unlock()
	return r.files.Open(name)
}

type recFormatFS struct{ *recFS }

func (r recFormatFS) Format(name string) (scriggo.Format, error) {
	r.mu.Lock()
	r.fmts = append(r.fmts, name)
	r.mu.Unlock()
	return scriggo.FormatHTML, nil
}

// resolve is the documented resolution: rooted for "/…", else relative to the
// referencing file's directory; a result that leaves the root does not exist.
func resolve(parent, ref string) (string, bool) {
	if strings.HasPrefix(ref, "/") {
		return ref[1:], true
	}
	r := path.Join(path.Dir(parent), ref)
	if r == ".." || strings.HasPrefix(r, "../") {
		return "", false
	}
	if strings.HasPrefix(r, "..") && dotsStrict {
		// A first element such as "..x" stays inside the root, yet the implementation
		// treats every result starting with ".." as leaving it. The property only says
		// that references that leave the root fail, so both readings are accepted: the
		// judge evaluates the model with dotsStrict on and off.
		return "", false
	}
	return r, true
}

// dotsStrict selects the reading of a resolved path whose first element merely starts
// with two dots ("..x/f.html"); see resolve.
var dotsStrict = true

type modelResult struct {
	problem string          // "" when the reachable graph is valid, else the kinds of problem found (sorted, comma separated)
	allowed map[string]bool // every name a reachable reference resolves to (plus the built file)
}

// model explores everything reachable from the built file. The order in which an
// implementation meets several problems is not documented, so the model is order-free:
// it collects every name a reachable reference resolves to and every kind of problem.
func model(c Case) modelResult {
	byName := map[string]*File{}
	for i := range c.Files {
		byName[c.Files[i].Name] = &c.Files[i]
	}
	res := modelResult{allowed: map[string]bool{c.Files[0].Name: true}}
	problems := map[string]bool{}
	usedAs := map[string]string{}
	visited := map[string]bool{}
	var stack []string
	var visit func(name string)
	visit = func(name string) {
		visited[name] = true
		stack = append(stack, name)
		defer func() { stack = stack[:len(stack)-1] }()
		for _, r := range byName[name].Refs {
			target, ok := resolve(name, r.Path)
			if !ok {
				problems["escape"] = true
				continue
			}
			res.allowed[target] = true
			tf, exists := byName[target]
			if !exists {
				problems["missing"] = true
				continue
			}
			if k, seen := usedAs[target]; seen && k != r.Kind {
				problems["kind-conflict"] = true
			}
			usedAs[target] = r.Kind
			if r.Kind == "import" && !tf.Lib { // an imported file may only contain declarations
				problems["import-of-non-declarations"] = true
			}
			if r.Kind != "extends" && hasExtends(tf) {
				problems["extends-in-included-file"] = true
			}
			onStack := false
			for _, s := range stack {
				if s == target {
					onStack = true
				}
			}
			if onStack {
				problems["cycle"] = true
				continue
			}
			if !visited[target] {
				visit(target)
			} else {
				// a file reached again through another path: still check for a cycle through it
				if reaches(byName, target, stack) {
					problems["cycle"] = true
				}
			}
		}
	}
	visit(c.Files[0].Name)
	var ks []string
	for k := range problems {
		ks = append(ks, k)
	}
	sort.Strings(ks)
	res.problem = strings.Join(ks, ",")
	return res
}

func hasExtends(f *File) bool {
	for _, r := range f.Refs {
		if r.Kind == "extends" {
			return true
		}
	}
	return false
}

// reaches reports whether some file on the stack is reachable from name.
func reaches(byName map[string]*File, name string, stack []string) bool {
	seen := map[string]bool{}
	var walk func(n string) bool
	walk = func(n string) bool {
		if seen[n] {
			return false
		}
		seen[n] = true
		f := byName[n]
		if f == nil {
			return false
		}
		for _, r := range f.Refs {
			t, ok := resolve(n, r.Path)
			if !ok {
				continue
			}
			for _, s := range stack {
				if s == t {
					return true
				}
			}
			if walk(t) {
				return true
			}
		}
		return false
	}
	return walk(name)
}

func judge(c Case) string {
	files := scriggo.Files{}
	for i, f := range c.Files {
		files[f.Name] = []byte(source(f, i))
	}
	rec := &recFS{files: files}
	var fsys fs.FS = rec
	if c.FormatFS {
		fsys = recFormatFS{rec}
	}
	type result struct {
		err   error
		panic any
	}
	ch := make(chan result, 1)
	go func() {
		var r result
		defer func() {
			if e := recover(); e != nil {
				r.panic = e
			}
			ch <- r
		}()
		_, r.err = scriggo.BuildTemplate(fsys, c.Files[0].Name, nil)
	}()
	var r result
	select {
	case r = <-ch:
	case <-time.After(20 * time.Second):
		return "BuildTemplate did not return within 20 s (loading does not terminate)"
	}
	if r.panic != nil {
		return fmt.Sprintf("BuildTemplate panicked: %v", r.panic)
	}
	rec.mu.Lock()
	opens := append([]string(nil), rec.opens...)
	fmts := append([]string(nil), rec.fmts...)
	rec.mu.Unlock()
	dotsStrict = true
	msg := verdict(c, files, model(c), opens, fmts, r.err)
	if msg != "" {
		dotsStrict = false
		if verdict(c, files, model(c), opens, fmts, r.err) == "" {
			msg = ""
		}
		dotsStrict = true
	}
	return msg
}

func verdict(c Case, files scriggo.Files, m modelResult, opens, fmts []string, err error) string {
	r := struct{ err error }{err}
	seen := map[string]int{}
	for _, name := range append(opens, fmts...) {
		if !fs.ValidPath(name) {
			return fmt.Sprintf("the file system was asked for the invalid path %q (opens %q)", name, opens)
		}
		if !m.allowed[name] {
			return fmt.Sprintf("the file system was asked for %q, which no reference reachable from %q resolves to (opens %q)", name, c.Files[0].Name, opens)
		}
	}
	for _, name := range opens {
		if _, exists := files[name]; !exists {
			continue // an open that fails reads nothing
		}
		seen[name]++
		if seen[name] > 1 {
			return fmt.Sprintf("file %q was opened %d times in one build (opens %q)", name, seen[name], opens)
		}
	}
	if m.problem == "" {
		if r.err != nil {
			return fmt.Sprintf("the set is valid but BuildTemplate failed: %v", r.err)
		}
		return ""
	}
	if r.err == nil {
		return fmt.Sprintf("BuildTemplate succeeded although the reference graph has a problem: %s", m.problem)
	}
	var be *scriggo.BuildError
	if !errors.As(r.err, &be) && !errors.Is(r.err, fs.ErrNotExist) {
		return fmt.Sprintf("the %s problem is reported as %T (%v), not a *BuildError / not-exist error", m.problem, r.err, r.err)
	}
	if m.problem == "cycle" && !strings.Contains(r.err.Error(), "cycle") {
		return fmt.Sprintf("a reachable cycle is reported as %q", r.err)
	}
	return ""
}

func init() {
	ev.RegisterReplay("load", func(t ev.TB, raw json.RawMessage) {
		var c Case
		if err := json.Unmarshal(raw, &c); err != nil {
			t.Fatalf("bad case: %v", err)
		}
		if msg := judge(c); msg != "" {
			t.Fatalf("%s\n files: %s", msg, describe(c))
		}
	})
}

func describe(c Case) string {
	var b strings.Builder
	for i, f := range c.Files {
		fmt.Fprintf(&b, "\n  %s: %s", f.Name, source(f, i))
	}
	return b.String()
}

// ---- generator

var dirs = []string{"", "", "a/", "a/b/", "c/", "..x/", "é/"}

func relTo(fromFile, target string) string {
	from := path.Dir(fromFile)
	if from == "." {
		return target
	}
	fp := strings.Split(from, "/")
	tp := strings.Split(target, "/")
	i := 0
	for i < len(fp) && i < len(tp)-1 && fp[i] == tp[i] {
		i++
	}
	return strings.Repeat("../", len(fp)-i) + strings.Join(tp[i:], "/")
}

func genCase(t *rapid.T) Case {
	n := rapid.IntRange(1, 6).Draw(t, "nfiles")
	c := Case{FormatFS: rapid.IntRange(0, 3).Draw(t, "formatfs") == 0}
	names := map[string]bool{}
	for i := 0; i < n; i++ {
		d := rapid.SampledFrom(dirs).Draw(t, "dir")
		name := fmt.Sprintf("%sf%d.html", d, i)
		names[name] = true
		c.Files = append(c.Files, File{Name: name, Lib: i > 0 && rapid.IntRange(0, 3).Draw(t, "lib") == 0})
	}
	for i := range c.Files {
		f := &c.Files[i]
		nr := rapid.IntRange(0, 3).Draw(t, "nrefs")
		for k := 0; k < nr; k++ {
			target := c.Files[rapid.IntRange(0, n-1).Draw(t, "target")]
			kind := "render"
			if target.Lib {
				kind = "import"
			}
			if rapid.IntRange(0, 9).Draw(t, "wrongkind") == 0 {
				kind = rapid.SampledFrom([]string{"render", "import"}).Draw(t, "kind")
			}
			var p string
			switch rapid.IntRange(0, 9).Draw(t, "form") {
			case 0, 1, 2, 3:
				p = relTo(f.Name, target.Name)
			case 4, 5, 6:
				p = "/" + target.Name
			case 7:
				p = strings.Repeat("../", 1+strings.Count(f.Name, "/")+rapid.IntRange(0, 1).Draw(t, "extraup")) + target.Name // escapes the root
			case 8:
				p = "missing.html"
			default:
				p = relTo(f.Name, target.Name)
			}
			f.Refs = append(f.Refs, Ref{Kind: kind, Path: p})
		}
		if i == 0 && n > 1 && rapid.IntRange(0, 4).Draw(t, "extends") == 0 {
			target := c.Files[rapid.IntRange(1, n-1).Draw(t, "layout")]
			f.Refs = append([]Ref{{Kind: "extends", Path: "/" + target.Name}}, f.Refs...)
		}
	}
	return c
}

func TestPropLoading(t *testing.T) {
	ev.Check(t, ev.N{Quick: 20000, Thorough: 2000000}, func(t *rapid.T) {
		c := genCase(t)
		ev.Eval()
		m := model(c)
		if m.problem == "" {
			ev.Label("valid_set")
		} else {
			ev.Label("problem_" + m.problem)
		}
		dotdot, multi := false, false
		refCount := map[string]int{}
		for _, f := range c.Files {
			for _, r := range f.Refs {
				if strings.Contains(r.Path, "..") {
					dotdot = true
				}
				if tgt, ok := resolve(f.Name, r.Path); ok {
					refCount[tgt]++
					if refCount[tgt] >= 2 {
						multi = true
					}
				}
			}
		}
		if dotdot || multi || m.problem == "cycle" {
			ev.NontrivialSample(map[string]any{"files": describe(c), "format_fs": c.FormatFS, "model": m.problem}, describe(c), fmt.Sprint(c.FormatFS))
		}
		ev.Journal("load", c)
		if msg := judge(c); msg != "" {
			ev.Fail(t, "load", c, "%s\n files: %s", msg, describe(c))
		}
	})
}

// C11 — cancelling the run context stops any execution promptly: Run returns the context's
// error whether the code computes, loops forever, blocks on channel operations or select, or
// runs in goroutines it started; code that finishes before the cancellation returns its own
// outcome.
package c11

import (
	"context"
	"encoding/json"
	"errors"
	"fmt"
	"io"
	"runtime"
	"strings"
	"testing"
	"time"

	"github.com/open2b/scriggo"
	"github.com/open2b/scriggo/native"
	"pgregory.net/rapid"

	"verif/harness/gen/goprog"
	"verif/harness/lib/ev"
	"verif/harness/lib/sg"
)

func TestMain(m *testing.M)    { ev.Main(m, "C11") }
func TestReplay(t *testing.T)  { ev.Replay(t) }
func TestRegress(t *testing.T) { ev.Regress(t) }

// Case is a program or template that does not terminate (or does, for the late-cancel
// cases) and a cancellation plan.
type Case struct {
	Kind      string `json:"kind"` // program | template
	Src       string `json:"src"`
	Blocker   string `json:"blocker"`    // name of the non-terminating construct ("" = terminating)
	Where     string `json:"where"`      // main | helper | closure | deferred | init | pkgvar | goroutine | callback
	DelayUs   int    `json:"delay_us"`   // cancellation delay after Run starts
	Deadline  bool   `json:"deadline"`   // use a deadline instead of cancel()
	PreCancel bool   `json:"pre_cancel"` // the context is already cancelled when Run starts
}

func hostPackage() native.Packages {
	return native.Packages{"host": native.Package{Name: "host", Declarations: native.Declarations{
		"Call":  func(f func()) { f() },
		"Apply": func(f func(int) int, x int) int { return f(x) },
		"Id":    func(x int) int { return x },
	}}}
}

// limit after which a Run that has not returned is declared hung.
const hangLimit = 20 * time.Second

type result struct {
	err     error
	panic   any
	latency time.Duration // from cancellation to return
	hung    bool
}

// runCancelled runs the case and cancels as planned.
func runCancelled(c Case) (res result, buildErr string) {
	var ctx context.Context
	var cancel context.CancelFunc
	delay := time.Duration(c.DelayUs) * time.Microsecond
	if c.Deadline {
		ctx, cancel = context.WithTimeout(context.Background(), delay)
	} else {
		ctx, cancel = context.WithCancel(context.Background())
	}
	defer cancel()
	if c.PreCancel {
		cancel()
	}
	var run func() error
	if c.Kind == "program" {
		var p *scriggo.Program
		var err error
		func() {
			defer func() {
				if e := recover(); e != nil {
					err = fmt.Errorf("build panic: %v", e)
				}
			}()
			p, err = scriggo.Build(scriggo.Files{"go.mod": []byte("module m\n"), "main.go": []byte(c.Src)}, &scriggo.BuildOptions{Packages: hostPackage(), AllowGoStmt: true})
		}()
		if err != nil {
			return res, err.Error()
		}
		run = func() error { return p.Run(&scriggo.RunOptions{Context: ctx, Print: func(any) {}}) }
	} else {
		t, r := sg.BuildTemplate(map[string]string{"index.html": c.Src}, "index.html", sg.Opts{Packages: hostPackage(), AllowGo: true})
		if d := r.Describe(); d != "" {
			return res, d
		}
		run = func() error { return t.Run(io.Discard, nil, &scriggo.RunOptions{Context: ctx, Print: func(any) {}}) }
	}
	type out struct {
		err   error
		panic any
		at    time.Time
	}
	ch := make(chan out, 1)
	go func() {
		var o out
		defer func() {
			if e := recover(); e != nil {
				o.panic = e
			}
			o.at = time.Now()
			ch <- o
		}()
		o.err = run()
	}()
	var cancelledAt time.Time
	if c.PreCancel {
		cancelledAt = time.Now()
	} else if c.Deadline {
		cancelledAt = time.Now().Add(delay)
	} else {
		timer := time.NewTimer(delay)
		select {
		case o := <-ch:
			timer.Stop()
			return result{err: o.err, panic: o.panic}, ""
		case <-timer.C:
		}
		cancelledAt = time.Now()
		cancel()
	}
	select {
	case o := <-ch:
		res = result{err: o.err, panic: o.panic, latency: o.at.Sub(cancelledAt)}
	case <-time.After(hangLimit):
		res.hung = true
	}
	return res, ""
}

func judge(c Case) (msg string, latency time.Duration, built bool) {
	base := runtime.NumGoroutine()
	res, berr := runCancelled(c)
	if berr != "" {
		return "", 0, false
	}
	switch {
	case res.hung:
		return fmt.Sprintf("Run has not returned %v after the cancellation", hangLimit), 0, true
	case res.panic != nil:
		return fmt.Sprintf("Run panicked: %v", res.panic), 0, true
	}
	if c.Blocker != "" {
		want := context.Canceled
		if c.Deadline {
			want = context.DeadlineExceeded
		}
		if !errors.Is(res.err, want) {
			return fmt.Sprintf("a non-terminating %s returned %v (%T), want the context's error %v", c.Kind, res.err, res.err, want), res.latency, true
		}
	} else {
		// terminating code: its own outcome, or the context's error if the cancellation won
		ref := ownOutcome(c)
		got := "<nil>"
		if res.err != nil {
			got = res.err.Error()
		}
		if got != ref && !errors.Is(res.err, context.Canceled) && !errors.Is(res.err, context.DeadlineExceeded) {
			return fmt.Sprintf("terminating code returned %q; without a context it returns %q", got, ref), res.latency, true
		}
		if c.DelayUs >= 5_000_000 && got != ref {
			return fmt.Sprintf("the code finished long before the cancellation yet Run returned %q, not its own outcome %q", got, ref), res.latency, true
		}
	}
	// the goroutines started by the code (and by Run) must be gone
	deadline := time.Now().Add(10 * time.Second)
	for runtime.NumGoroutine() > base {
		if time.Now().After(deadline) {
			return fmt.Sprintf("%d goroutine(s) started by the run are still alive 10 s after Run returned", runtime.NumGoroutine()-base), res.latency, true
		}
		time.Sleep(200 * time.Microsecond)
	}
	return "", res.latency, true
}

// ownOutcome runs terminating code without a context.
func ownOutcome(c Case) string {
	var err error
	if c.Kind == "program" {
		p, e := scriggo.Build(scriggo.Files{"go.mod": []byte("module m\n"), "main.go": []byte(c.Src)}, &scriggo.BuildOptions{Packages: hostPackage(), AllowGoStmt: true})
		if e != nil {
			return "build: " + e.Error()
		}
		err = p.Run(&scriggo.RunOptions{Print: func(any) {}})
	} else {
		t, r := sg.BuildTemplate(map[string]string{"index.html": c.Src}, "index.html", sg.Opts{Packages: hostPackage(), AllowGo: true})
		if d := r.Describe(); d != "" {
			return "build: " + d
		}
		err = t.Run(io.Discard, nil, &scriggo.RunOptions{Print: func(any) {}})
	}
	if err == nil {
		return "<nil>"
	}
	return err.Error()
}

func init() {
	ev.RegisterReplay("cancel", func(t ev.TB, raw json.RawMessage) {
		var c Case
		if err := json.Unmarshal(raw, &c); err != nil {
			t.Fatalf("bad case: %v", err)
		}
		for i := 0; i < 5; i++ {
			if msg, _, _ := judge(c); msg != "" {
				t.Fatalf("%s\n--- %s (%s in %s), cancel after %d µs\n%s", msg, c.Kind, c.Blocker, c.Where, c.DelayUs, c.Src)
			}
		}
	})
}

// ---- generator

// blockers: statements that never complete. %d are unique suffixes.
var blockers = map[string]string{
	"empty-loop":          "for {\n}\n",
	"counting-loop":       "n := 0\nfor {\n\tn++\n}\n",
	"nested-loops":        "s := 0\nfor {\n\tfor i := 0; i < 10; i++ {\n\t\ts += i\n\t}\n}\n",
	"loop-with-calls":     "s := 0\nfor i := 0; ; i++ {\n\ts += work(i)\n}\n",
	"loop-with-closure":   "s := 0\ninc := func(x int) int { return x + 1 }\nfor {\n\ts = inc(s)\n}\n",
	"recursion-in-loop":   "for {\n\t_ = rec(50)\n}\n",
	"loop-with-native":    "s := 0\nfor {\n\ts = host.Id(s) + 1\n}\n",
	"string-building":     "s := \"\"\nfor {\n\ts += \"x\"\n\tif len(s) > 100 {\n\t\ts = \"\"\n\t}\n}\n",
	"slice-append":        "var s []int\nfor {\n\ts = append(s, 1)\n\tif len(s) > 100 {\n\t\ts = s[:0]\n\t}\n}\n",
	"map-ops":             "m := map[int]int{}\nfor i := 0; ; i++ {\n\tm[i%10] = i\n}\n",
	"range-forever":       "a := []int{1, 2, 3}\nfor {\n\tfor _, v := range a {\n\t\t_ = v\n\t}\n}\n",
	"range-string":        "for {\n\tfor _, r := range \"héllo\" {\n\t\t_ = r\n\t}\n}\n",
	"receive-nil-chan":    "var ch chan int\n<-ch\n",
	"receive-unbuffered":  "ch := make(chan int)\n<-ch\n",
	"receive-ok":          "ch := make(chan int)\nv, ok := <-ch\n_, _ = v, ok\n",
	"send-unbuffered":     "ch := make(chan int)\nch <- 1\n",
	"send-full-buffer":    "ch := make(chan int, 2)\nch <- 1\nch <- 2\nch <- 3\n",
	"send-nil-chan":       "var ch chan int\nch <- 1\n",
	"select-empty":        "select {}\n",
	"select-no-ready":     "a := make(chan int)\nb := make(chan string)\nselect {\ncase v := <-a:\n\t_ = v\ncase b <- \"x\":\n}\n",
	"select-default-loop": "a := make(chan int)\nfor {\n\tselect {\n\tcase <-a:\n\tdefault:\n\t}\n}\n",
	"range-chan":          "ch := make(chan int)\nfor v := range ch {\n\t_ = v\n}\n",
	"goroutines-spin":     "for i := 0; i < 3; i++ {\n\tgo func() {\n\t\tfor {\n\t\t}\n\t}()\n}\nselect {}\n",
	"goroutine-blocked":   "ch := make(chan int)\ngo func() {\n\t<-ch\n}()\nfor {\n}\n",
	"ping-pong":           "a := make(chan int)\nb := make(chan int)\ngo func() {\n\tfor {\n\t\tv := <-a\n\t\tb <- v + 1\n\t}\n}()\nv := 0\nfor {\n\ta <- v\n\tv = <-b\n}\n",
	"producer-consumer":   "ch := make(chan int, 4)\ngo func() {\n\tfor i := 0; ; i++ {\n\t\tch <- i\n\t}\n}()\nfor v := range ch {\n\t_ = v\n}\n",
	"goroutine-chain":     "ch := make(chan int)\ngo func() {\n\tgo func() {\n\t\tfor {\n\t\t}\n\t}()\n\t<-ch\n}()\n<-ch\n",
	"callback-loop":       "host.Call(func() {\n\tfor {\n\t}\n})\n",
	"callback-blocked":    "ch := make(chan int)\nhost.Call(func() {\n\t<-ch\n})\n",
	"apply-in-loop":       "s := 0\nfor {\n\ts = host.Apply(func(x int) int { return x + 1 }, s)\n}\n",
	// finite but astronomically long: only range loops, so that everything runs inside the
	// frames the VM creates for range bodies
	"nested-range-slices": "a := make([]int, 4000)\ns := 0\nfor range a {\n\tfor range a {\n\t\tfor _, v := range a {\n\t\t\ts += v\n\t\t}\n\t}\n}\n_ = s\n",
	"nested-range-string": "str := \"\"\nfor i := 0; i < 12; i++ {\n\tstr += str + \"é\"\n}\nn := 0\nfor range str {\n\tfor range str {\n\t\tfor _, r := range str {\n\t\t\tn += int(r)\n\t\t}\n\t}\n}\n_ = n\n",
	"nested-range-map":    "m := map[int]int{}\nfor i := 0; i < 3000; i++ {\n\tm[i] = i\n}\ns := 0\nfor range m {\n\tfor range m {\n\t\tfor k, v := range m {\n\t\t\ts += k + v\n\t\t}\n\t}\n}\n_ = s\n",
	"func-value-in-loop":  "fs := []func(int) int{func(x int) int { return x + 1 }}\ns := 0\nfor {\n\ts = fs[0](s)\n}\n",
	"loop-in-func-value":  "m := map[string]func(){\"f\": func() {\n\tfor {\n\t}\n}}\nm[\"f\"]()\n",
	"func-value-iface":    "var f interface{} = func(x int) int {\n\tfor i := 0; i < 100; i++ {\n\t\tx += i\n\t}\n\treturn x\n}\ns := 0\nfor {\n\ts = f.(func(int) int)(s)\n}\n",
	"nested-range-int":    "s := 0\nfor range 4000 {\n\tfor range 4000 {\n\t\tfor i := range 4000 {\n\t\t\ts += i\n\t\t}\n\t}\n}\n_ = s\n",
}

var blockerNames = func() []string {
	var ns []string
	for n := range blockers {
		ns = append(ns, n)
	}
	// deterministic order for the generator
	for i := 1; i < len(ns); i++ {
		for j := i; j > 0 && ns[j] < ns[j-1]; j-- {
			ns[j], ns[j-1] = ns[j-1], ns[j]
		}
	}
	return ns
}()

func indent(s string, n int) string {
	pad := strings.Repeat("\t", n)
	var b strings.Builder
	for _, l := range strings.Split(strings.TrimSuffix(s, "\n"), "\n") {
		b.WriteString(pad + l + "\n")
	}
	return b.String()
}

const helpers = "func work(i int) int {\n\tif i%2 == 0 {\n\t\treturn i / 2\n\t}\n\treturn 3*i + 1\n}\n\nfunc rec(n int) int {\n\tif n == 0 {\n\t\treturn 0\n\t}\n\treturn rec(n-1) + 1\n}\n\n"

func programWith(blocker, where string) string {
	body := blockers[blocker]
	var b strings.Builder
	b.WriteString("package main\n\nimport \"host\"\n\nvar _ = host.Id\n\n" + helpers)
	switch where {
	case "helper":
		b.WriteString("func block() {\n" + indent(body, 1) + "}\n\nfunc main() {\n\tprintln(\"start\")\n\tblock()\n\tprintln(\"unreachable\")\n}\n")
	case "closure":
		b.WriteString("func main() {\n\tf := func() {\n" + indent(body, 2) + "\t}\n\tf()\n}\n")
	case "deferred":
		b.WriteString("func main() {\n\tdefer func() {\n" + indent(body, 2) + "\t}()\n\tprintln(\"start\")\n}\n")
	case "deferred-after-panic":
		b.WriteString("func main() {\n\tdefer func() {\n" + indent(body, 2) + "\t}()\n\tpanic(\"boom\")\n}\n")
	case "init":
		b.WriteString("func init() {\n" + indent(body, 1) + "}\n\nfunc main() {\n}\n")
	case "pkgvar":
		b.WriteString("var x = block()\n\nfunc block() int {\n" + indent(body, 1) + "\treturn 1\n}\n\nfunc main() {\n\tprintln(x)\n}\n")
	case "goroutine":
		b.WriteString("func main() {\n\tdone := make(chan bool)\n\tgo func() {\n" + indent(body, 2) + "\t\tdone <- true\n\t}()\n\t<-done\n}\n")
	case "callback":
		b.WriteString("func main() {\n\thost.Call(func() {\n" + indent(body, 2) + "\t})\n}\n")
	default:
		b.WriteString("func main() {\n\tprintln(\"start\")\n" + indent(body, 1) + "}\n")
	}
	return b.String()
}

var templateBlockers = map[string]string{
	"for-empty":        "{% for %}{% end %}",
	"for-text":         "{% for %}text{% end %}",
	"for-show":         "{% n := 0 %}{% for %}{{ n }}{% n++ %}{% end %}",
	"for-true":         "{% for true %}<b>x</b>{% end %}",
	"for-macro":        "{% macro M(i int) %}<i>{{ i }}</i>{% end %}{% for i := 0; ; i++ %}{{ M(i) }}{% end %}",
	"for-in-if":        "{% if true %}{% for %}{% if false %}{% break %}{% end %}{% end %}{% end %}",
	"receive":          "{% ch := make(chan int) %}{{ <-ch }}",
	"send":             "{% ch := make(chan int) %}{% ch <- 1 %}",
	"select":           "{% a := make(chan int) %}{% select %}{% case <-a %}a{% end %}",
	"range-chan":       "{% ch := make(chan int) %}{% for v in ch %}{{ v }}{% end %}",
	"goroutine-spin":   "{% go func() { for { } }() %}{% ch := make(chan int) %}{{ <-ch }}",
	"closure-loop":     "{% f := func() { for { } } %}{% f() %}",
	"callback-loop":    "{% import \"host\" %}{% host.Call(func() { for { } }) %}",
	"script-context":   "<script>var a = [{% for %}{{ 1 }},{% end %}];</script>",
	"attribute":        "<a href=\"{% for %}x{% end %}\">",
	"macro-recursion":  "{% macro R(n int) %}{% for %}{% if n < 0 %}{% break %}{% end %}{% end %}{% end %}{{ R(1) }}",
	"nested-for-in":    "{% a := make([]int, 4000) %}{% for x in a %}{% for y in a %}{% for z in a %}{% if x+y+z > 0 %}.{% end %}{% end %}{% end %}{% end %}",
}

var templateBlockerNames = func() []string {
	var ns []string
	for n := range templateBlockers {
		ns = append(ns, n)
	}
	for i := 1; i < len(ns); i++ {
		for j := i; j > 0 && ns[j] < ns[j-1]; j-- {
			ns[j], ns[j-1] = ns[j-1], ns[j]
		}
	}
	return ns
}()

func genCase(t *rapid.T) Case {
	var c Case
	switch rapid.IntRange(0, 9).Draw(t, "class") {
	case 0, 1:
		// terminating program, cancelled early, late or never
		p := goprog.Gen(t, goprog.Off{})
		c = Case{Kind: "program", Src: p.Src}
		c.DelayUs = rapid.SampledFrom([]int{0, 1, 50, 500, 5_000, 5_000_000}).Draw(t, "delay")
	case 2, 3, 4:
		c = Case{Kind: "template", Blocker: rapid.SampledFrom(templateBlockerNames).Draw(t, "tblocker"), Where: "template"}
		prefix := rapid.SampledFrom([]string{"", "<p>before</p>", "{% x := 5 %}{{ x }}", "{% for i := 0; i < 50; i++ %}{{ i }}{% end %}"}).Draw(t, "tprefix")
		c.Src = prefix + templateBlockers[c.Blocker]
		if strings.Contains(c.Src, "{% import") {
			c.Src = "{% import \"host\" %}" + strings.ReplaceAll(c.Src, "{% import \"host\" %}", "")
		}
	default:
		c = Case{Kind: "program", Blocker: rapid.SampledFrom(blockerNames).Draw(t, "blocker")}
		c.Where = rapid.SampledFrom([]string{"main", "main", "helper", "closure", "deferred", "deferred-after-panic", "init", "pkgvar", "goroutine", "callback"}).Draw(t, "where")
		c.Src = programWith(c.Blocker, c.Where)
	}
	if c.Blocker != "" {
		c.DelayUs = rapid.SampledFrom([]int{0, 1, 10, 100, 300, 1000, 3000, 10000, 20000}).Draw(t, "delay")
		c.PreCancel = rapid.IntRange(0, 9).Draw(t, "pre") == 0
	}
	c.Deadline = !c.PreCancel && rapid.IntRange(0, 3).Draw(t, "deadline") == 0
	return c
}

func TestPropCancel(t *testing.T) {
	ev.Check(t, ev.N{Quick: 1600, Thorough: 60000}, func(t *rapid.T) {
		c := genCase(t)
		ev.Eval()
		ev.Journal("cancel", c)
		msg, latency, built := judge(c)
		if !built {
			ev.Excluded("does_not_build")
			ev.Note("does not build: %s in %s", c.Blocker, c.Where)
			return
		}
		if c.Blocker != "" {
			ev.Label("blocker_" + c.Kind + "_" + c.Blocker)
			ev.Label("where_" + c.Where)
			ev.NontrivialSample(map[string]any{"kind": c.Kind, "blocker": c.Blocker, "where": c.Where, "delay_us": c.DelayUs, "deadline": c.Deadline, "latency_us": latency.Microseconds()}, c.Src, fmt.Sprint(c.DelayUs), fmt.Sprint(c.Deadline))
		} else {
			ev.Label("terminating_program")
		}
		switch {
		case latency > time.Second:
			ev.Label("latency_over_1s")
		case latency > 100*time.Millisecond:
			ev.Label("latency_100ms_1s")
		case latency > 10*time.Millisecond:
			ev.Label("latency_10ms_100ms")
		default:
			ev.Label("latency_under_10ms")
		}
		if msg != "" {
			ev.Fail(t, "cancel", c, "%s\n--- %s (%s in %s), cancel after %d µs\n%s", msg, c.Kind, c.Blocker, c.Where, c.DelayUs, c.Src)
		}
	})
}

package c03

import (
	"fmt"
	"strings"
	"testing"

	"pgregory.net/rapid"

	"verif/harness/lib/ev"
)

// The "missing return" rule: a function with results must end in a terminating statement
// (Go specification, "Terminating statements"). The generator builds statement trees whose
// termination depends on labels, on breaks buried in nested statements, on default clauses
// and on else branches; go/types decides, Build must agree.

type termGen struct {
	t      *rapid.T
	labels int
}

func (g *termGen) n(label string, lo, hi int) int { return rapid.IntRange(lo, hi).Draw(g.t, label) }

func indentLines(s string) string {
	var b strings.Builder
	for _, l := range strings.Split(strings.TrimSuffix(s, "\n"), "\n") {
		b.WriteString("\t" + l + "\n")
	}
	return b.String()
}

// breaks returns a statement that may break out of the enclosing statement or of the
// statement labelled target (if not ""), buried in k levels of nesting.
func (g *termGen) breaks(target string, depth int) string {
	brk := "break"
	if target != "" && g.n("labelled", 0, 1) == 0 {
		brk = "break " + target
	}
	switch g.n("bury", 0, 6) {
	case 0:
		return "if x > 3 {\n\t" + brk + "\n}\n"
	case 1:
		// inside a nested for: an unlabelled break ends the inner loop only
		return "for i := 0; i < 2; i++ {\n\tif i == x {\n\t\t" + brk + "\n\t}\n}\n"
	case 2:
		return "switch x {\ncase 1:\n\t" + brk + "\ndefault:\n\tx++\n}\n"
	case 3:
		return "select {\ncase <-ch:\n\t" + brk + "\ndefault:\n}\n"
	case 4:
		return "{\n\tif x == 0 {\n\t\t" + brk + "\n\t}\n}\n"
	case 5:
		return "x++\n"
	default:
		return "if x > 100 {\n\treturn 0\n}\n"
	}
}

// term returns a statement that is a candidate terminating statement.
func (g *termGen) term(depth int) string {
	if depth <= 0 {
		return g.leaf()
	}
	switch g.n("termkind", 0, 11) {
	case 0:
		return g.leaf()
	case 1, 2:
		// for without condition, possibly labelled, with something in the body
		label := ""
		if g.n("label", 0, 1) == 0 {
			g.labels++
			label = fmt.Sprintf("L%d", g.labels)
		}
		body := g.breaks(label, depth-1)
		if g.n("second", 0, 2) == 0 {
			body += g.breaks(label, depth-1)
		}
		s := "for {\n" + indentLines(body) + "}\n"
		if label != "" {
			s = label + ":\n" + s
		}
		return s
	case 3:
		return "for x < 10 {\n\tx++\n}\n"
	case 4:
		return "if x > 0 {\n" + indentLines(g.term(depth-1)) + "} else {\n" + indentLines(g.term(depth-1)) + "}\n"
	case 5:
		return "if x > 0 {\n" + indentLines(g.term(depth-1)) + "}\n"
	case 6:
		s := "switch x {\ncase 1:\n" + indentLines(g.term(depth-1)) + "case 2:\n" + indentLines(g.term(depth-1))
		if g.n("default", 0, 2) > 0 {
			s += "default:\n" + indentLines(g.term(depth-1))
		}
		return s + "}\n"
	case 7:
		label := ""
		if g.n("slabel", 0, 1) == 0 {
			g.labels++
			label = fmt.Sprintf("L%d", g.labels)
		}
		s := "switch {\ncase x > 1:\n" + indentLines(g.breaks(label, depth-1)+g.term(depth-1)) + "default:\n" + indentLines(g.term(depth-1)) + "}\n"
		if label != "" {
			s = label + ":\n" + s
		}
		return s
	case 8:
		return "select {\ncase v := <-ch:\n\t_ = v\n" + indentLines(g.term(depth-1)) + "case ch <- 1:\n" + indentLines(g.term(depth-1)) + "}\n"
	case 9:
		return "select {}\n"
	case 10:
		return "{\n" + indentLines(g.term(depth-1)) + "}\n"
	default:
		return "switch x {\ncase 1:\n\tx++\n\tfallthrough\ndefault:\n" + indentLines(g.term(depth-1)) + "}\n"
	}
}

func (g *termGen) leaf() string {
	switch g.n("leaf", 0, 5) {
	case 0, 1:
		return "return x\n"
	case 2:
		return "panic(\"p\")\n"
	case 3:
		return "x++\n"
	case 4:
		return "for {\n}\n"
	default:
		return "_ = x\n"
	}
}

func TestPropTerminating(t *testing.T) {
	ev.Check(t, ev.N{Quick: 3000, Thorough: 300000}, func(t *rapid.T) {
		g := &termGen{t: t}
		body := g.term(rapid.IntRange(1, 3).Draw(t, "depth"))
		src := "package main\n\nfunc f(x int, ch chan int) int {\n\tx++\n" + indentLines(body) + "}\n\nfunc main() {\n\t_ = f\n}\n"
		c := Case{Src: src, Mutation: "terminating-statement"}
		ev.Eval()
		ref := goTypes(c.Src)
		if strings.HasPrefix(ref, "PARSE") {
			ev.Excluded("generated_function_does_not_parse")
			return
		}
		switch {
		case ref == "":
			ev.Label("terminating_accepted_by_go")
		case strings.Contains(ref, "missing return"):
			ev.Label("terminating_missing_return")
		default:
			ev.Label("terminating_other_error")
			ev.Note("terminating generator: other go/types error: %s", ref)
		}
		ev.NontrivialSample(map[string]string{"mutation": "terminating-statement", "go_types": ref, "function": body}, src)
		if msg := judge(c); msg != "" {
			ev.Fail(t, "typecheck", c, "%s\n--- program:\n%s", msg, c.Src)
		}
	})
}

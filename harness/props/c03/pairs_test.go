package c03

import (
	"fmt"
	"strings"
	"testing"

	"verif/harness/lib/ev"
)

// Typed operands for the pair matrix: unnamed and defined variants of the same underlying types,
// so that every rule that distinguishes type identity from kind (copy from a string, append of a
// string, assignability, comparison, conversion) is exercised with both.
var pairOperands = []string{
	`[]byte{1}`, `[]uint8{1}`, `[]B{1}`, `BS{1}`, `[]int8{1}`, `"s"`, `MS("s")`, `sv`, `[]rune{1}`, `[]R{1}`, `[]int32{1}`, `[]int{1}`, `[]MI{1}`, `IS{1}`,
	`[3]byte{}`, `ab[:]`, `&ab`, `[]interface{}{1}`, `[]string{"a"}`, `[]MS{"a"}`, `map[string]int{}`, `MM{}`, `B(1)`, `byte(1)`, `R(1)`, `'a'`, `MI(1)`, `1`, `nil`,
	`make(chan int)`, `CI(nil)`, `(<-chan int)(nil)`, `(chan<- int)(nil)`, `func() {}`, `F(nil)`, `P{}`, `struct{ x int }{}`, `&P{}`, `(*struct{ x int })(nil)`, `interface{}(1)`, `error(nil)`,
}

// Positions taking two operands.
var pairContexts = []string{
	"_ = copy(%s, %s)", "_ = append(%s, %s...)", "_ = append(%s, %s)", "x := %s; x = %s; _ = x", "_ = %s == %s", "_ = %s != %s", "x := %s; _ = x; y := %s; _ = y; x, y = y, x",
	"x := %s; f := func() (_ interface{}) { return %s }; _, _ = x, f", "x := %s; x += %s; _ = x", "_ = map[interface{}]int{%s: 1, %s: 2}", "x := %s; switch x { case %s: }; _ = x",
	"x := %s; ch := make(chan interface{}, 1); ch <- %s; _ = x", "x := %s; for x = range %s {}; _ = x", "x := %s; p := &x; *p = %s", "x := []interface{}{%s}; x[0] = %s",
	"var x struct{ f interface{} }; _ = %s; x.f = %s", "delete(%s, %s)", "_ = %s[%s]", "_ = complex(%s, %s)", "_ = %s + %s", "_ = %s << %s", "_ = %s && %s", "_ = %s < %s",
}

const pairPrelude = "package main\n\ntype B byte\ntype BS []byte\ntype MS string\ntype R rune\ntype MI int\ntype IS []int\ntype MM map[string]int\ntype CI chan int\ntype F func()\ntype P struct{ x int }\n\nvar sv = \"v\"\nvar ab [3]byte\n\nfunc main() {\n\t_, _ = sv, ab\n\t"

// TestExhTypedPairs: every ordered pair of typed operands in every two-operand position, judged by
// go/types like every other C03 case. (seeded/C03-b: copy from a string into a slice of a defined
// byte type was accepted.)
func TestExhTypedPairs(t *testing.T) {
	shard, shards := ev.Shard()
	n := 0
	for ci, ctx := range pairContexts {
		for ai, a := range pairOperands {
			for bi, b := range pairOperands {
				n++
				if n%shards != shard {
					continue
				}
				stmt := strings.Replace(strings.Replace(ctx, "%s", a, 1), "%s", b, 1)
				c := Case{Src: pairPrelude + stmt + "\n}\n", Mutation: fmt.Sprintf("pairs ctx %d a %d b %d", ci, ai, bi)}
				ev.Eval()
				ref := safeGoTypes(c.Src)
				if strings.HasPrefix(ref, "PARSE") {
					ev.Excluded("pairs_does_not_parse")
					continue
				}
				if ref == "GOTYPES-PANIC" {
					// the reference itself fails an internal assertion (go/types builtins.go) on a few pairs
					ev.Excluded("gotypes_internal_assertion")
					continue
				}
				if ref == "" && ci == 0 && a == "nil" {
					// go/types of Go 1.25 takes copy's byte-string special case whenever the destination is
					// assignable to []byte, which includes the untyped nil; older checkers (and the pinned
					// language version's specification) reject it. Outside the domain, counted.
					ev.Excluded("gotypes_copy_untyped_nil_destination")
					continue
				}
				ev.Label("typed_pairs")
				if ref != "" {
					ev.NontrivialSample(map[string]string{"stmt": stmt, "go_types": ref}, ctx, a, b)
				}
				if msg := judge(c); msg != "" {
					if id := classify(c, msg); id != "" && ev.Known(id) {
						continue
					}
					ev.Fail(t, "typecheck", c, "%s\n--- statement: %s", msg, stmt)
				}
			}
		}
	}
	ev.Exhaustive()
}

// safeGoTypes is goTypes with the reference's own internal assertion failures turned into a verdict
// of "no reference" (excluded and counted by the caller).
func safeGoTypes(src string) (ref string) {
	defer func() {
		if recover() != nil {
			ref = "GOTYPES-PANIC"
		}
	}()
	return goTypes(src)
}

// C03 — Build accepts a program exactly when the Go type checker does.
package c03

import (
	"encoding/json"
	"fmt"
	"go/ast"
	"go/parser"
	"go/token"
	"go/types"
	"regexp"
	"strings"
	"testing"

	"github.com/open2b/scriggo"
	"pgregory.net/rapid"

	"verif/harness/gen/gomut"
	"verif/harness/gen/goprog"
	"verif/harness/lib/ev"
	"verif/harness/lib/sg"
)

func TestMain(m *testing.M)    { ev.Main(m, "C03") }
func TestReplay(t *testing.T)  { ev.Replay(t) }
func TestRegress(t *testing.T) { ev.Regress(t) }

type Case struct {
	Src      string `json:"src"`
	Mutation string `json:"mutation"`
}

// goTypes type-checks the source: "" if accepted, else the first error; parse errors are reported with a PARSE prefix.
func goTypes(src string) string {
	fset := token.NewFileSet()
	f, err := parser.ParseFile(fset, "main.go", src, 0)
	if err != nil {
		return "PARSE: " + err.Error()
	}
	var first error
	conf := types.Config{GoVersion: "go1.21", Error: func(e error) {
		if first == nil {
			first = e
		}
	}}
	conf.Check("main", fset, []*ast.File{f}, nil)
	if first != nil {
		return first.Error()
	}
	return ""
}

var lastGo string

func judge(c Case) string {
	ref := goTypes(c.Src)
	lastGo = ref
	p, res := sg.BuildProgram(c.Src, sg.Opts{AllowGo: true}) // the go statement is part of the subset when the option allows it
	_ = p
	if res.BuildPanic != nil {
		return fmt.Sprintf("Build panicked (%v); go/types says: %q", res.BuildPanic, ref)
	}
	if ref != "" {
		if res.BuildErr == nil {
			return fmt.Sprintf("Build accepts a program the Go type checker rejects: %s", ref)
		}
		if _, ok := res.BuildErr.(*scriggo.BuildError); !ok {
			return fmt.Sprintf("rejection is a %T (%v), not a *BuildError", res.BuildErr, res.BuildErr)
		}
		return ""
	}
	if res.BuildErr != nil {
		if strings.Contains(res.BuildErr.Error(), "shift count type") && strings.Contains(res.BuildErr.Error(), "must be integer") {
			// a defect of the reference: go/types accepts x << string(0) (a shift count that is not
			// an integer) and gc then stops with "internal compiler error: assertion failed"
			ev.Excluded("reference_accepts_non_integer_shift_count")
			return ""
		}
		if strings.Contains(res.BuildErr.Error(), "larger than address space") {
			// go/types has no notion of sizes: it accepts [9223372036854775807]int, which gc rejects
			// ("larger than address space") as Scriggo does
			ev.Excluded("reference_has_no_size_limit")
			return ""
		}
		return fmt.Sprintf("Build rejects a program the Go type checker accepts: %v", res.BuildErr)
	}
	return ""
}

func init() {
	ev.RegisterReplay("typecheck", func(t ev.TB, raw json.RawMessage) {
		var c Case
		if err := json.Unmarshal(raw, &c); err != nil {
			t.Fatalf("bad case: %v", err)
		}
		if msg := judge(c); msg != "" {
			t.Fatalf("%s\n--- mutation: %s\n--- program:\n%s", msg, c.Mutation, c.Src)
		}
	})
}

var switchOf = map[string]string{
	"C03-float-division-by-constant-zero": "float.div_const_zero",
}

func offSwitches() goprog.Off {
	off := goprog.Off{}
	for id, sw := range switchOf {
		if ev.IsKnown(id) {
			off[sw] = true
		}
	}
	return off
}

func classify(c Case, msg string) string {
	if strings.HasPrefix(msg, "Build accepts") && (strings.Contains(msg, "out of bounds") || strings.Contains(msg, "out of range")) && strings.Contains(msg, "index") {
		return "C03-constant-index-equal-to-array-length"
	}
	if strings.HasPrefix(msg, "Build accepts") && strings.HasSuffix(strings.TrimSpace(strings.SplitN(msg, "\n", 2)[0]), "is not a type") {
		return "C03-predeclared-type-shadowed-at-package-level"
	}
	if strings.Contains(msg, "Build rejects") && strings.HasSuffix(strings.TrimSpace(msg), "division by zero") && regexp.MustCompile(`/ \(*float(32|64)\(0\)`).MatchString(c.Src) {
		return "C03-float-division-by-constant-zero"
	}
	return ""
}

func TestPropTypecheck(t *testing.T) {
	off := offSwitches()
	ev.Check(t, ev.N{Quick: 6000, Thorough: 600000}, func(t *rapid.T) {
		p := goprog.Gen(t, off)
		src, name := gomut.Mutate(t, p.Src)
		c := Case{Src: src, Mutation: name}
		ev.Eval()
		ev.Label("mutation_" + name)
		ref := goTypes(c.Src)
		if strings.HasPrefix(ref, "PARSE") {
			ev.Excluded("mutant_does_not_parse")
			return
		}
		if ref != "" && name != "none" {
			ev.Label("ill_typed_mutant")
			kind := ref
			if i := strings.LastIndex(ref, ": "); i >= 0 {
				kind = ref[i+2:]
			}
			kind = regexp.MustCompile(`[0-9]+|"[^"]*"|\b[vfp][0-9_]+\b`).ReplaceAllString(kind, "#")
			ev.NontrivialSample(map[string]string{"mutation": name, "go_types": ref}, name, kind, fmt.Sprint(ev.Hash64(c.Src)%64))
		}
		if msg := judge(c); msg != "" {
			if id := classify(c, msg); id != "" && ev.Known(id) {
				return
			}
			ev.Fail(t, "typecheck", c, "%s\n--- mutation: %s\n--- program:\n%s", msg, name, c.Src)
		}
	})
}

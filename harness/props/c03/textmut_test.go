package c03

import (
	"fmt"
	"go/scanner"
	"go/token"
	"strings"
	"testing"

	"pgregory.net/rapid"

	"verif/harness/gen/goprog"
	"verif/harness/lib/ev"
)

type tok struct {
	off, end int
	lit      string
}

// tokens returns the tokens of src with their byte offsets (automatically inserted semicolons
// excluded).
func tokens(src string) []tok {
	var s scanner.Scanner
	fset := token.NewFileSet()
	f := fset.AddFile("main.go", fset.Base(), len(src))
	s.Init(f, []byte(src), nil, 0)
	var ts []tok
	for {
		pos, t, lit := s.Scan()
		if t == token.EOF {
			break
		}
		if t == token.SEMICOLON && lit == "\n" {
			continue
		}
		text := lit
		if text == "" {
			text = t.String()
		}
		off := f.Offset(pos)
		ts = append(ts, tok{off, off + len(text), text})
	}
	return ts
}

// TestPropTokenMutants: one token-level edit of a generated program (delete a token, delete a
// short run of tokens, duplicate a token, swap two adjacent tokens, replace a token by another
// token of the same program). Most mutants do not parse and are skipped; those that parse are
// judged like every other program of this property: accepted exactly when go/types accepts.
// (The type-level mutation operators of gen/gomut keep the statement structure; these edits
// break it: a value too many, an operand missing, a statement merged with the next.)
func TestPropTokenMutants(t *testing.T) {
	off := offSwitches()
	ev.Check(t, ev.N{Quick: 4000, Thorough: 400000}, func(t *rapid.T) {
		p := goprog.Gen(t, off)
		ts := tokens(p.Src)
		if len(ts) < 10 {
			return
		}
		i := rapid.IntRange(2, len(ts)-2).Draw(t, "tok") // not the package clause
		var src, name string
		switch rapid.IntRange(0, 5).Draw(t, "edit") {
		case 0:
			src, name = p.Src[:ts[i].off]+p.Src[ts[i].end:], "delete-token"
		case 1:
			n := rapid.IntRange(2, 4).Draw(t, "run")
			j := i + n
			if j >= len(ts) {
				j = len(ts) - 1
			}
			src, name = p.Src[:ts[i].off]+p.Src[ts[j].off:], "delete-run"
		case 2:
			src, name = p.Src[:ts[i].end]+" "+ts[i].lit+p.Src[ts[i].end:], "duplicate-token"
		case 3:
			src, name = p.Src[:ts[i].off]+ts[i+1].lit+" "+ts[i].lit+p.Src[ts[i+1].end:], "swap-tokens"
		default:
			k := rapid.IntRange(0, len(ts)-1).Draw(t, "other")
			src, name = p.Src[:ts[i].off]+ts[k].lit+p.Src[ts[i].end:], "replace-token"
		}
		c := Case{Src: src, Mutation: name + " @" + fmt.Sprint(i)}
		ev.Eval()
		ref := goTypes(c.Src)
		if strings.HasPrefix(ref, "PARSE") {
			ev.Excluded("token_mutant_does_not_parse")
			return
		}
		if !strings.Contains(c.Src, "func main() {") {
			ev.Excluded("token_mutant_without_main") // go/types accepts a package without main, a program needs one
			return
		}
		ev.Label("token_mutant_" + name)
		if ref != "" {
			ev.Label("ill_typed_token_mutant")
			kind := ref
			if k := strings.LastIndex(ref, ": "); k >= 0 {
				kind = ref[k+2:]
			}
			ev.NontrivialSample(map[string]string{"mutation": name, "go_types": ref}, name, kind[:min(len(kind), 40)], fmt.Sprint(ev.Hash64(c.Src)%64))
		}
		if msg := judge(c); msg != "" {
			if id := classify(c, msg); id != "" && ev.Known(id) {
				return
			}
			ev.Fail(t, "typecheck", c, "%s\n--- mutation: %s\n--- program:\n%s", msg, c.Mutation, c.Src)
		}
	})
}

package c03

import (
	"fmt"
	"strings"
	"testing"

	"verif/harness/gen/oddops"
	"verif/harness/lib/ev"
)

// TestExhOddOperands: every operand sort of gen/oddops in every expression position (mostly
// ill-typed programs). The judge is the one of the property: accepted exactly when go/types
// accepts, a rejection is a *BuildError, and the build does not panic. Programs that go/types
// accepts only with a Go version newer than the subset (range over an integer or a function,
// min/max/clear) are outside the domain.
func TestExhOddOperands(t *testing.T) {
	shard, shards := ev.Shard()
	n := 0
	for ci, ctx := range oddops.Contexts {
		for oi, op := range oddops.Operands {
			n++
			if n%shards != shard {
				continue
			}
			c := Case{Src: oddops.Program(ctx, op), Mutation: fmt.Sprintf("oddops ctx %d op %d", ci, oi)}
			ev.Eval()
			ref := goTypes(c.Src)
			if strings.HasPrefix(ref, "PARSE") {
				ev.Excluded("oddops_does_not_parse")
				continue
			}
			if ref == "" && newerGo(c.Src) {
				ev.Excluded("oddops_needs_newer_go")
				continue
			}
			ev.Label("oddops")
			if ref != "" {
				ev.NontrivialSample(map[string]string{"stmt": strings.ReplaceAll(ctx, "%s", op), "go_types": ref}, ctx, op)
			}
			if msg := judge(c); msg != "" {
				if id := classifyOdd(c, msg); id != "" && ev.Known(id) {
					continue
				}
				ev.Fail(t, "typecheck", c, "%s\n--- statement: %s", msg, strings.ReplaceAll(ctx, "%s", op))
			}
		}
	}
	ev.Exhaustive()
}

// newerGo reports whether go/types accepts src only because of a language version after the
// subset: it is re-checked with go1.21 by goTypes already, so only range-over-int remains.
func newerGo(src string) bool { return false }

func classifyOdd(c Case, msg string) string { return classify(c, msg) }

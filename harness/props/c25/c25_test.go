// C25 — builtin functions honour their documentation and never panic instead
// of returning an error.
package c25

import (
	"bytes"
	"crypto/hmac"
	"crypto/md5"
	"crypto/sha1"
	"crypto/sha256"
	"encoding/base64"
	"encoding/hex"
	"encoding/json"
	"fmt"
	"math"
	"net/url"
	"reflect"
	"regexp"
	"sort"
	"strconv"
	"strings"
	"testing"
	"time"
	"unicode"
	"unicode/utf8"

	"github.com/open2b/scriggo/builtin"
	"github.com/open2b/scriggo/native"
	"pgregory.net/rapid"

	"verif/harness/lib/ev"
)

func TestMain(m *testing.M)    { ev.Main(m, "C25") }
func TestReplay(t *testing.T)  { ev.Replay(t) }
func TestRegress(t *testing.T) { ev.Regress(t) }

// Case is one call: function name, string arguments (as bytes, they may be
// invalid UTF-8), integer and float arguments.
type Case struct {
	Fn string    `json:"fn"`
	B  [][]byte  `json:"b,omitempty"`
	I  []int     `json:"i,omitempty"`
	F  []float64 `json:"f,omitempty"`
	// human-readable rendering of B (not used by replay)
	Show []string `json:"show,omitempty"`
}

func (c Case) s(i int) string {
	if i < len(c.B) {
		return string(c.B[i])
	}
	return ""
}
func (c Case) n(i int) int {
	if i < len(c.I) {
		return c.I[i]
	}
	return 0
}
func (c Case) f(i int) float64 {
	if i < len(c.F) {
		return c.F[i]
	}
	return 0
}

func mkCase(fn string, ss []string, is []int, fs []float64) Case {
	c := Case{Fn: fn, I: is, F: fs}
	for _, s := range ss {
		c.B = append(c.B, []byte(s))
		c.Show = append(c.Show, strconv.QuoteToASCII(s))
	}
	return c
}

// call runs f and reports a panic as (true, value).
func call(f func()) (panicked bool, val any) {
	defer func() {
		if e := recover(); e != nil {
			panicked, val = true, e
		}
	}()
	f()
	return
}

const asciiSpaces = " \n\r\t\f"

func simpleCase(s string) bool {
	for _, r := range s {
		if unicode.IsUpper(r) && !unicode.IsLower(unicode.ToLower(r)) {
			return false
		}
		if unicode.IsTitle(r) {
			return false
		}
	}
	return true
}

func isSeparator(r rune) bool {
	if r <= 0x7F {
		switch {
		case '0' <= r && r <= '9', 'a' <= r && r <= 'z', 'A' <= r && r <= 'Z', r == '_':
			return false
		}
		return true
	}
	if unicode.IsLetter(r) || unicode.IsDigit(r) {
		return false
	}
	return unicode.IsSpace(r)
}

type target struct {
	A int               `json:"a"`
	B string            `json:"b"`
	C []int             `json:"c"`
	D map[string]string `json:"d"`
	E *target           `json:"e"`
}

// judge returns "" when the documented behaviour holds.
func judge(c Case) (msg string) {
	defer func() {
		if e := recover(); e != nil {
			msg = fmt.Sprintf("%s panicked: %v", c.Fn, e)
		}
	}()
	eqs := func(got, want any) string {
		if !reflect.DeepEqual(got, want) {
			return fmt.Sprintf("%s%v = %#v, want %#v", c.Fn, c.Show, got, want)
		}
		return ""
	}
	switch c.Fn {
	// ---- thin wrappers of the standard library
	case "Index":
		return eqs(builtin.Index(c.s(0), c.s(1)), strings.Index(c.s(0), c.s(1)))
	case "IndexAny":
		return eqs(builtin.IndexAny(c.s(0), c.s(1)), strings.IndexAny(c.s(0), c.s(1)))
	case "LastIndex":
		return eqs(builtin.LastIndex(c.s(0), c.s(1)), strings.LastIndex(c.s(0), c.s(1)))
	case "HasPrefix":
		return eqs(builtin.HasPrefix(c.s(0), c.s(1)), strings.HasPrefix(c.s(0), c.s(1)))
	case "HasSuffix":
		return eqs(builtin.HasSuffix(c.s(0), c.s(1)), strings.HasSuffix(c.s(0), c.s(1)))
	case "Join":
		el := strings.Split(c.s(0), ",")
		return eqs(builtin.Join(el, c.s(1)), strings.Join(el, c.s(1)))
	case "Replace":
		return eqs(builtin.Replace(c.s(0), c.s(1), c.s(2), c.n(0)), strings.Replace(c.s(0), c.s(1), c.s(2), c.n(0)))
	case "ReplaceAll":
		return eqs(builtin.ReplaceAll(c.s(0), c.s(1), c.s(2)), strings.ReplaceAll(c.s(0), c.s(1), c.s(2)))
	case "RuneCount":
		return eqs(builtin.RuneCount(c.s(0)), utf8.RuneCountInString(c.s(0)))
	case "Split":
		return eqs(builtin.Split(c.s(0), c.s(1)), strings.Split(c.s(0), c.s(1)))
	case "SplitAfter":
		return eqs(builtin.SplitAfter(c.s(0), c.s(1)), strings.SplitAfter(c.s(0), c.s(1)))
	case "SplitN":
		return eqs(builtin.SplitN(c.s(0), c.s(1), c.n(0)), strings.SplitN(c.s(0), c.s(1), c.n(0)))
	case "SplitAfterN":
		return eqs(builtin.SplitAfterN(c.s(0), c.s(1), c.n(0)), strings.SplitAfterN(c.s(0), c.s(1), c.n(0)))
	case "Trim":
		return eqs(builtin.Trim(c.s(0), c.s(1)), strings.Trim(c.s(0), c.s(1)))
	case "TrimLeft":
		return eqs(builtin.TrimLeft(c.s(0), c.s(1)), strings.TrimLeft(c.s(0), c.s(1)))
	case "TrimRight":
		return eqs(builtin.TrimRight(c.s(0), c.s(1)), strings.TrimRight(c.s(0), c.s(1)))
	case "TrimPrefix":
		return eqs(builtin.TrimPrefix(c.s(0), c.s(1)), strings.TrimPrefix(c.s(0), c.s(1)))
	case "TrimSuffix":
		return eqs(builtin.TrimSuffix(c.s(0), c.s(1)), strings.TrimSuffix(c.s(0), c.s(1)))
	case "ToLower":
		return eqs(builtin.ToLower(c.s(0)), strings.ToLower(c.s(0)))
	case "ToUpper":
		return eqs(builtin.ToUpper(c.s(0)), strings.ToUpper(c.s(0)))
	case "Base64":
		return eqs(builtin.Base64(c.s(0)), base64.StdEncoding.EncodeToString([]byte(c.s(0))))
	case "Hex":
		return eqs(builtin.Hex(c.s(0)), hex.EncodeToString([]byte(c.s(0))))
	case "Md5":
		h := md5.Sum([]byte(c.s(0)))
		return eqs(builtin.Md5(c.s(0)), hex.EncodeToString(h[:]))
	case "Sha1":
		h := sha1.Sum([]byte(c.s(0)))
		return eqs(builtin.Sha1(c.s(0)), hex.EncodeToString(h[:]))
	case "Sha256":
		h := sha256.Sum256([]byte(c.s(0)))
		return eqs(builtin.Sha256(c.s(0)), hex.EncodeToString(h[:]))
	case "HmacSHA1":
		m := hmac.New(sha1.New, []byte(c.s(1)))
		m.Write([]byte(c.s(0)))
		return eqs(builtin.HmacSHA1(c.s(0), c.s(1)), base64.StdEncoding.EncodeToString(m.Sum(nil)))
	case "HmacSHA256":
		m := hmac.New(sha256.New, []byte(c.s(1)))
		m.Write([]byte(c.s(0)))
		return eqs(builtin.HmacSHA256(c.s(0), c.s(1)), base64.StdEncoding.EncodeToString(m.Sum(nil)))
	case "Sprint":
		return eqs(builtin.Sprint(c.s(0), c.n(0), c.f(0)), fmt.Sprint(c.s(0), c.n(0), c.f(0)))
	case "Sprintf":
		return eqs(builtin.Sprintf(c.s(0), c.s(1), c.n(0)), fmt.Sprintf(c.s(0), c.s(1), c.n(0)))
	case "Pow":
		g, w := builtin.Pow(c.f(0), c.f(1)), math.Pow(c.f(0), c.f(1))
		if g != w && !(math.IsNaN(g) && math.IsNaN(w)) {
			return fmt.Sprintf("Pow(%v,%v) = %v, want %v", c.f(0), c.f(1), g, w)
		}
	case "Abs":
		x := c.n(0)
		w := x
		if x < 0 {
			w = -x
		}
		return eqs(builtin.Abs(x), w)
	case "Max":
		return eqs(builtin.Max(c.n(0), c.n(1)), max(c.n(0), c.n(1)))
	case "Min":
		return eqs(builtin.Min(c.n(0), c.n(1)), min(c.n(0), c.n(1)))
	case "FormatInt":
		base := c.n(1)
		var got string
		p, v := call(func() { got = builtin.FormatInt(c.n(0), base) })
		if base < 2 || base > 36 {
			if !p {
				return fmt.Sprintf("FormatInt(%d,%d) did not panic for an invalid base", c.n(0), base)
			}
			if s, ok := v.(string); !ok || !strings.HasPrefix(s, "formatInt: invalid base") {
				return fmt.Sprintf("FormatInt(%d,%d) panicked with %v, not the documented base panic", c.n(0), base, v)
			}
			return ""
		}
		if p {
			return fmt.Sprintf("FormatInt(%d,%d) panicked: %v", c.n(0), base, v)
		}
		return eqs(got, strconv.FormatInt(int64(c.n(0)), base))
	case "FormatFloat":
		format, prec := c.s(0), c.n(0)
		var got string
		p, v := call(func() { got = builtin.FormatFloat(c.f(0), format, prec) })
		valid := (format == "e" || format == "f" || format == "g") && prec >= -1 && prec <= 1000
		if !valid {
			if !p {
				return fmt.Sprintf("FormatFloat(%v,%q,%d) did not panic for invalid arguments", c.f(0), format, prec)
			}
			if s, ok := v.(string); !ok || !strings.HasPrefix(s, "formatFloat: invalid") {
				return fmt.Sprintf("FormatFloat(%v,%q,%d) panicked with %v, not the documented panic", c.f(0), format, prec, v)
			}
			return ""
		}
		if p {
			return fmt.Sprintf("FormatFloat(%v,%q,%d) panicked: %v", c.f(0), format, prec, v)
		}
		return eqs(got, strconv.FormatFloat(c.f(0), format[0], prec, 64))

	// ---- functions documented to return an error: never panic, agree with stdlib
	case "ParseInt":
		s, base := c.s(0), c.n(0)
		got, err := builtin.ParseInt(s, base)
		if base < 2 || base > 36 {
			if err == nil {
				return fmt.Sprintf("ParseInt(%q,%d) accepted a base outside 2..36 (documented range), returned %d", s, base, got)
			}
			return ""
		}
		w, werr := strconv.ParseInt(s, base, 0)
		if (err != nil) != (werr != nil) {
			return fmt.Sprintf("ParseInt(%q,%d) err=%v, strconv err=%v", s, base, err, werr)
		}
		if err != nil {
			if got != 0 {
				return fmt.Sprintf("ParseInt(%q,%d) returned %d with an error, documented 0", s, base, got)
			}
			return ""
		}
		return eqs(got, int(w))
	case "ParseFloat":
		s := c.s(0)
		got, err := builtin.ParseFloat(s)
		low := strings.ToLower(s)
		if strings.Contains(low, "x") || strings.Contains(low, "_") || strings.Contains(low, "p") {
			return "" // hexadecimal forms: the documentation is silent; only "no panic" is required
		}
		w, werr := strconv.ParseFloat(s, 64)
		if werr == nil && (math.IsNaN(w) || math.IsInf(w, 0)) {
			if err == nil {
				return fmt.Sprintf("ParseFloat(%q) = %v, nil for a non-finite spelling", s, got)
			}
			return ""
		}
		if (err != nil) != (werr != nil) {
			return fmt.Sprintf("ParseFloat(%q) err=%v, strconv err=%v", s, err, werr)
		}
		if err == nil && got != w {
			return fmt.Sprintf("ParseFloat(%q) = %v, want %v", s, got, w)
		}
	case "ParseDuration":
		got, err := builtin.ParseDuration(c.s(0))
		w, werr := time.ParseDuration(c.s(0))
		if (err != nil) != (werr != nil) || err == nil && time.Duration(got) != w {
			return fmt.Sprintf("ParseDuration(%q) = %v,%v want %v,%v", c.s(0), got, err, w, werr)
		}
	case "ParseTime":
		got, err := builtin.ParseTime(c.s(0), c.s(1))
		if c.s(0) != "" {
			w, werr := time.Parse(c.s(0), c.s(1))
			if (err != nil) != (werr != nil) {
				return fmt.Sprintf("ParseTime(%q,%q) err=%v, time.Parse err=%v", c.s(0), c.s(1), err, werr)
			}
			if err == nil && got.UnixNano() != w.UnixNano() && w.Year() > 1700 && w.Year() < 2200 {
				return fmt.Sprintf("ParseTime(%q,%q) = %v, want %v", c.s(0), c.s(1), got, w)
			}
		}
	case "Date":
		loc := c.s(0)
		got, err := builtin.Date(c.n(0), c.n(1), c.n(2), c.n(3), c.n(4), c.n(5), c.n(6), loc)
		l, lerr := time.LoadLocation(loc)
		if (err != nil) != (lerr != nil) {
			return fmt.Sprintf("Date(..., %q) err=%v, LoadLocation err=%v", loc, err, lerr)
		}
		if err == nil {
			w := time.Date(c.n(0), time.Month(c.n(1)), c.n(2), c.n(3), c.n(4), c.n(5), c.n(6), l)
			if got.Unix() != w.Unix() || got.Nanosecond() != w.Nanosecond() {
				return fmt.Sprintf("Date%v %q = %v, want %v", c.I, loc, got, w)
			}
		}
	case "MarshalJSONIndent":
		var v any
		_ = json.Unmarshal([]byte(c.s(0)), &v)
		prefix, indent := c.s(1), c.s(2)
		got, err := builtin.MarshalJSONIndent(v, prefix, indent)
		ws := func(s string) bool { return strings.Trim(s, " \t\r\n") == "" }
		if !ws(prefix) || !ws(indent) {
			if err == nil {
				return fmt.Sprintf("MarshalJSONIndent accepted non-whitespace prefix %q / indent %q", prefix, indent)
			}
			return ""
		}
		w, werr := json.MarshalIndent(v, prefix, indent)
		if (err != nil) != (werr != nil) || err == nil && string(got) != string(w) {
			return fmt.Sprintf("MarshalJSONIndent(%s,%q,%q) = %q,%v want %q,%v", c.s(0), prefix, indent, got, err, w, werr)
		}
	case "MarshalJSON":
		var v any
		_ = json.Unmarshal([]byte(c.s(0)), &v)
		if c.n(0) == 1 {
			v = math.NaN()
		} else if c.n(0) == 2 {
			v = map[string]any{"f": func() {}}
		}
		got, err := builtin.MarshalJSON(v)
		w, werr := json.Marshal(v)
		if (err != nil) != (werr != nil) || err == nil && string(got) != string(w) {
			return fmt.Sprintf("MarshalJSON(%s) = %q,%v want %q,%v", c.s(0), got, err, w, werr)
		}
	case "IndentJSON":
		data, prefix, indent := c.s(0), c.s(1), c.s(2)
		var got native.JSON
		p, v := call(func() { got = builtin.IndentJSON(native.JSON(data), prefix, indent) })
		ws := func(s string) bool { return strings.Trim(s, " \t\r\n") == "" }
		if !json.Valid([]byte(data)) || !ws(prefix) || !ws(indent) {
			if !p {
				return fmt.Sprintf("IndentJSON(%q,%q,%q) did not panic on invalid input (documented), returned %q", data, prefix, indent, got)
			}
			return ""
		}
		if p {
			return fmt.Sprintf("IndentJSON(%q,%q,%q) panicked on valid input: %v", data, prefix, indent, v)
		}
		var b bytes.Buffer
		_ = json.Indent(&b, []byte(strings.Trim(data, " \t\r\n")), prefix, indent)
		return eqs(string(got), b.String())
	case "MarshalYAML":
		var v any
		_ = json.Unmarshal([]byte(c.s(0)), &v)
		if c.n(0) == 2 {
			v = map[string]any{"f": func() {}}
		}
		_, _ = builtin.MarshalYAML(v) // must not panic
	case "UnmarshalJSON":
		data := c.s(0)
		switch c.n(0) {
		case 1:
			if err := builtin.UnmarshalJSON(data, nil); err == nil {
				return "UnmarshalJSON(data, nil) returned nil error"
			}
			return ""
		case 2:
			if err := builtin.UnmarshalJSON(data, target{}); err == nil {
				return "UnmarshalJSON(data, non-pointer) returned nil error"
			}
			return ""
		case 3:
			if err := builtin.UnmarshalJSON(data, (*target)(nil)); err == nil {
				return "UnmarshalJSON(data, nil pointer) returned nil error"
			}
			return ""
		}
		orig := target{A: 7, B: "keep", C: []int{1, 2}, D: map[string]string{"k": "v"}, E: &target{A: 1}}
		v := orig
		err := builtin.UnmarshalJSON(data, &v)
		var w target
		werr := json.Unmarshal([]byte(data), &w)
		if (err != nil) != (werr != nil) {
			return fmt.Sprintf("UnmarshalJSON(%q) err=%v, json.Unmarshal err=%v", data, err, werr)
		}
		if err != nil {
			if !reflect.DeepEqual(v, orig) {
				return fmt.Sprintf("UnmarshalJSON(%q) failed (%v) but changed the target to %+v", data, err, v)
			}
			return ""
		}
		if !reflect.DeepEqual(v, w) {
			return fmt.Sprintf("UnmarshalJSON(%q) stored %+v, json.Unmarshal into a new value gives %+v", data, v, w)
		}
	case "UnmarshalYAML":
		data := c.s(0)
		switch c.n(0) {
		case 1:
			if err := builtin.UnmarshalYAML(data, nil); err == nil {
				return "UnmarshalYAML(data, nil) returned nil error"
			}
			return ""
		case 2:
			if err := builtin.UnmarshalYAML(data, map[string]any{}); err == nil {
				return "UnmarshalYAML(data, non-pointer) returned nil error"
			}
			return ""
		}
		orig := target{A: 7, B: "keep", C: []int{1, 2}}
		v := orig
		if err := builtin.UnmarshalYAML(data, &v); err != nil && !reflect.DeepEqual(v, orig) {
			return fmt.Sprintf("UnmarshalYAML(%q) failed (%v) but changed the target to %+v", data, err, v)
		}
		var a any
		_ = builtin.UnmarshalYAML(data, &a)

	// ---- documented semantics
	case "QueryEscape":
		s := c.s(0)
		out := builtin.QueryEscape(s)
		for i := 0; i < len(out); i++ {
			ch := out[i]
			switch {
			case '0' <= ch && ch <= '9', 'a' <= ch && ch <= 'z', 'A' <= ch && ch <= 'Z', ch == '-', ch == '.', ch == '_', ch == '~':
			case ch == '%':
				if i+2 >= len(out) || !isHex(out[i+1]) || !isHex(out[i+2]) {
					return fmt.Sprintf("QueryEscape(%q) = %q: malformed escape at %d", s, out, i)
				}
				i += 2
			default:
				return fmt.Sprintf("QueryEscape(%q) = %q: byte %q is neither unreserved nor an escape", s, out, ch)
			}
		}
		dec, err := url.QueryUnescape(out)
		if err != nil || dec != s {
			return fmt.Sprintf("QueryEscape(%q) = %q which decodes to %q (%v)", s, out, dec, err)
		}
	case "Abbreviate":
		s, n := c.s(0), c.n(0)
		out := builtin.Abbreviate(s, n)
		if n >= 0 && utf8.RuneCountInString(out) > n {
			return fmt.Sprintf("Abbreviate(%q,%d) = %q has %d runes", s, n, out, utf8.RuneCountInString(out))
		}
		trimmed := strings.TrimRight(s, asciiSpaces)
		if utf8.RuneCountInString(trimmed) <= n {
			if out != trimmed {
				return fmt.Sprintf("Abbreviate(%q,%d) = %q but the string is not longer than %d runes", s, n, out, n)
			}
			return ""
		}
		if n >= 3 {
			if !strings.HasSuffix(out, "...") {
				return fmt.Sprintf("Abbreviate(%q,%d) = %q: shortened result does not end with \"...\"", s, n, out)
			}
			if !strings.HasPrefix(s, strings.TrimSuffix(out, "...")) {
				return fmt.Sprintf("Abbreviate(%q,%d) = %q: the kept part is not a prefix of the input", s, n, out)
			}
		}
	case "Capitalize":
		s := c.s(0)
		out := builtin.Capitalize(s)
		if !utf8.ValidString(s) {
			return ""
		}
		want := s
		for i, r := range s {
			if isSeparator(r) {
				continue
			}
			if !unicode.IsUpper(r) {
				want = s[:i] + string(unicode.ToUpper(r)) + s[i+utf8.RuneLen(r):]
			}
			break
		}
		return eqs(out, want)
	case "CapitalizeAll":
		s := c.s(0)
		out := builtin.CapitalizeAll(s)
		if !utf8.ValidString(s) {
			return ""
		}
		var b strings.Builder
		prev := ' '
		for _, r := range s {
			if isSeparator(prev) {
				b.WriteRune(unicode.ToUpper(r))
			} else {
				b.WriteRune(r)
			}
			prev = r
		}
		return eqs(out, b.String())
	case "ToKebab":
		s := c.s(0)
		out := builtin.ToKebab(s)
		if !utf8.ValidString(s) || !simpleCase(s) {
			return ""
		}
		if strings.HasPrefix(out, "-") || strings.HasSuffix(out, "-") || strings.Contains(out, "--") {
			return fmt.Sprintf("ToKebab(%q) = %q: stray dash", s, out)
		}
		var letters strings.Builder
		for _, r := range s {
			if unicode.IsLower(r) || unicode.IsDigit(r) {
				letters.WriteRune(r)
			} else if unicode.IsUpper(r) {
				letters.WriteRune(unicode.ToLower(r))
			}
		}
		if got := strings.ReplaceAll(out, "-", ""); got != letters.String() {
			return fmt.Sprintf("ToKebab(%q) = %q: letters %q, want %q", s, out, got, letters.String())
		}
		if again := builtin.ToKebab(out); again != out {
			return fmt.Sprintf("ToKebab not idempotent: %q -> %q -> %q", s, out, again)
		}
	case "SortReverse":
		parts := strings.Split(c.s(0), ",")
		a := append([]string(nil), parts...)
		builtin.Sort(a, nil)
		w := append([]string(nil), parts...)
		sort.Strings(w)
		if m := eqs(a, w); m != "" {
			return "Sort([]string): " + m
		}
		ints := append([]int(nil), c.I...)
		wi := append([]int(nil), c.I...)
		builtin.Sort(ints, nil)
		sort.Ints(wi)
		if m := eqs(ints, wi); m != "" {
			return "Sort([]int): " + m
		}
		// custom less: sorted permutation
		type kv struct{ K, V int }
		var kvs []kv
		for i, x := range c.I {
			kvs = append(kvs, kv{x % 5, i})
		}
		cp := append([]kv(nil), kvs...)
		builtin.Sort(cp, func(i, j int) bool { return cp[i].K < cp[j].K })
		seen := map[int]bool{}
		for i, e := range cp {
			if i > 0 && cp[i-1].K > e.K {
				return fmt.Sprintf("Sort with less: result not ordered: %v", cp)
			}
			if seen[e.V] || e.V >= len(kvs) || kvs[e.V] != e {
				return fmt.Sprintf("Sort with less: result is not a permutation: %v of %v", cp, kvs)
			}
			seen[e.V] = true
		}
		// natural order of other element kinds: sorted permutation
		fl := append([]float64(nil), c.F...)
		builtin.Sort(fl, nil)
		wf := append([]float64(nil), c.F...)
		sort.Float64s(wf)
		for i := range fl {
			if fl[i] != wf[i] && !(math.IsNaN(fl[i]) && math.IsNaN(wf[i])) {
				return fmt.Sprintf("Sort([]float64) = %v, want %v", fl, wf)
			}
		}
		u8 := []uint8{}
		for _, x := range c.I {
			u8 = append(u8, uint8(x))
		}
		builtin.Sort(u8, nil)
		for i := 1; i < len(u8); i++ {
			if u8[i-1] > u8[i] {
				return fmt.Sprintf("Sort([]uint8) not ordered: %v", u8)
			}
		}
		bs := []bool{}
		for _, x := range c.I {
			bs = append(bs, x%2 == 0)
		}
		nb := 0
		for _, b := range bs {
			if b {
				nb++
			}
		}
		builtin.Sort(bs, nil)
		nb2 := 0
		for _, b := range bs {
			if b {
				nb2++
			}
		}
		if nb != nb2 {
			return "Sort([]bool) is not a permutation"
		}
		// Reverse
		r := append([]string(nil), parts...)
		builtin.Reverse(r)
		for i := range r {
			if r[i] != parts[len(parts)-1-i] {
				return fmt.Sprintf("Reverse(%v) = %v", parts, r)
			}
		}
		builtin.Reverse(r)
		if m := eqs(r, parts); m != "" {
			return "Reverse twice: " + m
		}
		builtin.Reverse(nil)
		builtin.Sort(nil, nil)
		if p, _ := call(func() { builtin.Reverse(3) }); !p {
			return "Reverse(non-slice) did not panic (documented)"
		}
		if p, _ := call(func() { builtin.Sort("x", nil) }); !p {
			return "Sort(non-slice) did not panic (documented)"
		}
	case "RegExp":
		expr, s, repl, n := c.s(0), c.s(1), c.s(2), c.n(0)
		ref, rerr := regexp.Compile(expr)
		var re builtin.Regexp
		p, v := call(func() { re = builtin.RegExp(expr) })
		if (rerr != nil) != p {
			return fmt.Sprintf("RegExp(%q): panicked=%v (%v), regexp.Compile err=%v", expr, p, v, rerr)
		}
		if p {
			if str, ok := v.(string); !ok || !strings.HasPrefix(str, "regexp: ") {
				return fmt.Sprintf("RegExp(%q) panicked with %v", expr, v)
			}
			return ""
		}
		if m := eqs(re.Match(s), ref.MatchString(s)); m != "" {
			return m
		}
		if m := eqs(re.Find(s), ref.FindString(s)); m != "" {
			return m
		}
		if m := eqs(re.FindAll(s, n), ref.FindAllString(s, n)); m != "" {
			return m
		}
		if m := eqs(re.FindAllSubmatch(s, n), ref.FindAllStringSubmatch(s, n)); m != "" {
			return m
		}
		if m := eqs(re.FindSubmatch(s), ref.FindStringSubmatch(s)); m != "" {
			return m
		}
		if m := eqs(re.ReplaceAll(s, repl), ref.ReplaceAllString(s, repl)); m != "" {
			return m
		}
		f := func(x string) string { return "[" + x + "]" }
		if m := eqs(re.ReplaceAllFunc(s, f), ref.ReplaceAllStringFunc(s, f)); m != "" {
			return m
		}
		if m := eqs(re.Split(s, n), ref.Split(s, n)); m != "" {
			return m
		}
	case "Time":
		sec, nsec := int64(c.n(0)), int64(c.n(1))
		t := builtin.UnixTime(sec, nsec)
		w := time.Unix(sec, nsec)
		d := time.Duration(c.n(2))
		checks := []struct {
			name      string
			got, want any
		}{
			{"Unix", t.Unix(), w.Unix()}, {"UnixNano", t.UnixNano(), w.UnixNano()},
			{"Year", t.Year(), w.Year()}, {"Month", t.Month(), int(w.Month())}, {"Day", t.Day(), w.Day()},
			{"Hour", t.Hour(), w.Hour()}, {"Minute", t.Minute(), w.Minute()}, {"Second", t.Second(), w.Second()},
			{"Nanosecond", t.Nanosecond(), w.Nanosecond()}, {"YearDay", t.YearDay(), w.YearDay()},
			{"Weekday", t.Weekday(), int(w.Weekday())}, {"IsZero", t.IsZero(), w.IsZero()},
			{"Format", t.Format(c.s(0)), w.Format(c.s(0))}, {"String", t.String(), w.String()},
			{"Add", t.Add(builtin.Duration(d)).UnixNano(), w.Add(d).UnixNano()},
			{"AddDate", t.AddDate(c.n(3), c.n(4), c.n(5)).Unix(), w.AddDate(c.n(3), c.n(4), c.n(5)).Unix()},
			{"Round", t.Round(builtin.Duration(d)).UnixNano(), w.Round(d).UnixNano()},
			{"Truncate", t.Truncate(builtin.Duration(d)).UnixNano(), w.Truncate(d).UnixNano()},
			{"UTC", t.UTC().Format(time.RFC3339Nano), w.UTC().Format(time.RFC3339Nano)},
		}
		for _, ch := range checks {
			if !reflect.DeepEqual(ch.got, ch.want) {
				return fmt.Sprintf("Time(%d,%d).%s = %v, time.Time gives %v", sec, nsec, ch.name, ch.got, ch.want)
			}
		}
		u := builtin.UnixTime(int64(c.n(3)), 0)
		wu := time.Unix(int64(c.n(3)), 0)
		if t.After(u) != w.After(wu) || t.Before(u) != w.Before(wu) || t.Equal(u) != w.Equal(wu) || time.Duration(t.Sub(u)) != w.Sub(wu) {
			return fmt.Sprintf("Time(%d,%d) comparisons with %d disagree with time.Time", sec, nsec, c.n(3))
		}
		if y := w.UTC().Year(); y >= 1 && y <= 9999 {
			js := string(t.JSON())
			var back time.Time
			if err := json.Unmarshal([]byte(js), &back); err != nil {
				return fmt.Sprintf("Time(%d,%d).JSON() = %s is not a JSON time: %v", sec, nsec, js, err)
			}
			if !back.Equal(w) && back.Unix() != w.Unix() {
				return fmt.Sprintf("Time(%d,%d).JSON() = %s decodes to another instant %v", sec, nsec, js, back)
			}
		}
	default:
		return "unknown function " + c.Fn
	}
	return ""
}

func isHex(b byte) bool {
	return '0' <= b && b <= '9' || 'a' <= b && b <= 'f' || 'A' <= b && b <= 'F'
}

func init() {
	ev.RegisterReplay("builtin", func(t ev.TB, raw json.RawMessage) {
		var c Case
		if err := json.Unmarshal(raw, &c); err != nil {
			t.Fatalf("bad case: %v", err)
		}
		if msg := judge(c); msg != "" {
			t.Fatalf("%s", msg)
		}
	})
}

// ---- generators

var atoms = []string{
	"", "a", "b", "A", "Z", "z", "0", "9", " ", "  ", "\t", "\n", "\r", "\f", ",", ".", "-", "_", "~", "+", "%", "%4", "%zz", "&", "=", "?", "/", "#",
	"é", "É", "ß", "ı", "İ", "ǅ", "ſ", "K", "ϒ", "日本", "😀", "\u00a0", "\u2028", "\ufeff", "\ufffd",
	"\xff", "\x80", "\xc3", "\xe2\x82", "\xf0\x9f", "\x00", "\x7f",
	"ab", "Ab", "aB", "AB", "helloWorld", "HTTPServer", "foo bar", "foo,", "foo.", "...", "ä ö",
	"<", ">", "\"", "'", "\\", "{", "}", "[", "]", "(", ")", "*", "$1", "${x}", "|", "^",
}

func genStr(t *rapid.T, label string) string {
	switch rapid.IntRange(0, 9).Draw(t, label+"_k") {
	case 0:
		return rapid.SampledFrom(atoms).Draw(t, label+"_atom")
	case 1:
		return rapid.String().Draw(t, label+"_u")
	case 2:
		return string(rapid.SliceOfN(rapid.Byte(), 0, 12).Draw(t, label+"_bytes"))
	}
	n := rapid.IntRange(0, 8).Draw(t, label+"_n")
	var b strings.Builder
	for i := 0; i < n; i++ {
		b.WriteString(rapid.SampledFrom(atoms).Draw(t, label+"_a"))
	}
	return b.String()
}

var boundaryInts = []int{0, 1, -1, 2, 3, 4, 5, 7, 10, 16, 35, 36, 37, 100, 255, 256, 1000, 1001, -2, -36, math.MaxInt32, math.MinInt32, math.MaxInt64, math.MinInt64, math.MaxInt64 - 1, 1 << 31, 1 << 62}

func genInt(t *rapid.T, label string) int {
	if rapid.Bool().Draw(t, label+"_b") {
		return rapid.SampledFrom(boundaryInts).Draw(t, label)
	}
	return rapid.IntRange(-50, 50).Draw(t, label+"_small")
}

var numStrs = []string{"0", "1", "-1", "+1", "9223372036854775807", "9223372036854775808", "-9223372036854775808", "-9223372036854775809", "7fffffffffffffff", "zz", "Zz", "1_000", "0x10", "0X10", "0b1", "0o7", "012", " 1", "1 ", "", "-", "+", "1e3", "1e400", "-1e400", "1e-400", ".5", "5.", "1.5e+3", "NaN", "nan", "Inf", "-inf", "+Infinity", "infinity", "0x1p-2", "1p3", "1e", "e1", "٣", "1.797693134862315708145274237317043567981e+308", "4.9e-324", "1.7976931348623159e308", "00", "-0", "١٢"}

var jsonDocs = []string{`null`, `true`, `1`, `-0`, `1.5e300`, `"s"`, `"\u00e9\ud83d\ude00"`, `[]`, `{}`, `[1,[2,{"a":null}]]`, `{"a":1,"b":"x","c":[1,2],"d":{"k":"v"},"e":{"a":2}}`, `{"a":"wrong"}`, `{"c":[1,"x"]}`, `{"a":1`, `{"a":1}}`, ` {"a" : 3} `, `{"b":5}`, `[1,2`, `"`, ``, ` `, "\t\n", `{"e":{"e":{"e":null}}}`, `{"A":9}`, `{"a":1e99}`, `{"a":1.5}`, "\xff", `{"d":{"k":1}}`, `nul`, `[1 2]`, `{"a":1,"a":2}`}

var yamlDocs = []string{"a: 1", "a: x", "b: [1,2", "c:\n  - 1\n  - 2", "{", "- 1\n- 2", "a: &x 1\nb: *x", "a: *y", "? [a]\n: 1", "a: !!binary x", "\t", "a: 1\na: 2", "%YAML 9", "&a [*a]", "b: 2\nc: [3]", "a: 0x10", "a: 1e99999", "'", "\xff", "a:\n  b:\n    c: 1", "- - - 1", "a: !!float x", "<<: 1", "a: {<<: *x}", "!!map", "---\n...\n---"}

var durStrs = []string{"300ms", "-1.5h", "2h45m", "1µs", "1us", "1ns", "", "1", "h", "1h1", "9223372036854775807ns", "9223372036854775808ns", "1e3s", ".5s", "1.s", "-", "+1s", "1d", "3000000h", "0", "1h-1m"}

var layouts = []string{"", time.RFC3339, time.RFC3339Nano, time.RFC1123, time.Kitchen, "2006-01-02", "2006-01-02 15:04:05", "Jan _2", "15:04:05.000", "Monday", "x", "2006-01-02T15:04:05Z07:00"}
var timeStrs = []string{"2021-03-27T11:21:14Z", "2021-03-27T11:21:14.964553705+01:00", "2021-03-27", "2021-03-27 11:21:14", "3:04PM", "Mon, 02 Jan 2006 15:04:05 MST", "", "x", "2021-13-01", "0000-01-01", "9999-12-31T23:59:59Z", "10000-01-01", "2021-02-30", "Feb  3", "11:21:14.123", "Monday", "27/03/2021", "2021-03-27T11:21:14"}
var locs = []string{"", "UTC", "Local", "Europe/Rome", "America/New_York", "Nowhere/None", "../etc", "europe/rome", "\x00", "/", "Asia/Kolkata"}
var regexps = []string{"", "a", "a*", "a+b", "(a)(b)?", "[a-c]+", "^", "$", ".", "\\d+", "(", "[", "a{2,1}", "(?i)ab", "a|b", "\\b", "(?P<n>a)", "\\pL+", "é", "\\xff", "a**", "(?s).", ",", "\\s*,\\s*"}

var fns = []string{"Index", "IndexAny", "LastIndex", "HasPrefix", "HasSuffix", "Join", "Replace", "ReplaceAll", "RuneCount", "Split", "SplitAfter", "SplitN", "SplitAfterN", "Trim", "TrimLeft", "TrimRight", "TrimPrefix", "TrimSuffix", "ToLower", "ToUpper", "Base64", "Hex", "Md5", "Sha1", "Sha256", "HmacSHA1", "HmacSHA256", "Sprint", "Sprintf", "Pow", "Abs", "Max", "Min", "FormatInt", "FormatFloat",
	"ParseInt", "ParseFloat", "ParseDuration", "ParseTime", "Date", "MarshalJSONIndent", "MarshalJSON", "IndentJSON", "MarshalYAML", "UnmarshalJSON", "UnmarshalYAML",
	"QueryEscape", "Abbreviate", "Capitalize", "CapitalizeAll", "ToKebab", "SortReverse", "RegExp", "Time"}

// functions whose oracle is more than a one-line wrapper get more weight
var heavy = []string{"ParseInt", "ParseFloat", "MarshalJSONIndent", "IndentJSON", "UnmarshalJSON", "UnmarshalYAML", "QueryEscape", "Abbreviate", "Capitalize", "CapitalizeAll", "ToKebab", "SortReverse", "RegExp", "Time", "FormatInt", "FormatFloat", "Date", "ParseTime"}

func genCase(t *rapid.T) Case {
	var fn string
	if rapid.Bool().Draw(t, "heavy") {
		fn = rapid.SampledFrom(heavy).Draw(t, "fn")
	} else {
		fn = rapid.SampledFrom(fns).Draw(t, "fn")
	}
	pick := func(pool []string, label string) string {
		if rapid.IntRange(0, 4).Draw(t, label+"_mut") == 0 {
			return genStr(t, label)
		}
		s := rapid.SampledFrom(pool).Draw(t, label)
		if rapid.IntRange(0, 5).Draw(t, label+"_cat") == 0 {
			s += rapid.SampledFrom(atoms).Draw(t, label+"_suffix")
		}
		return s
	}
	wsOrNot := func(label string) string {
		switch rapid.IntRange(0, 5).Draw(t, label) {
		case 0:
			return ""
		case 1:
			return "  "
		case 2:
			return "\t"
		case 3:
			return " \n\r\t"
		case 4:
			return genStr(t, label+"_s")
		}
		return string([]byte{rapid.Byte().Draw(t, label+"_byte")})
	}
	switch fn {
	case "ParseInt":
		return mkCase(fn, []string{pick(numStrs, "s")}, []int{rapid.SampledFrom([]int{10, 10, 2, 8, 16, 36, 0, 1, 37, -1, 35, 3}).Draw(t, "base")}, nil)
	case "ParseFloat":
		return mkCase(fn, []string{pick(numStrs, "s")}, nil, nil)
	case "ParseDuration":
		return mkCase(fn, []string{pick(durStrs, "s")}, nil, nil)
	case "ParseTime":
		return mkCase(fn, []string{pick(layouts, "layout"), pick(timeStrs, "value")}, nil, nil)
	case "Date":
		is := make([]int, 7)
		for i := range is {
			is[i] = rapid.IntRange(-40, 3000).Draw(t, "d")
		}
		return mkCase(fn, []string{pick(locs, "loc")}, is, nil)
	case "MarshalJSONIndent", "IndentJSON":
		return mkCase(fn, []string{pick(jsonDocs, "doc"), wsOrNot("prefix"), wsOrNot("indent")}, nil, nil)
	case "MarshalJSON", "MarshalYAML":
		return mkCase(fn, []string{pick(jsonDocs, "doc")}, []int{rapid.IntRange(0, 2).Draw(t, "special")}, nil)
	case "UnmarshalJSON":
		return mkCase(fn, []string{pick(jsonDocs, "doc")}, []int{rapid.SampledFrom([]int{0, 0, 0, 0, 1, 2, 3}).Draw(t, "target")}, nil)
	case "UnmarshalYAML":
		return mkCase(fn, []string{pick(append(yamlDocs, jsonDocs...), "doc")}, []int{rapid.SampledFrom([]int{0, 0, 0, 0, 1, 2}).Draw(t, "target")}, nil)
	case "Abbreviate":
		return mkCase(fn, []string{genStr(t, "s")}, []int{rapid.SampledFrom([]int{0, 1, 2, 3, 4, 5, 6, 7, 8, 10, 15, 20, -1, -5, 1000}).Draw(t, "n")}, nil)
	case "FormatInt":
		return mkCase(fn, nil, []int{genInt(t, "i"), rapid.SampledFrom([]int{2, 10, 16, 36, 1, 0, 37, -2, 8}).Draw(t, "base")}, nil)
	case "FormatFloat":
		return mkCase(fn, []string{rapid.SampledFrom([]string{"e", "f", "g", "", "E", "G", "x", "b", "ff"}).Draw(t, "fmt")}, []int{rapid.SampledFrom([]int{-1, 0, 1, 5, 17, 1000, 1001, -2, 300}).Draw(t, "prec")}, []float64{rapid.Float64().Draw(t, "f")})
	case "Pow":
		return mkCase(fn, nil, nil, []float64{rapid.Float64().Draw(t, "x"), rapid.Float64().Draw(t, "y")})
	case "Abs", "Max", "Min":
		return mkCase(fn, nil, []int{genInt(t, "x"), genInt(t, "y")}, nil)
	case "SortReverse":
		n := rapid.IntRange(0, 9).Draw(t, "n")
		var parts []string
		var is []int
		var fs []float64
		for i := 0; i < n; i++ {
			parts = append(parts, strings.ReplaceAll(genStr(t, "e"), ",", ";"))
			is = append(is, genInt(t, "i"))
			fs = append(fs, rapid.Float64().Draw(t, "f"))
		}
		if n > 0 && rapid.IntRange(0, 5).Draw(t, "nan") == 0 {
			fs[0] = math.NaN()
		}
		return mkCase(fn, []string{strings.Join(parts, ",")}, is, fs)
	case "RegExp":
		return mkCase(fn, []string{pick(regexps, "expr"), genStr(t, "s"), pick([]string{"", "x", "$1", "${n}", "$", "$$", "${1}x"}, "repl")}, []int{rapid.IntRange(-1, 3).Draw(t, "n")}, nil)
	case "Time":
		is := []int{rapid.SampledFrom([]int{0, 1, -1, 1616840474, 253402300799, 253402300800, -62135596800, -62135596801, 1 << 40, -(1 << 40), 951782400, 1709164800}).Draw(t, "sec") + rapid.IntRange(-100000, 100000).Draw(t, "jit"),
			rapid.SampledFrom([]int{0, 1, 999999999, 1000000000, -1, 500000000, 123456789}).Draw(t, "nsec"),
			rapid.SampledFrom([]int{0, 1, -1, 1000, 1000000000, 3600000000000, 86400000000000, 7, math.MaxInt64, math.MinInt64}).Draw(t, "d"),
			rapid.IntRange(-3000, 3000).Draw(t, "y"), rapid.IntRange(-30, 30).Draw(t, "m"), rapid.IntRange(-400, 400).Draw(t, "dd")}
		return mkCase(fn, []string{pick(layouts, "layout")}, is, nil)
	case "Sprint", "Sprintf":
		return mkCase(fn, []string{pick([]string{"%s %d", "%v", "%", "%!", "%d %s", "%[2]d", "%*d", "%q"}, "f"), genStr(t, "a")}, []int{genInt(t, "i")}, []float64{rapid.Float64().Draw(t, "f")})
	case "Replace", "SplitN", "SplitAfterN":
		return mkCase(fn, []string{genStr(t, "s"), genStr(t, "old"), genStr(t, "new")}, []int{rapid.IntRange(-2, 4).Draw(t, "n")}, nil)
	}
	return mkCase(fn, []string{genStr(t, "s"), genStr(t, "t"), genStr(t, "u")}, nil, nil)
}

func nontrivial(c Case) bool {
	for _, b := range c.B {
		if !utf8.Valid(b) {
			return true
		}
	}
	switch c.Fn {
	case "ParseInt":
		_, err := strconv.ParseInt(c.s(0), c.n(0), 0)
		return err != nil
	case "ParseFloat":
		_, err := strconv.ParseFloat(c.s(0), 64)
		return err != nil
	case "UnmarshalJSON":
		var w target
		return c.n(0) != 0 || json.Unmarshal([]byte(c.s(0)), &w) != nil
	case "MarshalJSONIndent", "IndentJSON":
		return strings.Trim(c.s(1)+c.s(2), " \t\r\n") != "" || !json.Valid([]byte(c.s(0)))
	case "Abbreviate":
		n := c.n(0)
		rc := utf8.RuneCountInString(strings.TrimRight(c.s(0), asciiSpaces))
		return n < 3 || rc >= n-1 && rc <= n+1
	case "FormatInt":
		return c.n(1) <= 2 || c.n(1) >= 36
	case "FormatFloat":
		return c.n(0) <= -1 || c.n(0) >= 1000 || len(c.s(0)) != 1
	case "RegExp":
		_, err := regexp.Compile(c.s(0))
		return err != nil
	case "Date":
		_, err := time.LoadLocation(c.s(0))
		return err != nil
	case "ParseTime":
		_, err := time.Parse(c.s(0), c.s(1))
		return err != nil
	case "ParseDuration":
		_, err := time.ParseDuration(c.s(0))
		return err != nil
	case "Capitalize", "CapitalizeAll", "ToKebab":
		for _, r := range c.s(0) {
			if r > 0x7f && (unicode.IsUpper(r) || unicode.IsLower(r) || unicode.IsTitle(r)) {
				return true
			}
		}
	case "UnmarshalYAML":
		return true
	case "Time":
		return c.n(1) < 0 || c.n(1) >= 1000000000 || c.n(0) > 253402300799 || c.n(0) < -62135596800
	}
	return false
}

func TestPropBuiltins(t *testing.T) {
	ev.Check(t, ev.N{Quick: 120000, Thorough: 12000000}, func(t *rapid.T) {
		c := genCase(t)
		ev.Eval()
		ev.Label("fn_" + c.Fn)
		if nontrivial(c) {
			ev.Label("nontrivial")
			k, _ := json.Marshal(c)
			ev.NontrivialSample(c, string(k))
		}
		if msg := judge(c); msg != "" {
			if id := classify(c, msg); id != "" && ev.Known(id) {
				return
			}
			ev.Fail(t, "builtin", c, "%s", msg)
		}
	})
}

// classify maps a live failure to the id of a recorded known finding (the
// entry must also be listed in known_findings.json to count).
func classify(c Case, msg string) string {
	return ""
}

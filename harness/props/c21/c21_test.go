// C21 — build errors point at a real location in the reported file: the file is one the
// build read, the byte offsets lie inside it, and line and column are those of the start
// offset.
package c21

import (
	"encoding/json"
	"errors"
	"fmt"
	"sort"
	"strings"
	"testing"
	"unicode/utf8"

	"github.com/open2b/scriggo"
	"pgregory.net/rapid"

	"verif/harness/gen/srcmut"
	"verif/harness/lib/ev"
	"verif/harness/lib/probe"
)

func TestMain(m *testing.M)    { ev.Main(m, "C21") }
func TestReplay(t *testing.T)  { ev.Replay(t) }
func TestRegress(t *testing.T) { ev.Regress(t) }

func describe(c srcmut.Case) string {
	var names []string
	for n := range c.Files {
		if n != "go.mod" {
			names = append(names, n)
		}
	}
	sort.Strings(names)
	var b strings.Builder
	fmt.Fprintf(&b, "\n--- %s from %s, mutation %s, built file %q", c.Kind, c.Origin, c.Mutation, c.Main)
	for _, n := range names {
		s := c.Files[n]
		if len(s) > 1500 {
			s = s[:700] + fmt.Sprintf("…(%d bytes)…", len(s)-1400) + s[len(s)-700:]
		}
		fmt.Fprintf(&b, "\n--- %s\n%q", n, s)
	}
	return b.String()
}

// lineColumn computes the line of a byte offset and the set of acceptable columns: lines
// are separated by '\n', the column counts characters (bytes that start a UTF-8 sequence)
// from 1. Two conventions are not fixed by the documentation and both readings are
// accepted: whether a byte order mark at the start of the file is a character of the first
// line, and whether carriage returns are characters.
func lineColumn(src string, off int) (line int, cols map[int]bool, validUTF8 bool) {
	line = 1
	start := 0
	for i := 0; i < off && i < len(src); i++ {
		if src[i] == '\n' {
			line++
			start = i + 1
		}
	}
	seg := src[start:min(off, len(src))]
	count := func(seg string, skipCR bool) int {
		col := 1
		for i := 0; i < len(seg); i++ {
			if b := seg[i]; (b < 128 || b > 191) && !(skipCR && b == '\r') {
				col++
			}
		}
		return col
	}
	cols = map[int]bool{count(seg, false): true, count(seg, true): true}
	if start == 0 && strings.HasPrefix(seg, "\xef\xbb\xbf") {
		cols[count(seg[3:], false)] = true
		cols[count(seg[3:], true)] = true
	}
	return line, cols, utf8.ValidString(seg)
}

// offsetOf returns the byte offset of the character at the line and column.
func offsetOf(src string, line, column int) (int, bool) {
	l, c := 1, 1
	first := 0
	if strings.HasPrefix(src, "\xef\xbb\xbf") {
		first = 3
	}
	for i := first; i <= len(src); i++ {
		if l == line && c == column && (i == len(src) || src[i] < 128 || src[i] > 191) {
			return i, true
		}
		if i == len(src) {
			break
		}
		if src[i] == '\n' {
			l++
			c = 1
		} else if src[i] < 128 || src[i] > 191 {
			c++
		}
	}
	return 0, false
}

// judge returns "" when the build error (if any) is consistent; class describes it.
func judge(c srcmut.Case) (msg string, class string) {
	o := probe.Build(c.Input)
	if o.Hung || o.Panic != nil {
		return "", "not-an-error" // C04's business
	}
	if o.Err == nil {
		return "", "built"
	}
	var be *scriggo.BuildError
	if !errors.As(o.Err, &be) {
		return "", "other-error" // e.g. fs errors: no position to check
	}
	path := be.Path()
	src, isFile := c.Files[path]
	if !isFile {
		return fmt.Sprintf("the error names %q, which is not a file of the build (files %v): %v", path, fileNames(c), o.Err), "error"
	}
	read := false
	for _, n := range o.Opened {
		if n == path {
			read = true
		}
	}
	if !read {
		return fmt.Sprintf("the error names %q, which the build never opened (opened %v): %v", path, o.Opened, o.Err), "error"
	}
	pos := be.Position()
	if pos.Start < 0 || pos.Start > len(src) {
		return fmt.Sprintf("start offset %d is outside %q (%d bytes): %v", pos.Start, path, len(src), o.Err), "error"
	}
	if pos.End < pos.Start-1 || pos.End > len(src) {
		return fmt.Sprintf("end offset %d is inconsistent (start %d, file %q of %d bytes): %v", pos.End, pos.Start, path, len(src), o.Err), "error"
	}
	line, cols, valid := lineColumn(src, pos.Start)
	if pos.Line != line || valid && !cols[pos.Column] {
		// Recorded finding: for expressions with an operator (unary and binary operators,
		// calls, conversions, index, selector and type assertion expressions) the line and
		// column are those of the operator token while Start..End span the operands. It
		// applies only when the reported line and column designate an operator character
		// next to or inside the span.
		if off, ok := offsetOf(src, pos.Line, pos.Column); ok && off != pos.Start && off < len(src) && off >= pos.Start-64 && off <= pos.End+1 && (off > pos.Start && off <= pos.End || strings.IndexByte("+-*/%&|^<>=!.([:,{", src[off]) >= 0) && ev.Known("C21-line-column-of-operator-inside-span") {
			return "", "error-operator-position"
		}
		// Recorded finding: the automatically inserted semicolon (reported as "newline" or
		// "semicolon") has the offset of the last byte before it and the column after it.
		atEOL := false
		if off, ok := offsetOf(src, pos.Line, pos.Column); ok && off == pos.Start+1 && (off == len(src) || src[off] == '\n' || src[off] == '\r') {
			atEOL = true // the token is the semicolon inserted at the end of the line, whatever the message
		}
		if pos.Line == line && (atEOL || strings.Contains(o.Err.Error(), "unexpected newline") || strings.Contains(o.Err.Error(), "unexpected semicolon")) && ev.Known("C21-implicit-semicolon-offset") {
			return "", "error-implicit-semicolon"
		}
		// Same finding, across lines: a general comment that contains a newline acts like a
		// newline; the semicolon inserted for it has the line and column of the start of the
		// comment and the offset of its end.
		if off, ok := offsetOf(src, pos.Line, pos.Column); ok && off < pos.Start && pos.Start < len(src) && strings.HasPrefix(src[off:], "/*") &&
			strings.Contains(src[off:pos.Start+1], "\n") && !strings.Contains(src[off+2:pos.Start-1], "*/") &&
			(strings.Contains(o.Err.Error(), "unexpected newline") || strings.Contains(o.Err.Error(), "unexpected semicolon")) && ev.Known("C21-implicit-semicolon-offset") {
			return "", "error-implicit-semicolon"
		}
		if pos.Line != line {
			return fmt.Sprintf("line %d reported for offset %d of %q, which is on line %d: %v", pos.Line, pos.Start, path, line, o.Err), "error"
		}
		return fmt.Sprintf("column %d reported for offset %d of %q, which is column %v of line %d: %v", pos.Column, pos.Start, path, keys(cols), line, o.Err), "error"
	}
	return "", "error"
}

func fileNames(c srcmut.Case) []string {
	var ns []string
	for n := range c.Files {
		ns = append(ns, n)
	}
	sort.Strings(ns)
	return ns
}

func init() {
	ev.RegisterReplay("position", func(t ev.TB, raw json.RawMessage) {
		var c srcmut.Case
		if err := json.Unmarshal(raw, &c); err != nil {
			t.Fatalf("bad case: %v", err)
		}
		if msg, _ := judge(c); msg != "" {
			t.Fatalf("%s%s", msg, describe(c))
		}
	})
}

func TestPropErrorPositions(t *testing.T) {
	ev.Check(t, ev.N{Quick: 16000, Thorough: 1500000}, func(t *rapid.T) {
		c := srcmut.Gen(t)
		ev.Eval()
		ev.Journal("position", c)
		msg, class := judge(c)
		ev.Label("outcome_" + class)
		ev.Label("kind_" + c.Kind)
		if class == "error" {
			var key []string
			for n, s := range c.Files {
				key = append(key, n, s)
			}
			sort.Strings(key)
			ev.NontrivialSample(map[string]any{"kind": c.Kind, "origin": c.Origin, "mutation": c.Mutation}, key...)
		}
		if msg != "" {
			ev.Fail(t, "position", c, "%s%s", msg, describe(c))
		}
	})
}

func keys(m map[int]bool) []int {
	var ks []int
	for k := range m {
		ks = append(ks, k)
	}
	sort.Ints(ks)
	return ks
}

// C21 — build errors point at a real location in the reported file: the file is one the
// build read, the byte offsets lie inside it, and line and column are those of the start
// offset.
package c21

import (
	"encoding/json"
	"errors"
	"fmt"
	"sort"
	"strings"
	"testing"
	"unicode/utf8"

	"github.com/open2b/scriggo"
	"pgregory.net/rapid"

	"verif/harness/gen/srcmut"
	"verif/harness/lib/ev"
	"verif/harness/lib/probe"
)

func TestMain(m *testing.M)    { ev.Main(m, "C21") }
func TestReplay(t *testing.T)  { ev.Replay(t) }
func TestRegress(t *testing.T) { ev.Regress(t) }

func describe(c srcmut.Case) string {
	var names []string
	for n := range c.Files {
		if n != "go.mod" {
			names = append(names, n)
		}
	}
	sort.Strings(names)
	var b strings.Builder
	fmt.Fprintf(&b, "\n--- %s from %s, mutation %s, built file %q", c.Kind, c.Origin, c.Mutation, c.Main)
	for _, n := range names {
		s := c.Files[n]
		if len(s) > 1500 {
			s = s[:700] + fmt.Sprintf("…(%d bytes)…", len(s)-1400) + s[len(s)-700:]
		}
		fmt.Fprintf(&b, "\n--- %s\n%q", n, s)
	}
	return b.String()
}

// lineColumn computes the line and column of a byte offset: lines are separated by '\n',
// the column counts characters (bytes that start a UTF-8 sequence) from 1.
func lineColumn(src string, off int) (line, col int, validUTF8 bool) {
	line, col = 1, 1
	start := 0
	for i := 0; i < off && i < len(src); i++ {
		if src[i] == '\n' {
			line++
			start = i + 1
		}
	}
	seg := src[start:min(off, len(src))]
	for i := 0; i < len(seg); i++ {
		if b := seg[i]; b < 128 || b > 191 {
			col++
		}
	}
	return line, col, utf8.ValidString(seg)
}

// judge returns "" when the build error (if any) is consistent; class describes it.
func judge(c srcmut.Case) (msg string, class string) {
	o := probe.Build(c.Input)
	if o.Hung || o.Panic != nil {
		return "", "not-an-error" // C04's business
	}
	if o.Err == nil {
		return "", "built"
	}
	var be *scriggo.BuildError
	if !errors.As(o.Err, &be) {
		return "", "other-error" // e.g. fs errors: no position to check
	}
	path := be.Path()
	src, isFile := c.Files[path]
	if !isFile {
		return fmt.Sprintf("the error names %q, which is not a file of the build (files %v): %v", path, fileNames(c), o.Err), "error"
	}
	read := false
	for _, n := range o.Opened {
		if n == path {
			read = true
		}
	}
	if !read {
		return fmt.Sprintf("the error names %q, which the build never opened (opened %v): %v", path, o.Opened, o.Err), "error"
	}
	pos := be.Position()
	if pos.Start < 0 || pos.Start > len(src) {
		return fmt.Sprintf("start offset %d is outside %q (%d bytes): %v", pos.Start, path, len(src), o.Err), "error"
	}
	if pos.End < pos.Start-1 || pos.End > len(src) {
		return fmt.Sprintf("end offset %d is inconsistent (start %d, file %q of %d bytes): %v", pos.End, pos.Start, path, len(src), o.Err), "error"
	}
	line, col, valid := lineColumn(src, pos.Start)
	if pos.Line != line {
		return fmt.Sprintf("line %d reported for offset %d of %q, which is on line %d: %v", pos.Line, pos.Start, path, line, o.Err), "error"
	}
	if valid && pos.Column != col {
		return fmt.Sprintf("column %d reported for offset %d of %q, which is column %d of line %d: %v", pos.Column, pos.Start, path, col, line, o.Err), "error"
	}
	if !strings.HasPrefix(o.Err.Error(), fmt.Sprintf("%s:%d:%d: ", path, pos.Line, pos.Column)) {
		return fmt.Sprintf("Error() %q does not start with the path and position %s:%d:%d", o.Err.Error(), path, pos.Line, pos.Column), "error"
	}
	return "", "error"
}

func fileNames(c srcmut.Case) []string {
	var ns []string
	for n := range c.Files {
		ns = append(ns, n)
	}
	sort.Strings(ns)
	return ns
}

func init() {
	ev.RegisterReplay("position", func(t ev.TB, raw json.RawMessage) {
		var c srcmut.Case
		if err := json.Unmarshal(raw, &c); err != nil {
			t.Fatalf("bad case: %v", err)
		}
		if msg, _ := judge(c); msg != "" {
			t.Fatalf("%s%s", msg, describe(c))
		}
	})
}

func TestPropErrorPositions(t *testing.T) {
	ev.Check(t, ev.N{Quick: 16000, Thorough: 1500000}, func(t *rapid.T) {
		c := srcmut.Gen(t)
		ev.Eval()
		ev.Journal("position", c)
		msg, class := judge(c)
		ev.Label("outcome_" + class)
		ev.Label("kind_" + c.Kind)
		if class == "error" {
			var key []string
			for n, s := range c.Files {
				key = append(key, n, s)
			}
			sort.Strings(key)
			ev.NontrivialSample(map[string]any{"kind": c.Kind, "origin": c.Origin, "mutation": c.Mutation}, key...)
		}
		if msg != "" {
			ev.Fail(t, "position", c, "%s%s", msg, describe(c))
		}
	})
}

package c21

import (
	"fmt"
	"strings"
	"testing"

	"verif/harness/gen/oddops"
	"verif/harness/gen/srcmut"
	"verif/harness/lib/ev"
	"verif/harness/lib/probe"
)

// TestExhOddOperands: the programs and templates of gen/oddops are mostly rejected by the type
// checker, each through a different error path: every reported position must name a file of the
// build that was read, with an offset inside it and a line and column that agree with the offset.
func TestExhOddOperands(t *testing.T) {
	shard, shards := ev.Shard()
	n := 0
	run := func(c srcmut.Case, stmt string) {
		ev.Eval()
		ev.Journal("position", c)
		msg, class := judge(c)
		ev.Label("oddops_outcome_" + class)
		if class == "error" {
			ev.NontrivialSample(map[string]any{"kind": c.Kind, "statement": stmt}, c.Kind, stmt)
		}
		if msg != "" {
			ev.Fail(t, "position", c, "%s%s", msg, describe(c))
		}
	}
	for ci, ctx := range oddops.Contexts {
		for oi, op := range oddops.Operands {
			n++
			if n%shards != shard {
				continue
			}
			stmt := strings.ReplaceAll(ctx, "%s", op)
			run(srcmut.Case{Input: probe.Input{Kind: "program", Files: map[string]string{"go.mod": "module m\n", "main.go": oddops.Program(ctx, op)}}, Origin: "oddops", Mutation: fmt.Sprintf("ctx %d op %d", ci, oi)}, stmt)
		}
	}
	for ci, ctx := range oddops.TemplateContexts {
		for oi, op := range oddops.Operands {
			n++
			if n%shards != shard {
				continue
			}
			stmt := strings.ReplaceAll(ctx, "%s", op)
			run(srcmut.Case{Input: probe.Input{Kind: "template", Files: map[string]string{"index.html": oddops.TemplateProgram(ctx, op)}, Main: "index.html"}, Origin: "oddops", Mutation: fmt.Sprintf("template ctx %d op %d", ci, oi)}, stmt)
		}
	}
	ev.Exhaustive()
}

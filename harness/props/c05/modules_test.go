package c05

import (
	"encoding/json"
	"fmt"
	"sort"
	"strings"
	"testing"

	"github.com/open2b/scriggo"
	"pgregory.net/rapid"

	"verif/harness/gen/goconc"
	"verif/harness/gen/gopkgs"
	"verif/harness/lib/ev"
	"verif/harness/lib/sg"
)

// ModCase is a program made of several packages, or a concurrent program, run under recover.
type ModCase struct {
	Files map[string]string `json:"files"`
	Ctx   string            `json:"ctx"`
	Go    bool              `json:"allow_go"`
}

func judgeMod(c ModCase) string {
	lastSite = ""
	var p *scriggo.Program
	var err error
	var bp any
	func() {
		defer func() { bp = recover() }()
		p, err = scriggo.Build(sg.Files(c.Files), &scriggo.BuildOptions{Packages: gopkgs.HostPackage(), AllowGoStmt: c.Go})
	}()
	if bp != nil || err != nil {
		ev.Excluded("module_does_not_build")
		return ""
	}
	ctx := ctxOf(c.Ctx)
	r := sg.RunProgram(p, sg.Opts{Ctx: ctx})
	if r.RunPanic != nil {
		lastSite = where(r.Stack)
		return fmt.Sprintf("Run panicked into the host: %v\n at %s", r.RunPanic, lastSite)
	}
	if !allowed(r.RunErr, ctx) {
		return fmt.Sprintf("Run returned %T %v, not nil / *PanicError / the context error", r.RunErr, r.RunErr)
	}
	return ""
}

func describeMod(c ModCase) string {
	var names []string
	for n := range c.Files {
		if n != "go.mod" {
			names = append(names, n)
		}
	}
	sort.Strings(names)
	var b strings.Builder
	for _, n := range names {
		fmt.Fprintf(&b, "\n--- %s\n%s", n, c.Files[n])
	}
	return b.String()
}

func init() {
	ev.RegisterReplay("module", func(t ev.TB, raw json.RawMessage) {
		var c ModCase
		if err := json.Unmarshal(raw, &c); err != nil {
			t.Fatalf("bad case: %v", err)
		}
		if msg := judgeMod(c); msg != "" {
			t.Fatalf("%s%s", msg, describeMod(c))
		}
	})
}

// TestPropModules: programs of several packages (package initialisation, closures over the
// variables of imported packages, a native package) and concurrent programs.
func TestPropModules(t *testing.T) {
	ev.Check(t, ev.N{Quick: 3000, Thorough: 300000}, func(t *rapid.T) {
		var c ModCase
		if rapid.IntRange(0, 2).Draw(t, "kind") == 0 {
			p := goconc.GenOff(t, goconc.Off{"loop-var": true}) // (the racy finding of C14 is a data race, not a host panic)
			c = ModCase{Files: map[string]string{"go.mod": "module m\n", "main.go": p.Src}, Go: true}
			ev.Label("program_concurrent")
		} else {
			m := gopkgs.Gen(t)
			c = ModCase{Files: m.Files}
			ev.Label(fmt.Sprintf("program_packages_%d", len(m.Pkgs)))
		}
		c.Ctx = rapid.SampledFrom(ctxKinds).Draw(t, "ctx")
		ev.Eval()
		ev.NontrivialSample(map[string]string{"kind": "module", "src": describeMod(c)}, describeMod(c), c.Ctx)
		ev.Journal("module", c)
		if msg := judgeMod(c); msg != "" {
			ev.Fail(t, "module", c, "%s%s", msg, describeMod(c))
		}
	})
}

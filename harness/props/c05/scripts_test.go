package c05

import (
	"context"
	"strings"
	"testing"

	"pgregory.net/rapid"

	"verif/harness/gen/goprog"
	"verif/harness/lib/ev"
	"verif/harness/lib/sg"
)

// TestPropScripts: the statements of a generated program, rewritten as a template script block
// ({%% … %%}), run through the template front end: functions become function literals, package
// variables become variables of the block. The oracle is C05's (no panic reaches the host, the
// error is nil, a *PanicError or the context's error). The text printed by the block is also
// compared with the text printed by the program form under the same engine; a difference is
// recorded as an observation (label script_output_differs and a note), not as a violation,
// because no listed property states that equivalence.
func TestPropScripts(t *testing.T) {
	ev.Check(t, ev.N{Quick: 3000, Thorough: 300000}, func(t *rapid.T) {
		p := goprog.Gen(t, nil)
		src := "{%%\n" + goprog.AsScript(p.Src) + "\n%%}\n"
		c := TmplCase{Files: map[string]string{"index.txt": src}, Name: "index.txt", Ctx: rapid.SampledFrom(ctxKinds).Draw(t, "ctx")}
		ev.Eval()
		ev.Label("script_ctx_" + c.Ctx)
		tm, res := sg.BuildTemplate(c.Files, c.Name, sg.Opts{})
		if res.BuildPanic != nil {
			ev.Fail(t, "tmpl", c, "Build of the script form panicked: %v\n--- script:\n%s", res.BuildPanic, src)
			return
		}
		if res.BuildErr != nil {
			// the rewriting is syntactic: a program whose script form does not build is outside this check
			ev.Excluded("script_form_does_not_build")
			ev.Note("script form rejected: %v", res.BuildErr)
			return
		}
		ev.Label("nontrivial")
		ev.NontrivialSample(map[string]string{"kind": "script", "src": src}, src, c.Ctx)
		ev.Journal("tmpl", c)
		if msg := judgeTmpl(c); msg != "" {
			ev.Fail(t, "tmpl", c, "%s\n--- script:\n%s", msg, src)
			return
		}
		if c.Ctx != "background" {
			return
		}
		// observation: same statements, two front ends
		// (the same deadline as the judged runs: a program that does not terminate must not
		// hold the shard, and its output must not fill the memory)
		rt := sg.RunTemplate(tm, sg.Opts{PrintLikeGo: true, Ctx: ctxOf("background")})
		pp, pres := sg.BuildProgram(p.Src, sg.Opts{})
		if pres.BuildErr != nil || pres.BuildPanic != nil {
			return
		}
		rp := sg.RunProgram(pp, sg.Opts{Ctx: ctxOf("background")})
		if rt.RunPanic != nil || rp.RunPanic != nil || rt.RunErr == context.DeadlineExceeded || rp.RunErr == context.DeadlineExceeded {
			return
		}
		if rt.Printed != rp.Printed || (rt.RunErr == nil) != (rp.RunErr == nil) {
			ev.Label("script_output_differs")
			ev.Note("script and program forms differ: program printed %q (err %v), script printed %q (err %v)\n%s", clipS(rp.Printed), rp.RunErr, clipS(rt.Printed), rt.RunErr, p.Src)
		} else {
			ev.Label("script_output_same")
		}
	})
}

func clipS(s string) string {
	if len(s) > 300 {
		return s[:300] + "…"
	}
	return strings.ToValidUTF8(s, "?")
}

// C05 — running compiled code never panics into the host.
package c05

import (
	"context"
	"encoding/json"
	"fmt"
	"reflect"
	"strings"
	"testing"
	"time"

	"github.com/open2b/scriggo"
	"github.com/open2b/scriggo/native"
	"pgregory.net/rapid"

	"verif/harness/gen/goprog"
	"verif/harness/gen/tmpl"
	"verif/harness/gen/vals"
	"verif/harness/lib/ev"
	"verif/harness/lib/sg"
)

func TestMain(m *testing.M)    { ev.Main(m, "C05") }
func TestReplay(t *testing.T)  { ev.Replay(t) }
func TestRegress(t *testing.T) { ev.Regress(t) }

// ProgCase is a program run.
type ProgCase struct {
	Src  string `json:"src"`
	Ctx  string `json:"ctx"`  // none | background | cancelled
	Hook bool   `json:"hook"` // Print hook installed
}

// TmplCase is a template run.
type TmplCase struct {
	Files  map[string]string `json:"files"`
	Name   string            `json:"name"`
	Vars   []string          `json:"vars"`
	Values []vals.TV         `json:"values"`
	Ctx    string            `json:"ctx"`
	MD     bool              `json:"md"` // Markdown converter installed
}

func ctxOf(kind string) context.Context {
	switch kind {
	case "background":
		// a generated program that does not terminate under Scriggo is C01's finding, not C05's:
		// the deadline lets the run end (Run then returns the context's error)
		c, _ := context.WithTimeout(context.Background(), 3*time.Second)
		return c
	case "cancelled":
		c, cancel := context.WithCancel(context.Background())
		cancel()
		return c
	}
	return nil
}

// allowed reports whether err is one of the documented outcomes of Run.
func allowed(err error, ctx context.Context) bool {
	if err == nil {
		return true
	}
	if _, ok := err.(*scriggo.PanicError); ok {
		return true
	}
	if ctx != nil && err == ctx.Err() {
		return true
	}
	return false
}

func where(stack string) string {
	// innermost frame of the repository on the stack: identifies the call site of the host panic
	for _, l := range strings.Split(stack, "\n") {
		if strings.HasPrefix(l, "github.com/open2b/scriggo/internal/") && !strings.Contains(l, "runRecoverable") && !strings.Contains(l, "convertPanic") {
			return strings.TrimSpace(l)
		}
	}
	return "?"
}

var lastSite string

func judgeProg(c ProgCase) string {
	lastSite = ""
	p, res := sg.BuildProgram(c.Src, sg.Opts{})
	if res.BuildPanic != nil || res.BuildErr != nil {
		ev.Excluded("program_does_not_build") // C03/C04's business
		if res.BuildErr != nil {
			m := res.BuildErr.Error()
			if i := strings.LastIndex(m, ": "); i >= 0 {
				m = m[i+2:]
			}
			ev.Label("builderr_" + m)
		}
		return ""
	}
	ctx := ctxOf(c.Ctx)
	r := sg.RunProgram(p, sg.Opts{Ctx: ctx, NoPrint: !c.Hook})
	if r.RunErr == context.DeadlineExceeded {
		ev.Excluded("program_does_not_terminate_within_3s")
		ev.Note("does not terminate under Scriggo: %s", c.Src)
		return ""
	}
	if r.RunPanic != nil {
		lastSite = where(r.Stack)
		return fmt.Sprintf("Run panicked into the host: %v\n at %s", r.RunPanic, lastSite)
	}
	if !allowed(r.RunErr, ctx) {
		return fmt.Sprintf("Run returned %T %v, not nil / *PanicError / the context error", r.RunErr, r.RunErr)
	}
	return ""
}

func judgeTmpl(c TmplCase) string {
	lastSite = ""
	globals := native.Declarations{}
	for _, v := range c.Vars {
		globals[v] = (*any)(nil)
	}
	t, res := sg.BuildTemplate(c.Files, c.Name, sg.Opts{Globals: globals, Markdown: c.MD})
	if res.BuildPanic != nil || res.BuildErr != nil {
		ev.Excluded("template_does_not_build")
		return ""
	}
	vars := map[string]any{}
	for i, v := range c.Vars {
		p := new(any)
		if i < len(c.Values) {
			*p = c.Values[i].Interface()
		}
		vars[v] = p
	}
	ctx := ctxOf(c.Ctx)
	r := sg.RunTemplate(t, sg.Opts{Vars: vars, Ctx: ctx})
	if r.RunPanic != nil {
		lastSite = where(r.Stack)
		return fmt.Sprintf("Run panicked into the host: %v\n at %s", r.RunPanic, lastSite)
	}
	if r.RunErr != nil {
		if _, ok := r.RunErr.(*scriggo.PanicError); ok {
			return ""
		}
		if ctx != nil && r.RunErr == ctx.Err() {
			return ""
		}
		// a show error ("cannot show …", converter errors) is returned as a plain error: documented for out errors
		return ""
	}
	return ""
}

func init() {
	ev.RegisterReplay("prog", func(t ev.TB, raw json.RawMessage) {
		var c ProgCase
		if err := json.Unmarshal(raw, &c); err != nil {
			t.Fatalf("bad case: %v", err)
		}
		if msg := judgeProg(c); msg != "" {
			t.Fatalf("%s\n--- program:\n%s", msg, c.Src)
		}
	})
	ev.RegisterReplay("tmpl", func(t ev.TB, raw json.RawMessage) {
		var c TmplCase
		if err := json.Unmarshal(raw, &c); err != nil {
			t.Fatalf("bad case: %v", err)
		}
		if msg := judgeTmpl(c); msg != "" {
			t.Fatalf("%s\n--- files: %q", msg, c.Files)
		}
	})
}

func classify(msg string) string { return "" }

var ctxKinds = []string{"background", "background", "background", "cancelled"}

func TestPropPrograms(t *testing.T) {
	ev.Check(t, ev.N{Quick: 6000, Thorough: 600000}, func(t *rapid.T) {
		p := goprog.Gen(t, nil) // every feature on: only the outcome class matters here
		c := ProgCase{Src: p.Src, Ctx: rapid.SampledFrom(ctxKinds).Draw(t, "ctx"), Hook: rapid.IntRange(0, 4).Draw(t, "hook") != 0}
		if !c.Hook {
			c.Hook = true // the default print path writes to the process's stderr; keep the test log readable
		}
		ev.Eval()
		ev.Label("program_ctx_" + c.Ctx)
		faulty := false
		for _, f := range p.Features {
			if strings.HasPrefix(f, "fault_") || f == "recover" || f == "nil_pointer" || f == "nil_map" || f == "div_by_variable" || f == "slice_index" || f == "string_index" || f == "slice_reslice" {
				faulty = true
			}
		}
		if faulty {
			ev.Label("nontrivial")
			ev.NontrivialSample(map[string]string{"kind": "program", "src": p.Src}, p.Src, c.Ctx)
		}
		ev.Journal("prog", c)
		if msg := judgeProg(c); msg != "" {
			if id := classify(msg); id != "" && ev.Known(id) {
				return
			}
			ev.Fail(t, "prog", c, "%s\n--- program:\n%s", msg, c.Src)
		}
	})
}

var ext = map[string]string{"html": "html", "js": "js", "css": "css", "json": "json", "md": "md", "text": "txt"}

// hand-written templates around renderer state: URL attributes with several shows, srcset, empty values
var urlTemplates = []string{
	`<a href="{{ v0 }}{{ v1 }}">x</a>`,
	`<a href="{{ v0 }}?{{ v1 }}{{ v2 }}">x</a>`,
	`<a href="/p?a={{ v0 }}&b={{ v1 }}{{ v2 }}#{{ v0 }}">x</a>`,
	`<a href={{ v0 }}{{ v1 }} title={{ v2 }}>x</a>`,
	`<img srcset="{{ v0 }} 1x, {{ v1 }}{{ v2 }} 2x">`,
	`<form action="{{ v0 }}"><input formaction="{{ v1 }}?{{ v2 }}"></form>`,
	`see http://h.com/{{ v0 }}{{ v1 }}?{{ v2 }} ok`,
	`<a href="?{{ v0 }}{{ v1 }}">x</a><a href="{{ v2 }}">y</a>`,
}

func TestPropTemplates(t *testing.T) {
	opts := vals.Options{MaxDepth: 2, Complex: true, Trusted: true, NonFinite: true, Uintptr: true, Time: true, StructLib: true, ErrorIface: true,
		Strings: []string{"", "?", "&", "x?y=1", "a&b", "#", "/", "é", "\xff", "</script>", "a b", "?&", "%zz", "http://h", "<!--", "<![CDATA[", "-->", "<a href=", "\x00", "*/", "q=1&", "=", "\n"}}
	ev.Check(t, ev.N{Quick: 12000, Thorough: 1200000}, func(t *rapid.T) {
		var c TmplCase
		if rapid.IntRange(0, 3).Draw(t, "url") == 0 {
			src := rapid.SampledFrom(urlTemplates).Draw(t, "urltmpl")
			name := "index.html"
			if strings.HasPrefix(src, "see ") {
				name = "index.md"
			}
			c = TmplCase{Files: map[string]string{name: src}, Name: name, Vars: []string{"v0", "v1", "v2"}}
			ev.Label("url_state_template")
		} else {
			format := rapid.SampledFrom([]string{"html", "html", "html", "js", "css", "json", "md", "text"}).Draw(t, "format")
			doc := tmpl.Gen(t, format, 5, nil)
			name := "index." + ext[format]
			c = TmplCase{Files: map[string]string{name: doc.Src}, Name: name}
			for _, h := range doc.Holes {
				c.Vars = append(c.Vars, h.Var)
			}
			ev.Label("generated_" + format)
		}
		for range c.Vars {
			if c.Name != "" && len(c.Vars) == 3 && rapid.IntRange(0, 4).Draw(t, "urlstr") != 0 {
				// URL-state templates: mostly strings with URL punctuation, incl. the empty string
				c.Values = append(c.Values, vals.TV{T: vals.T{K: "string"}, V: vals.V{S: []byte(rapid.SampledFrom(opts.Strings).Draw(t, "us"))}})
				continue
			}
			c.Values = append(c.Values, vals.Gen(t, opts))
		}
		c.Ctx = rapid.SampledFrom(ctxKinds).Draw(t, "ctx")
		c.MD = rapid.Bool().Draw(t, "md")
		ev.Eval()
		nonString := false
		for _, v := range c.Values {
			if v.T.K != "string" {
				nonString = true
			}
		}
		if nonString || len(c.Vars) >= 2 {
			var ks []string
			for _, v := range c.Values {
				ks = append(ks, v.T.K+":"+reflect.ValueOf(v.V.S).String())
			}
			ev.NontrivialSample(map[string]any{"kind": "template", "files": c.Files, "types": typesOf(c.Values)}, c.Files[c.Name], strings.Join(typesOf(c.Values), ","), strings.Join(ks, "|"))
		}
		ev.Journal("tmpl", c)
		if msg := judgeTmpl(c); msg != "" {
			if id := classify(msg); id != "" && ev.Known(id) {
				return
			}
			ev.Fail(t, "tmpl", c, "%s\n--- files: %q\n--- values: %s", msg, c.Files, showValues(c.Values))
		}
	})
}

func typesOf(vs []vals.TV) []string {
	var out []string
	for _, v := range vs {
		out = append(out, v.T.Type().String())
	}
	return out
}

func showValues(vs []vals.TV) string {
	var out []string
	for _, v := range vs {
		s := fmt.Sprintf("%#v", v.Interface())
		if len(s) > 120 {
			s = s[:120] + "…"
		}
		out = append(out, s)
	}
	return strings.Join(out, " ; ")
}

package c05

import (
	"fmt"
	"strings"
	"testing"

	"verif/harness/gen/oddops"
	"verif/harness/lib/ev"
)

// TestExhOddOperands runs every program and template of gen/oddops that builds (an operand of
// every sort in every expression position): whatever the statement does at run time, Run ends
// with one of the documented outcomes. Programs that do not terminate within the bound of
// judgeProg are counted as excluded there.
func TestExhOddOperands(t *testing.T) {
	shard, shards := ev.Shard()
	n := 0
	for _, ctx := range oddops.Contexts {
		for _, op := range oddops.Operands {
			n++
			if n%shards != shard {
				continue
			}
			c := ProgCase{Src: oddops.Program(ctx, op), Ctx: "background", Hook: true}
			ev.Eval()
			ev.Journal("prog", c)
			if msg := judgeProg(c); msg != "" {
				ev.Fail(t, "prog", c, "%s\n--- statement: %s", msg, strings.ReplaceAll(ctx, "%s", op))
			}
		}
	}
	for _, ctx := range oddops.TemplateContexts {
		for _, op := range oddops.Operands {
			n++
			if n%shards != shard {
				continue
			}
			c := TmplCase{Files: map[string]string{"index.html": oddops.TemplateProgram(ctx, op)}, Name: "index.html", Ctx: "background"}
			ev.Eval()
			ev.Journal("tmpl", c)
			if msg := judgeTmpl(c); msg != "" {
				ev.Fail(t, "tmpl", c, "%s\n--- statement: %s", msg, fmt.Sprint(strings.ReplaceAll(ctx, "%s", op)))
			}
		}
	}
	ev.Exhaustive()
}

// C12 — Run reports Stop, Fatal and unrecovered panics exactly as documented.
package c12

import (
	"encoding/json"
	"errors"
	"fmt"
	"strings"
	"testing"

	"github.com/open2b/scriggo"
	"github.com/open2b/scriggo/native"
	"pgregory.net/rapid"

	"verif/harness/lib/ev"
	"verif/harness/lib/gcref"
)

func TestMain(m *testing.M)    { ev.Main(m, "C12") }
func TestReplay(t *testing.T)  { ev.Replay(t) }
func TestRegress(t *testing.T) { ev.Regress(t) }

// Stmt is a statement of the skeleton language.
type Stmt struct {
	Kind    string `json:"kind"` // mark panic stop fatal call defer recover
	N       int    `json:"n,omitempty"`
	Body    []Stmt `json:"body,omitempty"`    // defer: statements of the deferred closure (mark recover panic stop fatal)
	Closure bool   `json:"closure,omitempty"` // call: through an immediately invoked function literal
	Native  bool   `json:"native,omitempty"`  // call: a native function calls back a function literal that makes the call
}

type Func struct {
	Body []Stmt `json:"body"`
}

// Case: Funcs[0] is main; Funcs[i] may call Funcs[j] only for j > i.
type Case struct {
	Funcs    []Func `json:"funcs"`
	Template bool   `json:"template"` // render as a template ({%% … %%} with macros) instead of a program
}

// ---- rendering

func render(c Case, forGc bool) (src string, panicLine map[int]int) {
	var b strings.Builder
	panicLine = map[int]int{}
	line := 1
	w := func(format string, args ...any) {
		s := fmt.Sprintf(format, args...)
		b.WriteString(s)
		line += strings.Count(s, "\n")
	}
	mark := "host.Mark"
	if forGc {
		mark = "mark"
	}
	w("package main\n\n")
	if !forGc {
		w("import \"host\"\n\n")
	}
	var stmts func(ss []Stmt, ind string, inDefer bool)
	stmts = func(ss []Stmt, ind string, inDefer bool) {
		for _, s := range ss {
			switch s.Kind {
			case "mark":
				w("%s%s(%d)\n", ind, mark, s.N)
			case "panic":
				panicLine[s.N] = line
				w("%spanic(\"p%d\")\n", ind, s.N)
			case "stop":
				w("%shost.Stop(%d)\n", ind, s.N)
			case "fatal":
				w("%shost.Fatal(%d)\n", ind, s.N)
			case "recover":
				if forGc {
					w("%sif r := recover(); r != nil {\n%s\tmark(%d)\n%s} else {\n%s\tmark(%d)\n%s}\n", ind, ind, 1000+s.N, ind, ind, 2000+s.N, ind)
				} else {
					w("%sif r := recover(); r != nil {\n%s\thost.Mark(%d)\n%s} else {\n%s\thost.Mark(%d)\n%s}\n", ind, ind, 1000+s.N, ind, ind, 2000+s.N, ind)
				}
			case "call":
				if s.Native && forGc {
					w("%scallBack(func() {\n%s\tf%d()\n%s})\n", ind, ind, s.N, ind)
				} else if s.Native {
					w("%shost.Call(func() {\n%s\tf%d()\n%s})\n", ind, ind, s.N, ind)
				} else if s.Closure {
					w("%sfunc() {\n%s\tf%d()\n%s}()\n", ind, ind, s.N, ind)
				} else {
					w("%sf%d()\n", ind, s.N)
				}
			case "defer":
				w("%sdefer func() {\n", ind)
				stmts(s.Body, ind+"\t", true)
				w("%s}()\n", ind)
			}
		}
	}
	for i := len(c.Funcs) - 1; i >= 0; i-- {
		name := fmt.Sprintf("f%d", i)
		if i == 0 {
			name = "main"
		}
		w("func %s() {\n", name)
		stmts(c.Funcs[i].Body, "\t", false)
		w("}\n\n")
	}
	if forGc {
		w("func mark(n int) {\n\tprintln(\"m\", n)\n}\n\nfunc callBack(f func()) { f() }\n")
	} else {
		w("var _ = host.Mark\n")
	}
	return b.String(), panicLine
}

// ---- reference model of the call/defer/panic/recover skeleton (Go semantics)

type pan struct {
	val       int
	recovered bool
}

type stopSig struct{ n int }
type fatalSig struct{ n int }

type model struct {
	c     Case
	trace []int
	stack []*pan // panics still on the goroutine's panic stack, oldest first
	steps int
}

// exec runs function i and returns the panic propagating out of it, or nil.
func (m *model) exec(i int) *pan {
	var defers [][]Stmt
	var cur *pan
body:
	for _, s := range m.c.Funcs[i].Body {
		switch s.Kind {
		case "mark":
			m.trace = append(m.trace, s.N)
		case "stop":
			panic(stopSig{s.N})
		case "fatal":
			panic(fatalSig{s.N})
		case "call":
			if p := m.exec(s.N); p != nil {
				cur = p
				break body
			}
		case "defer":
			defers = append(defers, s.Body)
		case "panic":
			cur = &pan{val: s.N}
			m.stack = append(m.stack, cur)
			break body
		}
	}
	for k := len(defers) - 1; k >= 0; k-- {
		recoveredHere := false
	deferred:
		for _, s := range defers[k] {
			switch s.Kind {
			case "mark":
				m.trace = append(m.trace, s.N)
			case "stop":
				panic(stopSig{s.N})
			case "fatal":
				panic(fatalSig{s.N})
			case "recover":
				if cur != nil && !cur.recovered {
					cur.recovered = true
					recoveredHere = true
					m.trace = append(m.trace, 1000+s.N)
				} else {
					m.trace = append(m.trace, 2000+s.N)
				}
			case "panic":
				// a new panic raised by the deferred call: the deferred call ends, unwinding continues with it
				cur = &pan{val: s.N}
				m.stack = append(m.stack, cur)
				recoveredHere = false
				break deferred
			}
		}
		if recoveredHere && cur != nil && cur.recovered {
			// the deferred call returned normally after recovering: panicking stops, the aborted panics go away
			m.stack = m.stack[:0]
			cur = nil
		}
	}
	return cur
}

type expect struct {
	trace   []int
	outcome string // nil | stop | fatal | panic
	n       int    // stop / fatal argument
	chain   []pan  // oldest first
}

func runModel(c Case) (e expect) {
	m := &model{c: c}
	defer func() {
		e.trace = m.trace
		if r := recover(); r != nil {
			switch s := r.(type) {
			case stopSig:
				e.outcome, e.n = "stop", s.n
			case fatalSig:
				e.outcome, e.n = "fatal", s.n
			default:
				panic(r)
			}
		}
	}()
	if p := m.exec(0); p != nil {
		e.outcome = "panic"
		for _, q := range m.stack {
			e.chain = append(e.chain, *q)
		}
		return
	}
	e.outcome = "nil"
	return
}

func chainText(ch []pan) string {
	var b strings.Builder
	for i, p := range ch {
		if i > 0 {
			b.WriteString("\n\tpanic: ")
		}
		fmt.Fprintf(&b, "p%d", p.val)
		if p.recovered {
			b.WriteString(" [recovered]")
		}
	}
	return b.String()
}

func hasNative(c Case) bool {
	var walk func(ss []Stmt) bool
	walk = func(ss []Stmt) bool {
		for _, s := range ss {
			if s.Kind == "stop" || s.Kind == "fatal" || walk(s.Body) {
				return true
			}
		}
		return false
	}
	for _, f := range c.Funcs {
		if walk(f.Body) {
			return true
		}
	}
	return false
}

var stopErrs = map[int]error{}

func stopErr(n int) error {
	if e, ok := stopErrs[n]; ok {
		return e
	}
	e := fmt.Errorf("stop error #%d", n)
	stopErrs[n] = e
	return e
}

type fatalVal struct{ N int }

var lastClass string

func judge(c Case) string {
	if !hasNative(c) {
		gsrc, _ := render(c, true)
		ts, err := gcref.Run([]string{gsrc})
		if err != nil {
			panic("infrastructure: gc reference unavailable: " + err.Error())
		}
		crossCheck(c, ts[0])
	}
	return judgeScriggo(c)
}

// crossCheck validates the reference model against gc (a disagreement is a model bug: infrastructure).
func crossCheck(c Case, t gcref.Transcript) {
	want := runModel(c)
	gsrc, _ := render(c, true)
	ts := []gcref.Transcript{t}
	{
		var mt strings.Builder
		for _, n := range want.trace {
			fmt.Fprintf(&mt, "m %d\n", n)
		}
		gp := ts[0].Panic
		gp = strings.ReplaceAll(gp, " [recovered, repanicked]", " [recovered]")
		if ts[0].BuildErr != "" || ts[0].Out != mt.String() || gp != chainText(want.chain) {
			panic(fmt.Sprintf("infrastructure: the reference model disagrees with gc (model bug).\nmodel trace %q chain %q\ngc out %q panic %q builderr %q\n%s", mt.String(), chainText(want.chain), ts[0].Out, ts[0].Panic, ts[0].BuildErr, gsrc))
		}
	}
}

func judgeScriggo(c Case) string {
	lastClass = ""
	want := runModel(c)
	src, panicLine := render(c, false)
	var trace []int
	host := native.Package{Name: "host", Declarations: native.Declarations{
		"Mark":  func(n int) { trace = append(trace, n) },
		"Stop":  func(env native.Env, n int) { env.Stop(stopErr(n)) },
		"Fatal": func(env native.Env, n int) { env.Fatal(fatalVal{n}) },
		"Call":  func(f func()) { f() },
	}}
	prog, err := scriggo.Build(scriggo.Files{"main.go": []byte(src)}, &scriggo.BuildOptions{Packages: native.Packages{"host": host}})
	if err != nil {
		return fmt.Sprintf("program does not build: %v\n%s", err, src)
	}
	var runErr error
	var hostPanic any
	func() {
		defer func() { hostPanic = recover() }()
		runErr = prog.Run(nil)
	}()
	show := func() string {
		return fmt.Sprintf("\n trace %v (want %v)\n--- program:\n%s", trace, want.trace, src)
	}
	if fmt.Sprint(trace) != fmt.Sprint(want.trace) {
		lastClass = "trace"
		return "interpreted code ran differently from the Go semantics of the skeleton" + show()
	}
	switch want.outcome {
	case "nil":
		if hostPanic != nil || runErr != nil {
			return fmt.Sprintf("Run should return nil, got err=%v panic=%v", runErr, hostPanic) + show()
		}
	case "stop":
		if hostPanic != nil {
			return fmt.Sprintf("Stop made Run panic: %v", hostPanic) + show()
		}
		if runErr != stopErr(want.n) {
			return fmt.Sprintf("Run returned %v (%T), want the error given to Stop itself (%v)", runErr, runErr, stopErr(want.n)) + show()
		}
	case "fatal":
		if hostPanic == nil {
			return fmt.Sprintf("Fatal did not make Run panic; Run returned %v", runErr) + show()
		}
		if hostPanic != any(fatalVal{want.n}) {
			return fmt.Sprintf("Run panicked with %v (%T), want the value given to Fatal %v", hostPanic, hostPanic, fatalVal{want.n}) + show()
		}
	case "panic":
		if hostPanic != nil {
			lastClass = "host-panic"
			return fmt.Sprintf("unrecovered panic reached the host: %v", hostPanic) + show()
		}
		var pe *scriggo.PanicError
		if !errors.As(runErr, &pe) {
			return fmt.Sprintf("Run returned %v (%T), want a *PanicError", runErr, runErr) + show()
		}
		if got := strings.TrimRight(pe.Error(), "\n"); got != chainText(want.chain) {
			lastClass = "chain-text"
			return fmt.Sprintf("PanicError.Error() = %q, want %q", got, chainText(want.chain)) + show()
		}
		// structured chain: latest panic first, Next towards the earlier ones, nil at the end
		p := pe
		for i := len(want.chain) - 1; i >= 0; i-- {
			if p == nil {
				return fmt.Sprintf("chain ends after %d element(s), want %d", len(want.chain)-1-i, len(want.chain)) + show()
			}
			w := want.chain[i]
			if p.Message() != any(fmt.Sprintf("p%d", w.val)) || p.Recovered() != w.recovered || p.String() != fmt.Sprintf("p%d", w.val) {
				return fmt.Sprintf("chain element %d: message %v recovered %v, want p%d recovered %v", i, p.Message(), p.Recovered(), w.val, w.recovered) + show()
			}
			if pos := p.Position(); pos.Line != panicLine[w.val] || p.Path() == "" {
				lastClass = "position"
				return fmt.Sprintf("chain element p%d: Path %q Position %v, want a non-empty path and line %d (the line of its panic call)", w.val, p.Path(), pos, panicLine[w.val]) + show()
			}
			var next *scriggo.PanicError
			func() {
				defer func() {
					if e := recover(); e != nil {
						next = nil
					}
				}()
				next = p.Next()
			}()
			p = next
		}
		if p != nil {
			return "Next() of the oldest panic is not nil" + show()
		}
	}
	return ""
}

func init() {
	ev.RegisterReplay("report", func(t ev.TB, raw json.RawMessage) {
		var c Case
		if err := json.Unmarshal(raw, &c); err != nil {
			t.Fatalf("bad case: %v", err)
		}
		if msg := judge(c); msg != "" {
			t.Fatalf("%s", msg)
		}
	})
}

// ---- generator

type g struct {
	t       *rapid.T
	next    int
	natives bool
}

func (g *g) id() int { g.next++; return g.next }

func (g *g) deferBody() []Stmt {
	var b []Stmt
	n := rapid.IntRange(1, 3).Draw(g.t, "ndefer")
	for i := 0; i < n; i++ {
		switch k := rapid.IntRange(0, 9).Draw(g.t, "dk"); {
		case k <= 3:
			b = append(b, Stmt{Kind: "mark", N: g.id()})
		case k <= 6:
			b = append(b, Stmt{Kind: "recover", N: g.id()})
		case k == 7:
			b = append(b, Stmt{Kind: "panic", N: g.id()})
			return b
		case k == 8 && g.natives:
			b = append(b, Stmt{Kind: rapid.SampledFrom([]string{"stop", "fatal"}).Draw(g.t, "dnative"), N: g.id()})
			return b
		default:
			b = append(b, Stmt{Kind: "mark", N: g.id()})
		}
	}
	return b
}

func (g *g) body(i, nfuncs, depth int) []Stmt {
	var b []Stmt
	n := rapid.IntRange(1, 6).Draw(g.t, "nstmts")
	for k := 0; k < n; k++ {
		switch c := rapid.IntRange(0, 11).Draw(g.t, "sk"); {
		case c <= 3:
			b = append(b, Stmt{Kind: "mark", N: g.id()})
		case c <= 6:
			b = append(b, Stmt{Kind: "defer", Body: g.deferBody()})
		case c <= 8:
			if i+1 < nfuncs {
				b = append(b, Stmt{Kind: "call", N: rapid.IntRange(i+1, nfuncs-1).Draw(g.t, "callee"), Closure: rapid.IntRange(0, 3).Draw(g.t, "viaclosure") == 0, Native: rapid.IntRange(0, 4).Draw(g.t, "vianative") == 0})
			}
		case c == 9:
			b = append(b, Stmt{Kind: "panic", N: g.id()})
			return b
		case c == 10 && g.natives:
			b = append(b, Stmt{Kind: rapid.SampledFrom([]string{"stop", "fatal"}).Draw(g.t, "native"), N: g.id()})
			return b
		default:
			b = append(b, Stmt{Kind: "mark", N: g.id()})
		}
	}
	return b
}

func genCase(t *rapid.T) Case {
	gg := &g{t: t, natives: rapid.Bool().Draw(t, "natives")}
	nf := rapid.IntRange(1, 4).Draw(t, "nfuncs")
	c := Case{}
	for i := 0; i < nf; i++ {
		c.Funcs = append(c.Funcs, Func{Body: gg.body(i, nf, 0)})
	}
	return c
}

func classify(c Case, msg string) string { return "" }

func TestPropReporting(t *testing.T) {
	ev.Check(t, ev.N{Quick: 60, Thorough: 2400}, func(t *rapid.T) {
		n := rapid.IntRange(20, 40).Draw(t, "ncases")
		cases := make([]Case, n)
		var gsrcs []string
		var gidx []int
		for i := range cases {
			cases[i] = genCase(t)
			if !hasNative(cases[i]) && i%3 == 0 { // the model is cross-checked with gc on a third of the native-free cases
				src, _ := render(cases[i], true)
				gsrcs = append(gsrcs, src)
				gidx = append(gidx, i)
			}
		}
		ts, err := gcref.Run(gsrcs)
		if err != nil {
			panic("infrastructure: gc reference unavailable: " + err.Error())
		}
		for k, i := range gidx {
			crossCheck(cases[i], ts[k])
			ev.Label("model_cross_checked_with_gc")
		}
		for _, c := range cases {
			ev.Eval()
			want := runModel(c)
			ev.Label("outcome_" + want.outcome)
			depthNative := false
			if want.outcome == "stop" || want.outcome == "fatal" {
				depthNative = len(c.Funcs) > 1
			}
			if len(want.chain) >= 2 || depthNative || want.outcome == "panic" && len(want.trace) > 0 {
				b, _ := json.Marshal(c)
				src, _ := render(c, false)
				ev.NontrivialSample(map[string]any{"program": src, "expected_outcome": want.outcome, "expected_chain": chainText(want.chain), "expected_trace": want.trace}, string(b))
				if len(want.chain) >= 2 {
					ev.Label("chain_of_2_or_more")
				}
			}
			ev.Journal("report", c)
			if msg := judgeScriggo(c); msg != "" {
				if id := classify(c, msg); id != "" && ev.Known(id) {
					continue
				}
				ev.Fail(t, "report", c, "%s", msg)
			}
		}
	})
}

// C22 — native package and importer lookups follow their documented contracts.
package c22

import (
	"encoding/json"
	"errors"
	"fmt"
	"sort"
	"strings"
	"testing"

	"github.com/open2b/scriggo/native"
	"pgregory.net/rapid"

	"verif/harness/lib/ev"
)

func TestMain(m *testing.M)    { ev.Main(m, "C22") }
func TestReplay(t *testing.T)  { ev.Replay(t) }
func TestRegress(t *testing.T) { ev.Regress(t) }

// Pkg is a serialisable package tree: a leaf (Decls) or a combination (Kids).
type Pkg struct {
	Name  string         `json:"name"`
	Leaf  bool           `json:"leaf"`
	Decls map[string]int `json:"decls,omitempty"` // value <0 means a nil-valued declaration
	Kids  []Pkg          `json:"kids,omitempty"`
	ByPtr bool           `json:"by_ptr,omitempty"`
}

func (p Pkg) build() native.ImportablePackage {
	if p.Leaf {
		d := native.Declarations{}
		for k, v := range p.Decls {
			if v < 0 {
				d[k] = nil
			} else {
				d[k] = v
			}
		}
		return native.Package{Name: p.Name, Declarations: d}
	}
	var c native.CombinedPackage
	for _, k := range p.Kids {
		c = append(c, k.build())
	}
	return c
}

// leaves returns the leaf packages in combination order.
func (p Pkg) leaves() []Pkg {
	if p.Leaf {
		return []Pkg{p}
	}
	var out []Pkg
	for _, k := range p.Kids {
		out = append(out, k.leaves()...)
	}
	return out
}

func (p Pkg) firstName() string {
	if p.Leaf {
		return p.Name
	}
	if len(p.Kids) == 0 {
		return ""
	}
	return p.Kids[0].firstName()
}

// LookupCase: callback behaviour at call index FailAt (-1 never): "err" | "stop".
type LookupCase struct {
	P      Pkg    `json:"p"`
	FailAt int    `json:"fail_at"`
	Mode   string `json:"mode"`
}

var names = []string{"A", "B", "C", "D", "E", "F"}

func genPkg(t *rapid.T, depth int) Pkg {
	if depth == 0 || rapid.IntRange(0, 2).Draw(t, "leaf") == 0 {
		p := Pkg{Name: rapid.SampledFrom([]string{"p", "q", "r"}).Draw(t, "name"), Leaf: true, Decls: map[string]int{}}
		for _, n := range names {
			switch rapid.IntRange(0, 5).Draw(t, "has") {
			case 0, 1, 2:
			case 3, 4:
				p.Decls[n] = rapid.IntRange(0, 99).Draw(t, "v")
			case 5:
				p.Decls[n] = -1
			}
		}
		return p
	}
	n := rapid.IntRange(0, 4).Draw(t, "nkids")
	p := Pkg{}
	for i := 0; i < n; i++ {
		p.Kids = append(p.Kids, genPkg(t, depth-1))
	}
	return p
}

var errBoom = errors.New("boom")

func judgeLookup(c LookupCase) string {
	pkg := c.P.build()
	leaves := c.P.leaves()
	// --- PackageName
	if got, want := pkg.PackageName(), c.P.firstName(); got != want && (c.P.Leaf || len(c.P.Kids) > 0) {
		return fmt.Sprintf("PackageName = %q, want %q", got, want)
	}
	// --- Lookup: first package whose Lookup is non-nil
	for _, n := range append(names, "Z") {
		var want native.Declaration
		for _, l := range leaves {
			if v, ok := l.Decls[n]; ok && v >= 0 {
				want = v
				break
			}
		}
		if got := pkg.Lookup(n); got != want {
			return fmt.Sprintf("Lookup(%q) = %v, want %v", n, got, want)
		}
	}
	// --- LookupFunc
	first := map[string]int{} // name -> leaf index of first occurrence
	var order []string
	for i, l := range leaves {
		for n := range l.Decls {
			if _, ok := first[n]; !ok {
				first[n] = i
				order = append(order, n)
			}
		}
	}
	type call struct {
		name string
		decl native.Declaration
	}
	var calls []call
	cb := func(name string, decl native.Declaration) error {
		calls = append(calls, call{name, decl})
		if len(calls)-1 == c.FailAt {
			if c.Mode == "stop" {
				return native.StopLookup
			}
			return errBoom
		}
		return nil
	}
	err := pkg.LookupFunc(cb)
	distinct := len(first)
	wantCalls := distinct
	var wantErr error
	if c.FailAt >= 0 && c.FailAt < distinct {
		wantCalls = c.FailAt + 1
		if c.Mode != "stop" {
			wantErr = errBoom
		}
	}
	if len(calls) != wantCalls {
		return fmt.Sprintf("LookupFunc made %d callback calls, want %d (distinct names %d, fail_at %d)", len(calls), wantCalls, distinct, c.FailAt)
	}
	if err != wantErr {
		return fmt.Sprintf("LookupFunc returned %v, want %v", err, wantErr)
	}
	seen := map[string]bool{}
	lastLeaf := 0
	for _, cl := range calls {
		if seen[cl.name] {
			return fmt.Sprintf("callback called twice for %q", cl.name)
		}
		seen[cl.name] = true
		li, ok := first[cl.name]
		if !ok {
			return fmt.Sprintf("callback called for unknown name %q", cl.name)
		}
		var want native.Declaration
		if v := leaves[li].Decls[cl.name]; v >= 0 {
			want = v
		}
		if cl.decl != want {
			return fmt.Sprintf("callback got decl %v for %q, want first occurrence %v", cl.decl, cl.name, want)
		}
		if li < lastLeaf {
			return fmt.Sprintf("callback for %q (package #%d) came after a name of package #%d: packages not visited in order", cl.name, li, lastLeaf)
		}
		lastLeaf = li
	}
	return ""
}

func init() {
	ev.RegisterReplay("lookup", func(t ev.TB, raw json.RawMessage) {
		var c LookupCase
		if err := json.Unmarshal(raw, &c); err != nil {
			t.Fatalf("bad case: %v", err)
		}
		if msg := judgeLookup(c); msg != "" {
			t.Fatalf("%s", msg)
		}
	})
	ev.RegisterReplay("importer", func(t ev.TB, raw json.RawMessage) {
		var c ImpCase
		if err := json.Unmarshal(raw, &c); err != nil {
			t.Fatalf("bad case: %v", err)
		}
		if msg := judgeImporter(c); msg != "" {
			t.Fatalf("%s", msg)
		}
	})
}

func TestPropLookup(t *testing.T) {
	ev.Check(t, ev.N{Quick: 40000, Thorough: 3000000}, func(t *rapid.T) {
		p := genPkg(t, 3)
		c := LookupCase{P: p, FailAt: rapid.IntRange(-1, 7).Draw(t, "fail_at"), Mode: rapid.SampledFrom([]string{"err", "stop"}).Draw(t, "mode")}
		ev.Eval()
		leaves := p.leaves()
		dup := false
		seen := map[string]bool{}
		for _, l := range leaves {
			for n := range l.Decls {
				if seen[n] {
					dup = true
				}
			}
			for n := range l.Decls {
				seen[n] = true
			}
		}
		if p.Leaf {
			ev.Label("single_package")
		} else {
			ev.Label("combined")
		}
		if c.FailAt >= 0 && c.FailAt < len(seen) {
			ev.Label("callback_fails_" + c.Mode)
			if c.FailAt >= 1 && dup && !p.Leaf {
				ev.Label("nontrivial")
				ev.NontrivialSample(c, keyOf(c))
			} else if p.Leaf {
				ev.Nontrivial(keyOf(c))
			}
		}
		if msg := judgeLookup(c); msg != "" {
			ev.Fail(t, "lookup", c, "%s", msg)
		}
	})
}

func keyOf(c any) string { b, _ := json.Marshal(c); return string(b) }

// ---- importers

// Imp is a serialisable importer tree.
type Imp struct {
	Kind string         `json:"kind"`          // "map" | "func" | "combined"
	Map  map[string]int `json:"map,omitempty"` // path -> package id; <0 means a nil entry
	Res  map[string]int `json:"res,omitempty"` // func: path -> 0 (nil,nil) | 1.. package id | -1 error
	Kids []Imp          `json:"kids,omitempty"`
	ID   int            `json:"id"`
}

type ImpCase struct {
	I     Imp      `json:"i"`
	Paths []string `json:"paths"`
}

type fnImp struct {
	id    int
	res   map[string]int
	calls *[]string
}

type impErr struct{ id int }

func (e impErr) Error() string { return fmt.Sprintf("importer %d failed", e.id) }

func pkgOf(id int) native.ImportablePackage {
	return native.Package{Name: fmt.Sprintf("pkg%d", id), Declarations: native.Declarations{"ID": id}}
}

func (f fnImp) Import(path string) (native.ImportablePackage, error) {
	*f.calls = append(*f.calls, fmt.Sprintf("%d:%s", f.id, path))
	switch r := f.res[path]; {
	case r < 0:
		return nil, impErr{f.id}
	case r > 0:
		return pkgOf(r), nil
	}
	return nil, nil
}

func (i Imp) build(calls *[]string) native.Importer {
	switch i.Kind {
	case "map":
		m := native.Packages{}
		for p, id := range i.Map {
			if id < 0 {
				m[p] = nil
			} else {
				m[p] = pkgOf(id)
			}
		}
		return m
	case "func":
		return fnImp{i.ID, i.Res, calls}
	}
	var c native.CombinedImporter
	for _, k := range i.Kids {
		c = append(c, k.build(calls))
	}
	return c
}

// model returns (package id or 0, error id or 0, expected func-importer calls).
func (i Imp) model(path string, calls *[]string) (int, int) {
	switch i.Kind {
	case "map":
		if id, ok := i.Map[path]; ok && id >= 0 {
			return id, 0
		}
		return 0, 0
	case "func":
		*calls = append(*calls, fmt.Sprintf("%d:%s", i.ID, path))
		switch r := i.Res[path]; {
		case r < 0:
			return 0, i.ID
		case r > 0:
			return r, 0
		}
		return 0, 0
	}
	for _, k := range i.Kids {
		if p, e := k.model(path, calls); p != 0 || e != 0 {
			return p, e
		}
	}
	return 0, 0
}

var paths = []string{"a", "b/c", "fmt", "x"}

func genImp(t *rapid.T, depth int, id *int) Imp {
	*id++
	k := rapid.IntRange(0, 3).Draw(t, "kind")
	if depth == 0 && k >= 2 {
		k = 1
	}
	switch k {
	case 0:
		m := Imp{Kind: "map", Map: map[string]int{}, ID: *id}
		for _, p := range paths {
			switch rapid.IntRange(0, 3).Draw(t, "e") {
			case 0:
				m.Map[p] = *id*10 + 1
			case 1:
				if rapid.IntRange(0, 3).Draw(t, "nil") == 0 {
					m.Map[p] = -1
				}
			}
		}
		return m
	case 1:
		f := Imp{Kind: "func", Res: map[string]int{}, ID: *id}
		for _, p := range paths {
			switch rapid.IntRange(0, 4).Draw(t, "r") {
			case 0:
				f.Res[p] = *id*10 + 2
			case 1:
				f.Res[p] = -1
			}
		}
		return f
	}
	c := Imp{Kind: "combined", ID: *id}
	n := rapid.IntRange(0, 4).Draw(t, "n")
	for j := 0; j < n; j++ {
		c.Kids = append(c.Kids, genImp(t, depth-1, id))
	}
	return c
}

func judgeImporter(c ImpCase) string {
	var calls []string
	imp := c.I.build(&calls)
	for _, p := range c.Paths {
		calls = calls[:0]
		var wantCalls []string
		wp, we := c.I.model(p, &wantCalls)
		gp, ge := imp.Import(p)
		gotID := 0
		if gp != nil {
			// a Packages map holding a nil entry returns a nil interface: gp == nil
			if d := gp.Lookup("ID"); d != nil {
				gotID = d.(int)
			} else {
				gotID = -999
			}
		}
		gotErr := 0
		if ge != nil {
			if ie, ok := ge.(impErr); ok {
				gotErr = ie.id
			} else {
				gotErr = -999
			}
		}
		if gotID != wp || gotErr != we {
			return fmt.Sprintf("Import(%q) = (pkg %d, err %d), want (pkg %d, err %d)", p, gotID, gotErr, wp, we)
		}
		if strings.Join(calls, ",") != strings.Join(wantCalls, ",") {
			return fmt.Sprintf("Import(%q) consulted importers %v, want %v", p, calls, wantCalls)
		}
	}
	return ""
}

func TestPropImporter(t *testing.T) {
	ev.Check(t, ev.N{Quick: 20000, Thorough: 1500000}, func(t *rapid.T) {
		id := 0
		c := ImpCase{I: genImp(t, 3, &id), Paths: paths}
		ev.Eval()
		ev.Label("importer_" + c.I.Kind)
		if c.I.Kind == "combined" && len(c.I.Kids) >= 2 {
			hasErr := strings.Contains(keyOf(c), `:-1`)
			if hasErr {
				ev.Label("importer_chain_with_error")
			}
			ev.NontrivialSample(c, keyOf(c))
		}
		if msg := judgeImporter(c); msg != "" {
			ev.Fail(t, "importer", c, "%s", msg)
		}
	})
}

var _ = sort.Strings

// C02 — compile-time constant arithmetic is exact and matches the Go specification.
package c02

import (
	"encoding/json"
	"fmt"
	"go/ast"
	"go/constant"
	"go/parser"
	"go/token"
	"go/types"
	"math"
	"math/big"
	"regexp"
	"strings"
	"testing"

	"github.com/open2b/scriggo"
	"pgregory.net/rapid"

	"verif/harness/lib/ev"
)

func TestMain(m *testing.M)    { ev.Main(m, "C02") }
func TestReplay(t *testing.T)  { ev.Replay(t) }
func TestRegress(t *testing.T) { ev.Regress(t) }

type Case struct {
	Expr string `json:"expr"`
	Type string `json:"type"` // declared type of the constant, "" for untyped
}

func decl(c Case) string {
	if c.Type != "" {
		return "const c " + c.Type + " = " + c.Expr
	}
	return "const c = " + c.Expr
}

// reference evaluates with go/types.
func reference(c Case) (val constant.Value, typ types.Type, err error) {
	src := "package main\n" + decl(c) + "\nfunc main() {}\n"
	fset := token.NewFileSet()
	f, perr := parser.ParseFile(fset, "main.go", src, 0)
	if perr != nil {
		return nil, nil, fmt.Errorf("PARSE: %v", perr)
	}
	info := &types.Info{Defs: map[*ast.Ident]types.Object{}}
	conf := types.Config{Error: func(e error) {
		if err == nil {
			err = e
		}
	}}
	conf.Check("main", fset, []*ast.File{f}, info)
	if err != nil {
		return nil, nil, err
	}
	for id, obj := range info.Defs {
		if id.Name == "c" {
			k := obj.(*types.Const)
			return k.Val(), k.Type(), nil
		}
	}
	return nil, nil, fmt.Errorf("PARSE: constant not found")
}

type outcome struct {
	buildErr error
	panicVal any
	printed  []any
	runErr   error
}

func runScriggo(src string) (o outcome) {
	defer func() {
		if e := recover(); e != nil {
			o.panicVal = e
		}
	}()
	p, err := scriggo.Build(scriggo.Files{"main.go": []byte(src)}, nil)
	if err != nil {
		o.buildErr = err
		return
	}
	o.runErr = p.Run(&scriggo.RunOptions{Print: func(v any) { o.printed = append(o.printed, v) }})
	return
}

// implementation restrictions of the reference that the specification leaves open
var reImplLimit = regexp.MustCompile(`constant (shift|multiplication|addition|subtraction|division|unary) overflow|constant overflow$|excessively large|exponent .* too large`)

var reShiftCount = regexp.MustCompile(`invalid shift count ([0-9]+)(\.0)? \(untyped`)

func bigShiftCount(msg string) bool {
	m := reShiftCount.FindStringSubmatch(msg)
	return m != nil && (len(m[1]) > 4 || m[1] >= "1000" && len(m[1]) == 4)
}

func bigLit(v constant.Value) string { return v.ExactString() }

func judge(c Case) string {
	val, typ, rerr := reference(c)
	if rerr != nil && strings.HasPrefix(rerr.Error(), "PARSE") {
		return "generator produced unparsable source: " + rerr.Error()
	}
	if rerr != nil && bigShiftCount(rerr.Error()) {
		// go/types bounds constant shift counts (about 1074); the specification does not
		ev.Excluded("reference_implementation_limit_shift_count")
		return ""
	}
	if rerr != nil && reImplLimit.MatchString(rerr.Error()) {
		ev.Excluded("reference_implementation_limit_512_bits")
		return ""
	}
	o := runScriggo("package main\n" + decl(c) + "\nfunc main() {}\n")
	if o.panicVal != nil {
		return fmt.Sprintf("Build panicked on %q: %v", decl(c), o.panicVal)
	}
	if rerr != nil {
		if o.buildErr == nil {
			return fmt.Sprintf("Scriggo accepts %q, Go rejects it: %v", decl(c), rerr)
		}
		if _, ok := o.buildErr.(*scriggo.BuildError); !ok {
			return fmt.Sprintf("rejection of %q is %T (%v), not a *BuildError", decl(c), o.buildErr, o.buildErr)
		}
		ev.Label("both_reject")
		return ""
	}
	if o.buildErr != nil {
		if strings.Contains(o.buildErr.Error(), "shift count too large") {
			ev.Excluded("scriggo_implementation_limit_shift_count") // the specification leaves the limit to implementations
			return ""
		}
		return fmt.Sprintf("Scriggo rejects %q (%v), Go accepts it with value %s of type %s", decl(c), o.buildErr, val, typ)
	}
	ev.Label("both_accept")
	// value observations
	b, _ := typ.Underlying().(*types.Basic)
	if b == nil {
		return ""
	}
	var obs []string  // statements
	var want []string // expected printed values, formatted with %v of the expected Go value
	add := func(stmt, w string) { obs = append(obs, stmt); want = append(want, w) }
	untyped := b.Info()&types.IsUntyped != 0
	switch {
	case b.Info()&types.IsBoolean != 0:
		add("print(c)", fmt.Sprint(constant.BoolVal(val)))
	case b.Info()&types.IsString != 0:
		add("print(c)", constant.StringVal(val))
		add("print(len(c))", fmt.Sprint(len(constant.StringVal(val))))
	case b.Info()&types.IsInteger != 0 || untyped && val.Kind() == constant.Int:
		iv := constant.ToInt(val)
		if i, ok := constant.Int64Val(iv); ok {
			if untyped {
				add("print(int64(c))", fmt.Sprint(i))
			} else {
				add("print(int64(c))", fmt.Sprint(i))
			}
		} else if u, ok := constant.Uint64Val(iv); ok {
			add("print(uint64(c))", fmt.Sprint(u))
		}
		add("print(c == "+bigLit(iv)+")", "true")
		add("print(c+1 > "+bigLit(iv)+")", "true")
		// an integer constant divides as an integer, whatever expression it came from (1.0 << 3)
		add("print(c / 3 == "+bigLit(constant.BinaryOp(iv, token.QUO_ASSIGN, constant.MakeInt64(3)))+")", "true")
		if !untyped || untyped && b.Kind() == types.UntypedInt || b.Kind() == types.UntypedRune {
			add("print(c % 7 == "+bigLit(constant.BinaryOp(iv, token.REM, constant.MakeInt64(7)))+")", "true")
		}
	case b.Info()&types.IsFloat != 0 || untyped && val.Kind() == constant.Float:
		fv := constant.ToFloat(val)
		f, _ := constant.Float64Val(fv)
		if b.Kind() == types.Float32 {
			f32, _ := constant.Float32Val(fv)
			add("print(float32(c))", fmt.Sprint(f32))
		} else if !math.IsInf(f, 0) {
			add("print(float64(c))", fmt.Sprint(f))
		}
		add("print(c < 0)", fmt.Sprint(constant.Sign(fv) < 0))
		add("print(c == 0)", fmt.Sprint(constant.Sign(fv) == 0))
		if untyped {
			// exactness: an untyped constant is compared with its exact value written as a
			// quotient of two integral float literals (both sides are exact in Go)
			if num, den := constant.Num(val), constant.Denom(val); num.Kind() == constant.Int && den.Kind() == constant.Int && len(num.ExactString()) < 60 && len(den.ExactString()) < 60 {
				add("print(c == "+num.ExactString()+".0 / "+den.ExactString()+".0)", "true")
				add("print(c*2 - "+num.ExactString()+".0 / "+den.ExactString()+".0 == "+num.ExactString()+".0 / "+den.ExactString()+".0)", "true")
			}
		}
	case b.Info()&types.IsComplex != 0 || untyped && val.Kind() == constant.Complex:
		cv := constant.ToComplex(val)
		re, _ := constant.Float64Val(constant.Real(cv))
		im, _ := constant.Float64Val(constant.Imag(cv))
		if b.Kind() == types.Complex64 {
			re32, _ := constant.Float32Val(constant.Real(cv))
			im32, _ := constant.Float32Val(constant.Imag(cv))
			add("print(complex64(c))", fmt.Sprint(complex(re32, im32)))
		} else if !math.IsInf(re, 0) && !math.IsInf(im, 0) {
			add("print(complex128(c))", fmt.Sprint(complex(re, im)))
		}
	}
	if len(obs) == 0 {
		return ""
	}
	src := "package main\n" + decl(c) + "\nfunc main() {\n" + strings.Join(obs, "\n") + "\n}\n"
	// the observation program must itself be valid Go
	if _, _, err := referenceSrc(src); err != nil {
		ev.Excluded("observation_not_valid_go")
		return ""
	}
	o = runScriggo(src)
	if o.panicVal != nil {
		return fmt.Sprintf("panic while building/running observations of %q: %v", decl(c), o.panicVal)
	}
	if o.buildErr != nil {
		return fmt.Sprintf("observation program of %q is valid Go but Scriggo rejects it: %v\n%s", decl(c), o.buildErr, src)
	}
	if o.runErr != nil {
		return fmt.Sprintf("observation program of %q fails at run time: %v", decl(c), o.runErr)
	}
	if len(o.printed) != len(want) {
		return fmt.Sprintf("observation program of %q printed %d values, want %d", decl(c), len(o.printed), len(want))
	}
	for i := range want {
		if got := fmt.Sprint(o.printed[i]); got != want[i] {
			return fmt.Sprintf("%q: Go's exact value is %s (type %s); `%s` gives %s, want %s", decl(c), val.ExactString(), typ, obs[i], got, want[i])
		}
	}
	ev.Label("value_checked")
	return ""
}

func referenceSrc(src string) (constant.Value, types.Type, error) {
	fset := token.NewFileSet()
	f, perr := parser.ParseFile(fset, "main.go", src, 0)
	if perr != nil {
		return nil, nil, perr
	}
	var err error
	conf := types.Config{Error: func(e error) {
		if err == nil {
			err = e
		}
	}}
	conf.Check("main", fset, []*ast.File{f}, nil)
	return nil, nil, err
}

func init() {
	ev.RegisterReplay("const", func(t ev.TB, raw json.RawMessage) {
		var c Case
		if err := json.Unmarshal(raw, &c); err != nil {
			t.Fatalf("bad case: %v", err)
		}
		if msg := judge(c); msg != "" {
			t.Fatalf("%s", msg)
		}
	})
}

// ---- generator

var intLits = []string{"0", "1", "2", "3", "7", "8", "10", "127", "128", "255", "256", "32767", "32768", "65535", "65536", "2147483647", "2147483648", "4294967295", "4294967296", "9223372036854775807", "9223372036854775808", "18446744073709551615", "18446744073709551616", "0x7f", "0xff", "0b101", "0o17", "017", "1_000", "340282366920938463463374607431768211455", "340282366920938463463374607431768211456", "63", "64", "31", "32", "15", "16", "100", "9007199254740991", "9007199254740992", "9007199254740993"}
var floatLits = []string{"0.0", "1.0", "0.5", "1.5", "2.5", "1e3", "1e-3", "1e308", "1.7976931348623157e308", "1.8e308", "1e309", "5e-324", "4.9e-324", "1e-400", "3.4028234663852886e38", "3.5e38", "1e1000", "0x1p-1074", "0x1p10", "1e19", "9223372036854775807.0", "127.0", "128.0", "0.1", "1e100"}
var otherLits = []string{"'a'", "'\\x00'", "'\\u00e9'", "'\\U0010FFFF'", "\"\"", "\"abc\"", "\"é\"", "true", "false", "1i", "2.5i", "0i", "1e308i", "'0'"}
var basicTypes = []string{"int", "int8", "int16", "int32", "int64", "uint", "uint8", "uint16", "uint32", "uint64", "uintptr", "float32", "float64", "complex64", "complex128", "string", "bool", "rune", "byte"}
var binOps = []string{"+", "-", "*", "/", "%", "&", "|", "^", "&^", "<<", ">>", "==", "!=", "<", "<=", ">", ">=", "&&", "||"}
var unOps = []string{"-", "+", "^", "!"}

func genLit(t *rapid.T) string {
	switch rapid.IntRange(0, 9).Draw(t, "litkind") {
	case 0, 1, 2, 3, 4:
		return rapid.SampledFrom(intLits).Draw(t, "int")
	case 5, 6, 7:
		return rapid.SampledFrom(floatLits).Draw(t, "float")
	}
	return rapid.SampledFrom(otherLits).Draw(t, "other")
}

func genExpr(t *rapid.T, depth int) string {
	if depth <= 0 || rapid.IntRange(0, 9).Draw(t, "leaf") < 3 {
		return genLit(t)
	}
	switch rapid.IntRange(0, 11).Draw(t, "node") {
	case 0, 1, 2, 3, 4, 5:
		op := rapid.SampledFrom(binOps).Draw(t, "op")
		l := genExpr(t, depth-1)
		var r string
		if op == "<<" || op == ">>" {
			if rapid.IntRange(0, 3).Draw(t, "shlit") != 0 {
				r = rapid.SampledFrom([]string{"0", "1", "7", "8", "31", "32", "63", "64", "65", "100", "127", "200", "-1", "1.0", "2.5", "uint(3)", "int8(4)", "'a'"}).Draw(t, "count")
			} else {
				r = genExpr(t, depth-1)
			}
		} else {
			r = genExpr(t, depth-1)
		}
		return "(" + l + " " + op + " " + r + ")"
	case 6, 7:
		return rapid.SampledFrom(unOps).Draw(t, "uop") + "(" + genExpr(t, depth-1) + ")"
	case 8, 9:
		return rapid.SampledFrom(basicTypes).Draw(t, "conv") + "(" + genExpr(t, depth-1) + ")"
	case 10:
		switch rapid.IntRange(0, 3).Draw(t, "builtin") {
		case 0:
			return "len(" + rapid.SampledFrom([]string{"\"\"", "\"abc\"", "\"é日本\""}).Draw(t, "s") + ")"
		case 1:
			return "real(" + genExpr(t, depth-1) + ")"
		case 2:
			return "imag(" + genExpr(t, depth-1) + ")"
		}
		return "complex(" + genExpr(t, depth-1) + ", " + genExpr(t, depth-1) + ")"
	}
	return genLit(t)
}

// ---- kind-directed generator (used while the known findings about kind mixing are listed):
// expressions are built for an intended kind, so integer-only operators get integer operands,
// conversions to integer types get integral values, shift counts are small non-negative integers,
// and no complex, tiny-float or int-by-typed-float-division construct arises. Rejections still
// arise from overflow of typed operands and declarations, division by zero and a few deliberate
// kind mismatches.

var intTypes = []string{"int", "int8", "int16", "int32", "int64", "uint", "uint8", "uint16", "uint32", "uint64", "uintptr", "rune", "byte"}
var plainFloatLits = []string{"0.0", "1.0", "0.5", "1.5", "2.5", "1e3", "1e-3", "1e308", "1.7976931348623157e308", "1.8e308", "1e309", "3.4028234663852886e38", "3.5e38", "0x1p10", "1e19", "127.0", "128.0", "0.1", "1e100", "1e-300", "9007199254740992.0", "0.25"}
var mismatches = []string{"(1 + \"a\")", "(true + 1)", "(\"a\" < 1)", "!(1)", "-(\"s\")", "(\"a\" * 2)", "(true && 1)", "(1 == \"1\")", "(\"a\" - \"b\")", "len(5)", "(1 / 0)", "(1.5 / 0.0)", "(7 % 0)", "int8(200)", "uint8(-1)", "uint(1 << 64)", "string(1.5)", "bool(1)", "int(\"1\")"}

func genInt(t *rapid.T, d int) string {
	if d <= 0 || rapid.IntRange(0, 9).Draw(t, "ileaf") < 3 {
		if rapid.IntRange(0, 6).Draw(t, "rune") == 0 {
			return rapid.SampledFrom([]string{"'a'", "'\\x00'", "'\\u00e9'", "'\\U0010FFFF'", "'0'"}).Draw(t, "runelit")
		}
		return rapid.SampledFrom(intLits).Draw(t, "ilit")
	}
	switch rapid.IntRange(0, 9).Draw(t, "inode") {
	case 0, 1, 2, 3, 4:
		op := rapid.SampledFrom([]string{"+", "-", "*", "/", "%", "&", "|", "^", "&^"}).Draw(t, "iop")
		return "(" + genInt(t, d-1) + " " + op + " " + genInt(t, d-1) + ")"
	case 5:
		op := rapid.SampledFrom([]string{"<<", ">>"}).Draw(t, "shop")
		return "(" + genInt(t, d-1) + " " + op + " " + rapid.SampledFrom([]string{"0", "1", "7", "8", "31", "32", "63", "64", "65", "100", "127", "200", "uint(3)", "int8(4)", "'a'"}).Draw(t, "shcount") + ")"
	case 6:
		return rapid.SampledFrom([]string{"-", "+", "^"}).Draw(t, "iuop") + "(" + genInt(t, d-1) + ")"
	case 7, 8:
		return rapid.SampledFrom(intTypes).Draw(t, "iconv") + "(" + genInt(t, d-1) + ")"
	}
	return "len(" + rapid.SampledFrom([]string{"\"\"", "\"abc\"", "\"é日本\""}).Draw(t, "lens") + ")"
}

func genFloat(t *rapid.T, d int) string {
	if d <= 0 || rapid.IntRange(0, 9).Draw(t, "fleaf") < 3 {
		return rapid.SampledFrom(plainFloatLits).Draw(t, "flit")
	}
	switch rapid.IntRange(0, 7).Draw(t, "fnode") {
	case 0, 1, 2:
		op := rapid.SampledFrom([]string{"+", "-", "*", "/"}).Draw(t, "fop")
		return "(" + genFloat(t, d-1) + " " + op + " " + genFloat(t, d-1) + ")"
	case 3:
		// untyped integer mixed into float arithmetic, on either side
		op := rapid.SampledFrom([]string{"+", "-", "*", "/"}).Draw(t, "fmop")
		if rapid.Bool().Draw(t, "fmside") {
			return "(" + genFloat(t, d-1) + " " + op + " " + rapid.SampledFrom(intLits).Draw(t, "fmint") + ")"
		}
		return "(" + rapid.SampledFrom(intLits).Draw(t, "fmint") + " " + op + " " + genFloat(t, d-1) + ")"
	case 4:
		return rapid.SampledFrom([]string{"-", "+"}).Draw(t, "fuop") + "(" + genFloat(t, d-1) + ")"
	case 5:
		return rapid.SampledFrom([]string{"float32", "float64"}).Draw(t, "fconv") + "(" + genFloat(t, d-1) + ")"
	case 6:
		return rapid.SampledFrom([]string{"float32", "float64"}).Draw(t, "fconvi") + "(" + genInt(t, d-1) + ")"
	}
	return rapid.SampledFrom(plainFloatLits).Draw(t, "flit2")
}

func genBoolE(t *rapid.T, d int) string {
	if d <= 0 {
		return rapid.SampledFrom([]string{"true", "false"}).Draw(t, "blit")
	}
	switch rapid.IntRange(0, 5).Draw(t, "bnode") {
	case 0, 1:
		op := rapid.SampledFrom([]string{"==", "!=", "<", "<=", ">", ">="}).Draw(t, "cmp")
		if rapid.Bool().Draw(t, "cmpint") {
			return "(" + genInt(t, d-1) + " " + op + " " + genInt(t, d-1) + ")"
		}
		return "(" + genFloat(t, d-1) + " " + op + " " + genFloat(t, d-1) + ")"
	case 2:
		return "(" + genBoolE(t, d-1) + " " + rapid.SampledFrom([]string{"&&", "||", "==", "!="}).Draw(t, "bop") + " " + genBoolE(t, d-1) + ")"
	case 3:
		return "!(" + genBoolE(t, d-1) + ")"
	case 4:
		op := rapid.SampledFrom([]string{"==", "!=", "<", ">="}).Draw(t, "scmp")
		return "(" + genStrE(t, d-1) + " " + op + " " + genStrE(t, d-1) + ")"
	}
	return rapid.SampledFrom([]string{"true", "false"}).Draw(t, "blit2")
}

func genStrE(t *rapid.T, d int) string {
	if d <= 0 || rapid.Bool().Draw(t, "sleaf") {
		return rapid.SampledFrom([]string{"\"\"", "\"abc\"", "\"é\"", "\"a\\x00b\"", "`raw`"}).Draw(t, "slit")
	}
	switch rapid.IntRange(0, 2).Draw(t, "snode") {
	case 0:
		return "(" + genStrE(t, d-1) + " + " + genStrE(t, d-1) + ")"
	case 1:
		return "string(" + rapid.SampledFrom([]string{"65", "'é'", "0x10FFFF", "0x110000", "-1", "rune(66)"}).Draw(t, "srune") + ")"
	}
	return "string(" + genStrE(t, d-1) + ")"
}

// genKinded returns an expression and an admissible declared type ("" = untyped).
func genKinded(t *rapid.T, d int) (string, []string) {
	if rapid.IntRange(0, 14).Draw(t, "mismatch") == 0 {
		return rapid.SampledFrom(mismatches).Draw(t, "mm"), []string{"int", "string", "bool", "float64"}
	}
	switch rapid.IntRange(0, 9).Draw(t, "kind") {
	case 0, 1, 2, 3, 4:
		return genInt(t, d), append(append([]string{}, intTypes...), "float64", "float32")
	case 5, 6, 7:
		return genFloat(t, d), []string{"float32", "float64"}
	case 8:
		return genBoolE(t, d), []string{"bool"}
	}
	return genStrE(t, d), []string{"string"}
}

var kindFindings = []string{"C02-typed-float-constants-not-rounded", "C02-typed-int-const-keeps-float-kind", "C02-complex-constants", "C02-integer-op-on-float-constant", "C02-float-truncation-accepted", "C02-invalid-shift-count-accepted", "C02-tiny-float-constants"}

func strictMode() bool {
	for _, id := range kindFindings {
		if ev.IsKnown(id) {
			return true
		}
	}
	return false
}

func nontrivial(c Case) (bool, string) {
	val, typ, err := reference(c)
	if err != nil {
		s := err.Error()
		for _, k := range []string{"overflow", "truncated", "division by zero", "shift", "cannot convert", "mismatched", "not defined"} {
			if strings.Contains(s, k) {
				return true, "reject:" + k
			}
		}
		return false, ""
	}
	if val.Kind() == constant.Int {
		if _, ok := constant.Int64Val(val); !ok {
			return true, "big-int"
		}
	}
	if val.Kind() == constant.Float {
		f, _ := constant.Float64Val(val)
		if math.IsInf(f, 0) || f != 0 && math.Abs(f) < 1e-300 {
			return true, "beyond-float64"
		}
	}
	if strings.Count(c.Expr, "(") >= 3 {
		return true, "deep:" + typ.String()
	}
	return false, ""
}

func TestPropConst(t *testing.T) {
	ev.Check(t, ev.N{Quick: 20000, Thorough: 2000000}, func(t *rapid.T) {
		var c Case
		if strictMode() {
			e, tys := genKinded(t, rapid.IntRange(1, 4).Draw(t, "depth"))
			c.Expr = e
			if rapid.IntRange(0, 3).Draw(t, "typed") == 0 {
				c.Type = rapid.SampledFrom(tys).Draw(t, "ctype")
			}
			ev.Label("kind_directed")
		} else {
			c = Case{Expr: genExpr(t, rapid.IntRange(1, 4).Draw(t, "depth"))}
			if rapid.IntRange(0, 3).Draw(t, "typed") == 0 {
				c.Type = rapid.SampledFrom(basicTypes).Draw(t, "ctype")
			}
		}
		ev.Eval()
		if nt, class := nontrivial(c); nt {
			ev.Label("nontrivial")
			ev.Label("class_" + strings.SplitN(class, ":", 3)[0])
			ev.NontrivialSample(map[string]string{"decl": decl(c), "class": class}, decl(c))
		}
		if msg := judge(c); msg != "" {
			if id := classify(c, msg); id != "" && ev.Known(id) {
				return
			}
			ev.Fail(t, "const", c, "%s", msg)
		}
	})
}

var (
	reComplexExpr = regexp.MustCompile(`[0-9.]i\b|complex|real\(|imag\(`)
	reTinyTerm    = regexp.MustCompile(`1e-300|1e-400|4\.9e-324|5e-324|0x1p-1074`)
	reTiny        = regexp.MustCompile(`1e-400|4\.9e-324|5e-324|0x1p-1074`)
	reFloatLit    = regexp.MustCompile(`[0-9]\.[0-9]|[0-9]e[0-9+-]|0x[0-9a-f.]+p`)
	reHugeFloat   = regexp.MustCompile(`1e308|1\.8e308|1\.7976931348623157e308|1e100|3\.4028234663852886e38|3\.5e38|1e19|340282366920938463463374607431768211455`)
	reIntOp       = regexp.MustCompile(`operator (%|&|\||\^|&\^) not defined on|must be integer|operator (<|<=|>|>=) not defined on`)
)

// tinyValue reports whether the exact value of c is a non-zero float below the float64 range.
func tinyValue(c Case) bool {
	v, _, err := reference(c)
	if err != nil || v.Kind() != constant.Float || constant.Sign(v) == 0 {
		return false
	}
	f, _ := constant.Float64Val(v)
	return f == 0
}

var reExactRat = regexp.MustCompile(`Go's exact value is -?[0-9]+/([0-9]+) \(type untyped float\)`)

// nonDyadic reports whether the failure is about an untyped float constant whose exact value is
// a rational that no binary floating point number holds (denominator not a power of two):
// Scriggo computes untyped float constants with 512-bit floats and not exactly.
func nonDyadic(msg string) bool {
	m := reExactRat.FindStringSubmatch(msg)
	if m == nil {
		return false
	}
	d, ok := new(big.Int).SetString(m[1], 10)
	if !ok || d.Sign() <= 0 {
		return false
	}
	return new(big.Int).And(d, new(big.Int).Sub(d, big.NewInt(1))).Sign() != 0
}

// classify maps a failure to a recorded finding by the construct involved.
func classify(c Case, msg string) string {
	accepts := strings.HasPrefix(msg, "Scriggo accepts")
	switch {
	case reComplexExpr.MatchString(c.Expr) || strings.HasPrefix(c.Type, "complex"):
		return "C02-complex-constants"
	case strings.Contains(msg, "observation program") && strings.Contains(msg, "operator % not defined on") && reFloatLit.MatchString(c.Expr):
		return "C02-typed-int-const-keeps-float-kind"
	case reTinyTerm.MatchString(c.Expr) && strings.ContainsAny(c.Expr, "+-") && strings.Contains(msg, "Go's exact value"):
		// a term far below the 512 bits of precision is lost before the result is rounded
		// (9007199254740993 + 0x1p-1074 is a tie for float64 without the tiny term)
		return "C02-untyped-float-precision"
	case (strings.HasPrefix(c.Type, "float") || strings.Contains(c.Expr, "float32(") || strings.Contains(c.Expr, "float64(")) && strings.Contains(msg, "Go's exact value") && (!strings.Contains(c.Expr, "/") || c.Type == "float32" || strings.Contains(c.Expr, "float32(") || strings.Contains(msg, "exact value is 0 ")):
		return "C02-typed-float-constants-not-rounded"
	case strings.HasPrefix(msg, "Scriggo rejects") && strings.Contains(msg, "truncated to integer") && strings.Contains(c.Expr, "1e19"):
		return "C02-float-to-unsigned-above-int64"
	case strings.Contains(msg, "Go's exact value") && reHugeFloat.MatchString(c.Expr) && strings.ContainsAny(c.Expr, "+-"):
		return "C02-untyped-float-precision"
	case nonDyadic(msg):
		return "C02-untyped-float-precision"
	case strings.Contains(msg, "(type untyped float); `print(c == ") || strings.Contains(msg, "(type untyped float); `print(c*2 - "):
		// the observations are checked in order: float64(c), the sign and c == 0 were right,
		// only the comparison with the exact value fails
		return "C02-untyped-float-precision"
	case reTiny.MatchString(c.Expr) || tinyValue(c):
		return "C02-tiny-float-constants"
	case accepts && strings.Contains(msg, "invalid shift count"):
		return "C02-invalid-shift-count-accepted"
	case accepts && reIntOp.MatchString(msg):
		return "C02-integer-op-on-float-constant"
	case accepts && (strings.Contains(msg, "truncated") || strings.Contains(msg, "cannot convert")):
		return "C02-float-truncation-accepted"
	}
	return ""
}

// TestExhDepth2 enumerates all binary and unary expressions and conversions over the literal set (thorough only
// enumerates the full product; quick enumerates a stride of it).
func TestExhDepth2(t *testing.T) {
	lits := append(append(append([]string{}, intLits...), floatLits...), otherLits...)
	shard, shards := ev.Shard()
	stride := 7
	if ev.Thorough() {
		stride = 1
	}
	n, idx := 0, 0
	check := func(c Case) bool {
		idx++
		if idx%shards != shard || (idx/shards)%stride != 0 {
			return true
		}
		n++
		if msg := judge(c); msg != "" {
			if id := classify(c, msg); id != "" && ev.Known(id) {
				return true
			}
			ev.Fail(t, "const", c, "%s", msg)
			return false
		}
		return true
	}
	for _, a := range lits {
		for _, op := range unOps {
			if !check(Case{Expr: op + "(" + a + ")"}) {
				return
			}
		}
		for _, ty := range basicTypes {
			if !check(Case{Expr: ty + "(" + a + ")"}) || !check(Case{Expr: a, Type: ty}) {
				return
			}
		}
		for _, b := range lits {
			for _, op := range binOps {
				if !check(Case{Expr: a + " " + op + " " + b}) {
					return
				}
			}
		}
	}
	ev.EvalN(n)
	ev.LabelN("depth2_enumerated", n)
	ev.NontrivialCount(n)
	if stride == 1 {
		ev.Exhaustive()
	}
}

// TestTriage (development aid, not run by the check): buckets failures by message shape.
func TestTriage(t *testing.T) {
	if testing.Short() {
		t.Skip()
	}
	buckets := map[string][]string{}
	gen := rapid.Custom(func(t *rapid.T) Case {
		c := Case{Expr: genExpr(t, rapid.IntRange(1, 4).Draw(t, "depth"))}
		if rapid.IntRange(0, 3).Draw(t, "typed") == 0 {
			c.Type = rapid.SampledFrom(basicTypes).Draw(t, "ctype")
		}
		return c
	})
	re := regexp.MustCompile(`"[^"]*"|[0-9][0-9a-zA-Z_.+\-]*|'[^']*'`)
	for i := 0; i < 60000; i++ {
		c := gen.Example(i)
		if msg := judge(c); msg != "" {
			k := re.ReplaceAllString(msg, "#")
			if len(k) > 160 {
				k = k[:160]
			}
			if len(buckets[k]) < 3 {
				buckets[k] = append(buckets[k], msg)
			}
		}
	}
	for k, v := range buckets {
		t.Logf("== %s\n   e.g. %s", k, v[0])
	}
}

// C16 — render, import and extends compose like their documented expansions.
package c16

import (
	"encoding/json"
	"fmt"
	"sort"
	"strings"
	"testing"

	"github.com/open2b/scriggo/native"
	"pgregory.net/rapid"

	"verif/harness/lib/ev"
	"verif/harness/lib/sg"
)

func TestMain(m *testing.M)    { ev.Main(m, "C16") }
func TestReplay(t *testing.T)  { ev.Replay(t) }
func TestRegress(t *testing.T) { ev.Regress(t) }

// Case: two file sets that must render identically, with the same globals.
type Case struct {
	Relation string            `json:"relation"` // render-var | render-alone | extends-inline | import-inline
	A        map[string]string `json:"a"`
	AName    string            `json:"a_name"`
	B        map[string]string `json:"b"`
	BName    string            `json:"b_name"`
	V        []string          `json:"v"`    // values of v0, v1
	Note     string            `json:"note"` // shape label
}

var lastNote string

func render(files map[string]string, name string, v []string) (string, string) {
	g := native.Declarations{"v0": (*string)(nil), "v1": (*string)(nil)}
	vars := map[string]any{"v0": v[0], "v1": v[1]}
	res := sg.Render(files, name, sg.Opts{Globals: g, Vars: vars, Markdown: true})
	return res.Out, res.Describe()
}

func judge(c Case) string {
	lastNote = c.Note
	for len(c.V) < 2 {
		c.V = append(c.V, "x")
	}
	oa, ea := render(c.A, c.AName, c.V)
	ob, eb := render(c.B, c.BName, c.V)
	if strings.HasPrefix(ea, "build error") || strings.HasPrefix(eb, "build error") {
		if (ea == "") != (eb == "") {
			return fmt.Sprintf("%s: one spelling builds and the other does not.\n A %q: %s\n B %q: %s", c.Relation, c.A, ea, c.B, eb)
		}
		ev.Excluded("both_do_not_build")
		ev.Note("neither builds: %s :: %q", ea, c.A)
		return ""
	}
	if ea != "" || eb != "" {
		if (ea == "") != (eb == "") {
			return fmt.Sprintf("%s: one spelling fails and the other does not.\n A %q: %s\n B %q: %s", c.Relation, c.A, ea, c.B, eb)
		}
		ev.Excluded("both_fail_at_run_time")
		return ""
	}
	if oa != ob {
		return fmt.Sprintf("%s: the two spellings render differently with v0=%q v1=%q.\n A %q\n  -> %q\n B %q\n  -> %q", c.Relation, c.V[0], c.V[1], c.A, oa, c.B, ob)
	}
	return ""
}

func init() {
	ev.RegisterReplay("compose", func(t ev.TB, raw json.RawMessage) {
		var c Case
		if err := json.Unmarshal(raw, &c); err != nil {
			t.Fatalf("bad case: %v", err)
		}
		if msg := judge(c); msg != "" {
			t.Fatalf("%s", msg)
		}
	})
}

// ---- generator

var exts = []string{"html", "html", "txt", "md", "js", "css", "json"}

var hostile = []string{"x", "a&b", "<b>t</b>", "\"q\"", "it's", "*em*", "</script>", "a b", "1 < 2", "\\", "#h", "{{x}}", "é", "", "line\nbreak", "_u_", "`c`", "[l](u)", "%41"}

// body generates one-line template content for a file of the given format.
func body(t *rapid.T, ext string, partials []string, depth int) string {
	var b strings.Builder
	n := rapid.IntRange(1, 4).Draw(t, "npieces")
	for i := 0; i < n; i++ {
		switch rapid.IntRange(0, 6).Draw(t, "piece") {
		case 0, 1:
			b.WriteString(rapid.SampledFrom(textFor(ext)).Draw(t, "text"))
		case 2, 3:
			b.WriteString("{{ v" + fmt.Sprint(rapid.IntRange(0, 1).Draw(t, "v")) + " }}")
		case 4:
			if depth > 0 && len(partials) > 0 {
				b.WriteString("{{ render \"" + rapid.SampledFrom(partials).Draw(t, "partial") + "\" }}")
			} else {
				b.WriteString("t")
			}
		case 5:
			b.WriteString(rapid.SampledFrom([]string{"{{ 7 }}", "{{ \"k<&\" }}", "{% if v0 != \"\" %}Y{% else %}N{% end %}", "{# c #}"}).Draw(t, "misc"))
		default:
			b.WriteString(" ")
		}
	}
	return b.String()
}

func textFor(ext string) []string {
	switch ext {
	case "html":
		return []string{"<p>", "</p>", "text ", "<b>x</b>", "&amp;", "<i title=\"t\">", "</i>", "a "}
	case "md":
		return []string{"text ", "*e* ", "w ", "a "}
	case "js":
		return []string{"var a = 1; ", "f(); ", "a "}
	case "css":
		return []string{"p { color: red } ", "a "}
	case "json":
		return []string{" "}
	}
	return []string{"text ", "a<b ", "x ", "& "}
}

// site wraps an expression in a position of a main file of the given format.
func site(t *rapid.T, ext string) (pre, post string) {
	switch ext {
	case "html":
		s := rapid.SampledFrom([][2]string{{"<div>head ", " tail</div>"}, {"<div>head ", " tail</div>"}, {"<p title=\"", "\">x</p>"}, {"<script>var s = ", ";</script>"}, {"<script>var s = \"", "\";</script>"}, {"<style>p { content: ", " }</style>"}, {"<a href=\"/p?q=", "\">l</a>"}, {"<p title=", ">x</p>"}}).Draw(t, "site")
		return s[0], s[1]
	case "js":
		s := rapid.SampledFrom([][2]string{{"var s = ", ";"}, {"var s = \"", "\";"}}).Draw(t, "site")
		return s[0], s[1]
	case "css":
		return "p { content: ", " }"
	case "json":
		return "[1, ", ", 2]"
	case "md":
		return "head ", " tail"
	}
	return "head ", " tail"
}

func genCase(t *rapid.T) Case {
	v := []string{rapid.SampledFrom(hostile).Draw(t, "v0"), rapid.SampledFrom(hostile).Draw(t, "v1")}
	mainExt := rapid.SampledFrom(exts).Draw(t, "mainext")
	// partial files, possibly in a sub-directory, possibly rendering each other (acyclic: pN may render pM for M > N)
	np := rapid.IntRange(1, 3).Draw(t, "npartials")
	dir := rapid.SampledFrom([]string{"", "", "sub/"}).Draw(t, "dir")
	names := make([]string, np)
	extsOf := make([]string, np)
	for i := range names {
		extsOf[i] = rapid.SampledFrom(exts).Draw(t, "pext")
		names[i] = fmt.Sprintf("%sp%d.%s", dir, i, extsOf[i])
	}
	files := map[string]string{}
	for i := np - 1; i >= 0; i-- {
		var later []string
		for j := i + 1; j < np; j++ {
			// a reference from a file in dir to a sibling: relative or rooted
			if rapid.Bool().Draw(t, "rooted") {
				later = append(later, "/"+names[j])
			} else {
				later = append(later, strings.TrimPrefix(names[j], dir))
			}
		}
		files[names[i]] = body(t, extsOf[i], later, 2)
	}
	ref := "/" + names[0]
	if dir == "" && rapid.Bool().Draw(t, "relref") {
		ref = names[0]
	}
	copyFiles := func(extra map[string]string) map[string]string {
		m := map[string]string{}
		for k, x := range files {
			m[k] = x
		}
		for k, x := range extra {
			m[k] = x
		}
		return m
	}
	mainName := "index." + mainExt
	switch rapid.IntRange(0, 8).Draw(t, "relation") {
	case 6:
		// the same path string from two directories names two files, and one file has several
		// spellings: every spelling must render what the rooted spelling renders
		ext := rapid.SampledFrom([]string{"html", "txt", "md"}).Draw(t, "dext")
		pa, pb := "(A "+body(t, ext, nil, 0)+")", "(B "+body(t, ext, nil, 0)+")"
		sp := func(label, dir, name string) string {
			// a spelling of /dir/name as written in a file of dir (or of the root when dir is "")
			switch rapid.IntRange(0, 2).Draw(t, label) {
			case 0:
				return name
			case 1:
				return "/" + dir + name
			}
			if dir == "" {
				return name
			}
			return "../" + dir + name
		}
		a := map[string]string{
			"a/p." + ext: pa, "b/p." + ext: pb,
			"a/x." + ext:   "[ax:{{ render \"" + sp("s1", "a/", "p."+ext) + "\" }}{{ render \"" + sp("s2", "a/", "p."+ext) + "\" }}]",
			"b/y." + ext:   "[by:{{ render \"" + sp("s3", "b/", "p."+ext) + "\" }}]",
			"index." + ext: "{{ render \"a/x." + ext + "\" }}{{ render \"b/y." + ext + "\" }}{{ render \"" + sp("s4", "", "a/p."+ext) + "\" }}",
		}
		b := map[string]string{
			"a/p." + ext: pa, "b/p." + ext: pb,
			"a/x." + ext:   "[ax:{{ render \"/a/p." + ext + "\" }}{{ render \"/a/p." + ext + "\" }}]",
			"b/y." + ext:   "[by:{{ render \"/b/p." + ext + "\" }}]",
			"index." + ext: "{{ render \"/a/x." + ext + "\" }}{{ render \"/b/y." + ext + "\" }}{{ render \"/a/p." + ext + "\" }}",
		}
		return Case{Relation: "render-spellings", V: v, Note: ext, A: a, AName: "index." + ext, B: b, BName: "index." + ext}
	case 7:
		// import … for: two files export the same names; each name comes from the file whose
		// for clause lists it ≡ the listed declarations written in the importing file
		ext := rapid.SampledFrom([]string{"html", "txt", "md", "js"}).Draw(t, "fext")
		na, nb := body(t, ext, nil, 0)+"nA", body(t, ext, nil, 0)+"nB"
		ma, mb := body(t, ext, nil, 0)+"mA", body(t, ext, nil, 0)+"mB"
		nfile := "{% macro A %}" + na + "{% end %}{% macro B %}" + nb + "{% end %}{% var V = \"nV\" %}"
		mfile := "{% macro A %}" + ma + "{% end %}{% macro B %}" + mb + "{% end %}{% var V = \"mV\" %}"
		takeV := rapid.SampledFrom([]string{"n", "m"}).Draw(t, "takev")
		forN, forM, v := "B", "A", "nV"
		if takeV == "n" {
			forN += ", V"
		} else {
			forM += ", V"
			v = "mV"
		}
		imports := "{% import \"n." + ext + "\" for " + forN + " %}{% import \"m." + ext + "\" for " + forM + " %}"
		if rapid.Bool().Draw(t, "importorder") {
			imports = "{% import \"m." + ext + "\" for " + forM + " %}{% import \"n." + ext + "\" for " + forN + " %}"
		}
		use := "x{{ A() }}|{{ B() }}|{{ V }}"
		return Case{Relation: "import-for", V: []string{"a", "b"}, Note: ext,
			A: map[string]string{"index." + ext: imports + use, "n." + ext: nfile, "m." + ext: mfile}, AName: "index." + ext,
			B: map[string]string{"index." + ext: "{% macro A %}" + ma + "{% end %}{% macro B %}" + nb + "{% end %}{% var V = \"" + v + "\" %}" + use}, BName: "index." + ext}
	case 8:
		// the same import path written in files of different directories names different files,
		// each with its own variables and macros ≡ the declarations written where they are used
		ext := rapid.SampledFrom([]string{"html", "txt"}).Draw(t, "rext")
		conf := func(name string) string {
			return "{% var Name = \"" + name + "\" %}{% var Size = len(Name) * 10 %}{% macro Title %}[{{ Name }}]{% end %}"
		}
		page := "{{ Name }}{{ Size }}{{ Title() }}"
		spell := rapid.SampledFrom([]string{"conf." + ext, "conf." + ext, "/sub/conf." + ext}).Draw(t, "subspell")
		rootFirst := rapid.Bool().Draw(t, "rootfirst")
		idxA := "{% import \"conf." + ext + "\" %}" + page + ":{{ render \"sub/page." + ext + "\" }}"
		idxB := conf("root") + page + ":{{ render \"sub/page." + ext + "\" }}"
		if !rootFirst {
			// (an import statement comes before anything else in its file)
			idxA = "{% import \"conf." + ext + "\" %}{{ render \"sub/page." + ext + "\" }}:" + page
			idxB = conf("root") + "{{ render \"sub/page." + ext + "\" }}:" + page
		}
		return Case{Relation: "import-relative", V: []string{"a", "b"}, Note: ext,
			A: map[string]string{"index." + ext: idxA, "conf." + ext: conf("root"), "sub/conf." + ext: conf("subdir"), "sub/page." + ext: "{% import \"" + spell + "\" %}" + page}, AName: "index." + ext,
			B: map[string]string{"index." + ext: idxB, "sub/page." + ext: conf("subdir") + page}, BName: "index." + ext}
	case 5:
		// a macro imported from a file of any format: showing the call ≡ assigning the call to a variable and showing it
		ext := rapid.SampledFrom([]string{"html", "html", "txt", "md", "js", "css"}).Draw(t, "cext")
		mext := rapid.SampledFrom([]string{"html", "txt", "md", "js", "css"}).Draw(t, "cmext")
		m := body(t, mext, nil, 0)
		pre, post := site(t, ext)
		files := map[string]string{"m." + mext: "{% macro M %}" + m + "{% end %}{% macro P(s string) %}[{{ s }}]" + m + "{% end %}"}
		call := rapid.SampledFrom([]string{"M()", "P(v0)", "P(\"<&>\")"}).Draw(t, "call")
		a := map[string]string{"index." + ext: "{% import \"m." + mext + "\" %}" + pre + "{{ " + call + " }}" + post}
		b := map[string]string{"index." + ext: "{% import \"m." + mext + "\" %}" + pre + "{% var x = " + call + " %}{{ x }}" + post}
		for k, x := range files {
			a[k], b[k] = x, x
		}
		return Case{Relation: "macro-var", V: v, Note: ext + "<-" + mext + " at " + pre, A: a, AName: "index." + ext, B: b, BName: "index." + ext}
	case 0, 1:
		pre, post := site(t, mainExt)
		if ev.IsKnown("C16-show-render-is-raw-include") {
			// only the combination where both spellings are documented to agree: same format, file-level position
			mainExt = extsOf[0]
			mainName = "index." + mainExt
			pre, post = "head ", " tail"
			if mainExt == "json" {
				pre, post = "", ""
			}
		}
		return Case{Relation: "render-var", V: v, Note: mainExt + "<-" + extsOf[0] + " at " + pre,
			A: copyFiles(map[string]string{mainName: pre + "{{ render \"" + ref + "\" }}" + post}), AName: mainName,
			B: copyFiles(map[string]string{mainName: pre + "{% var x = render \"" + ref + "\" %}{{ x }}" + post}), BName: mainName}
	case 2:
		// same format, file level: rendering f equals running f alone
		mainName = "index." + extsOf[0]
		return Case{Relation: "render-alone", V: v, Note: extsOf[0],
			A: copyFiles(map[string]string{mainName: "{{ render \"" + ref + "\" }}"}), AName: mainName,
			B: copyFiles(nil), BName: names[0]}
	case 3:
		// extends: child with macros ≡ layout with the macros inlined
		ext := rapid.SampledFrom([]string{"html", "html", "txt", "md", "js"}).Draw(t, "lext")
		m1 := body(t, ext, nil, 0)
		m2 := "[" + body(t, ext, nil, 0) + "{{ s }}]"
		layout := body(t, ext, nil, 0) + "{{ A() }}" + body(t, ext, nil, 0) + "{{ B(v1) }}" + "{{ B(\"lit<\") }}"
		decls := "{% macro A %}" + m1 + "{% end %}{% macro B(s string) %}" + m2 + "{% end %}"
		if ext == "md" {
			// In Markdown the context of a show depends on how its line starts (four spaces or a
			// tab open an indented code block, a fence opens a fenced one). Inlined after the
			// declarations the first line of the layout would no longer start a line, so it is
			// kept from starting with those characters: the two spellings stay equivalent.
			layout = "x" + layout
		}
		return Case{Relation: "extends-inline", V: v, Note: ext,
			A: map[string]string{"index." + ext: "{% extends \"layout." + ext + "\" %}" + decls, "layout." + ext: layout}, AName: "index." + ext,
			B: map[string]string{"index." + ext: decls + layout}, BName: "index." + ext}
	default:
		// import: imported macro ≡ macro declared in the importing file
		ext := rapid.SampledFrom([]string{"html", "html", "txt", "md", "js", "css"}).Draw(t, "iext")
		// Same format only: the body of a macro is lexed in the context of the file that declares it, so a
		// macro moved into a file of another format is a different macro (not an equivalent spelling).
		mext := ext
		res := ""
		m := body(t, mext, nil, 0)
		pre, post := site(t, ext)
		form := rapid.IntRange(0, 2).Draw(t, "importform")
		imp, call := "{% import \"m."+mext+"\" %}", "M()"
		switch form {
		case 1:
			imp, call = "{% import p \"m."+mext+"\" %}", "p.M()"
		case 2:
			imp = "{% import \"m." + mext + "\" for M %}"
		}
		return Case{Relation: "import-inline", V: v, Note: ext + "<-" + mext + " at " + pre,
			A: map[string]string{"index." + ext: imp + pre + "{{ " + call + " }}" + post, "m." + mext: "{% macro M %}" + m + "{% end %}"}, AName: "index." + ext,
			B: map[string]string{"index." + ext: "{% macro M" + res + " %}" + m + "{% end %}" + pre + "{{ M() }}" + post}, BName: "index." + ext}
	}
}

// classify: the recorded finding concerns {{ render }} of a file whose format differs from the
// show context, or shown anywhere but at the file-level context of its format.
func classify(c Case) string {
	if c.Relation != "render-var" {
		return ""
	}
	p := strings.SplitN(c.Note, " at ", 2)
	f := strings.SplitN(p[0], "<-", 2)
	if len(p) == 2 && len(f) == 2 && (f[0] != f[1] || p[1] != "head " && p[1] != "<div>head ") {
		return "C16-show-render-is-raw-include"
	}
	return ""
}

func TestPropCompose(t *testing.T) {
	ev.Check(t, ev.N{Quick: 20000, Thorough: 2000000}, func(t *rapid.T) {
		c := genCase(t)
		ev.Eval()
		ev.Label("relation_" + c.Relation)
		cross := strings.Contains(c.Note, "<-") && func() bool {
			p := strings.SplitN(strings.SplitN(c.Note, " ", 2)[0], "<-", 2)
			return p[0] != p[1]
		}()
		if cross || len(c.A) > 2 {
			if cross {
				ev.Label("cross_format")
			}
			var ks []string
			for k, x := range c.A {
				ks = append(ks, k+"="+x)
			}
			sort.Strings(ks)
			ev.NontrivialSample(map[string]any{"relation": c.Relation, "a": c.A, "b": c.B, "v": c.V}, c.Relation, strings.Join(ks, "|"))
		}
		if msg := judge(c); msg != "" {
			if id := classify(c); id != "" && ev.Known(id) {
				return
			}
			ev.Fail(t, "compose", c, "%s", msg)
		}
	})
}

package c16

import (
	"encoding/json"
	"fmt"
	"strings"
	"testing"

	"github.com/open2b/scriggo/native"
	"pgregory.net/rapid"

	"verif/harness/lib/ev"
	"verif/harness/lib/sg"
)

// InitCase: a graph of template files importing each other (file i may import files j > i, the
// main file is file 0). Every file declares a variable initialised by a call of the native
// function tick, which returns 1, 2, 3, …: the values show how many times and in which order
// the files were initialised. The expansion is Go's: every imported file is initialised once,
// after the files it imports, in the order of the import statements.
type InitCase struct {
	Imports [][]int `json:"imports"` // Imports[i]: files imported by file i, in source order
	Twice   bool    `json:"twice"`   // the main file imports its first import a second time, with another name
}

var initNames = []string{"index", "a", "b", "c", "d"}

func (c InitCase) files() map[string]string {
	files := map[string]string{}
	for i, imps := range c.Imports {
		var b strings.Builder
		for _, j := range imps {
			fmt.Fprintf(&b, "{%% import %s \"%s.txt\" %%}", initNames[j], initNames[j])
		}
		if i == 0 && c.Twice && len(imps) > 0 {
			fmt.Fprintf(&b, "{%% import again \"/%s.txt\" %%}", initNames[imps[0]])
		}
		if i > 0 {
			fmt.Fprintf(&b, "{%% var N = tick() %%}{%% macro Show %%}%s{{ N }}(", initNames[i])
			for _, j := range imps {
				fmt.Fprintf(&b, "{{ %s.Show() }}", initNames[j])
			}
			b.WriteString("){% end %}")
		} else {
			for _, j := range imps {
				fmt.Fprintf(&b, "{{ %s.Show() }}", initNames[j])
			}
			if c.Twice && len(imps) > 0 {
				b.WriteString("{{ again.Show() }}")
			}
			b.WriteString("|{{ tick() }}")
		}
		files[initNames[i]+".txt"] = b.String()
	}
	return files
}

// expected renders the model: initialisation numbers in post-order of the import graph.
func (c InitCase) expected() string {
	n := 0
	num := map[int]int{}
	var visit func(i int)
	visit = func(i int) {
		for _, j := range c.Imports[i] {
			if _, ok := num[j]; !ok {
				visit(j)
			}
		}
		if i > 0 {
			n++
			num[i] = n
		}
	}
	visit(0)
	var show func(i int) string
	show = func(i int) string {
		s := fmt.Sprintf("%s%d(", initNames[i], num[i])
		for _, j := range c.Imports[i] {
			s += show(j)
		}
		return s + ")"
	}
	out := ""
	for _, j := range c.Imports[0] {
		out += show(j)
	}
	if c.Twice && len(c.Imports[0]) > 0 {
		out += show(c.Imports[0][0])
	}
	return out + fmt.Sprintf("|%d", n+1)
}

func judgeInit(c InitCase) string {
	ticks := 0
	g := native.Declarations{"tick": func() int { ticks++; return ticks }}
	res := sg.Render(c.files(), "index.txt", sg.Opts{Globals: g})
	if d := res.Describe(); d != "" {
		return fmt.Sprintf("import-init: the files do not render: %s\n files %q", d, c.files())
	}
	if want := c.expected(); res.Out != want {
		return fmt.Sprintf("import-init: rendered %q, the expansion (every file initialised once, after its imports) gives %q\n files %q", res.Out, want, c.files())
	}
	return ""
}

func init() {
	ev.RegisterReplay("importinit", func(t ev.TB, raw json.RawMessage) {
		var c InitCase
		if err := json.Unmarshal(raw, &c); err != nil {
			t.Fatalf("bad case: %v", err)
		}
		if msg := judgeInit(c); msg != "" {
			t.Fatalf("%s", msg)
		}
	})
}

// TestPropImportInit draws import graphs of up to five files.
func TestPropImportInit(t *testing.T) {
	ev.Check(t, ev.N{Quick: 3000, Thorough: 200000}, func(t *rapid.T) {
		n := rapid.IntRange(2, 5).Draw(t, "nfiles")
		c := InitCase{Imports: make([][]int, n), Twice: rapid.IntRange(0, 3).Draw(t, "twice") == 0}
		edges := 0
		for i := 0; i < n; i++ {
			var imps []int
			for j := i + 1; j < n; j++ {
				if rapid.IntRange(0, 2).Draw(t, "edge") > 0 {
					imps = append(imps, j)
				}
			}
			imps = rapid.Permutation(imps).Draw(t, "order")
			c.Imports[i] = imps
			edges += len(imps)
		}
		ev.Eval()
		// non-trivial: some file is imported by two files (initialised once though reached twice)
		indeg := map[int]int{}
		for _, imps := range c.Imports {
			for _, j := range imps {
				indeg[j]++
			}
		}
		shared := false
		for _, d := range indeg {
			if d > 1 {
				shared = true
			}
		}
		if shared || c.Twice {
			ev.Label("import_graph_with_shared_file")
			ev.NontrivialSample(map[string]any{"files": c.files(), "expected": c.expected()}, fmt.Sprint(c.Imports), fmt.Sprint(c.Twice))
		}
		if msg := judgeInit(c); msg != "" {
			ev.Fail(t, "importinit", c, "%s", msg)
		}
	})
}

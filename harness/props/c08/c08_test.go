// C08 — values shown as JavaScript or JSON are valid literals for the same data.
package c08

import (
	"bytes"
	"encoding/base64"
	"encoding/json"
	"fmt"
	"math"
	"math/big"
	"reflect"
	"sort"
	"strings"
	"testing"
	"time"
	"unicode/utf8"

	"github.com/open2b/scriggo/native"
	"pgregory.net/rapid"

	"verif/harness/gen/vals"
	"verif/harness/lib/ev"
	"verif/harness/lib/sg"
	"verif/harness/oracle/jstok"
)

func TestMain(m *testing.M)    { ev.Main(m, "C08") }
func TestReplay(t *testing.T)  { ev.Replay(t) }
func TestRegress(t *testing.T) { ev.Regress(t) }

type Case struct {
	TV   vals.TV `json:"tv"`
	Ctx  string  `json:"ctx"` // js | json
	Type string  `json:"type"`
	Show string  `json:"show"`
}

// ---- expected data model

type node struct {
	kind   string // null bool num str arr obj date
	b      bool
	f      float64
	is32   bool
	s      string
	arr    []node
	keys   []string
	fields map[string]node
	sorted bool  // object keys must come sorted (maps)
	ms     int64 // date: Unix milliseconds
}

type modelInfo struct {
	hasError    bool // an error value shown as its message (differs from encoding/json by design)
	hasEmbedded bool
	dupKeys     bool
	nonFinite   bool
	odd         string // reason the value is outside the modelled domain
	depth       int
	corners     map[string]bool
}

func perByteValid(s string) string {
	if utf8.ValidString(s) {
		return s
	}
	var b strings.Builder
	for i := 0; i < len(s); {
		r, sz := utf8.DecodeRuneInString(s[i:])
		if r == utf8.RuneError && sz == 1 {
			b.WriteRune(0xFFFD)
		} else {
			b.WriteString(s[i : i+sz])
		}
		i += sz
	}
	return b.String()
}

func tagInfo(tag string) (name string, omitempty, skip bool) {
	j, ok := reflect.StructTag(tag).Lookup("json")
	if !ok || j == "" {
		return "", false, false
	}
	if j == "-" {
		return "", false, true
	}
	parts := strings.Split(j, ",")
	for _, o := range parts[1:] {
		if o == "omitempty" {
			omitempty = true
		}
	}
	return parts[0], omitempty, false
}

func isEmpty(tv vals.TV) bool {
	v := tv.Value()
	switch v.Kind() {
	case reflect.Bool:
		return !v.Bool()
	case reflect.Int, reflect.Int8, reflect.Int16, reflect.Int32, reflect.Int64:
		return v.Int() == 0
	case reflect.Uint, reflect.Uint8, reflect.Uint16, reflect.Uint32, reflect.Uint64, reflect.Uintptr:
		return v.Uint() == 0
	case reflect.Float32, reflect.Float64:
		return v.Float() == 0
	case reflect.String, reflect.Map, reflect.Slice, reflect.Array:
		return v.Len() == 0
	case reflect.Interface, reflect.Pointer:
		return v.IsNil()
	}
	return false
}

// model computes the expected data from the description (not from Scriggo).
func model(tv vals.TV, info *modelInfo, depth int) node {
	if depth > info.depth {
		info.depth = depth
	}
	t, v := tv.T, tv.V
	switch t.K {
	case "bool":
		return node{kind: "bool", b: v.B}
	case "int", "int8", "int16", "int32", "int64":
		return node{kind: "num", f: float64(v.I)}
	case "uint", "uint8", "uint16", "uint32", "uint64", "uintptr":
		return node{kind: "num", f: float64(v.U)}
	case "float32", "float64":
		f := v.F()
		if math.IsNaN(f) || math.IsInf(f, 0) {
			info.nonFinite = true
			info.corners["nonfinite"] = true
		}
		return node{kind: "num", f: f, is32: t.K == "float32"}
	case "string":
		return node{kind: "str", s: perByteValid(string(v.S))}
	case "bytes":
		if v.Nil {
			info.corners["nil"] = true
			return node{kind: "null"}
		}
		return node{kind: "str", s: base64.StdEncoding.EncodeToString(v.S)}
	case "time":
		info.corners["time"] = true
		tm := time.Unix(v.Sec, v.Nsec)
		return node{kind: "date", ms: tm.UnixMilli()}
	case "iface":
		if v.Dyn == nil {
			info.corners["nil"] = true
			return node{kind: "null"}
		}
		return model(*v.Dyn, info, depth)
	case "slice":
		if v.Nil {
			info.corners["nil"] = true
			return node{kind: "null"}
		}
		if t.Elem.K == "uint8" {
			// []uint8 is []byte: shown as a base64 string
			b := make([]byte, len(v.Elems))
			for i, e := range v.Elems {
				b[i] = byte(e.U)
			}
			return node{kind: "str", s: base64.StdEncoding.EncodeToString(b)}
		}
		n := node{kind: "arr", arr: []node{}}
		if len(v.Elems) == 0 {
			info.corners["empty"] = true
		}
		for _, e := range v.Elems {
			n.arr = append(n.arr, model(vals.TV{T: *t.Elem, V: e}, info, depth+1))
		}
		return n
	case "array":
		n := node{kind: "arr", arr: []node{}}
		for _, e := range v.Elems {
			n.arr = append(n.arr, model(vals.TV{T: *t.Elem, V: e}, info, depth+1))
		}
		return n
	case "map":
		if v.Nil {
			info.corners["nil"] = true
			return node{kind: "null"}
		}
		n := node{kind: "obj", fields: map[string]node{}, sorted: true}
		var raw []string
		for i, k := range v.Keys {
			rk := vals.KeyString(vals.TV{T: *t.Key, V: k})
			ks := perByteValid(rk)
			if _, dup := n.fields[ks]; dup {
				info.dupKeys = true
			}
			raw = append(raw, rk)
			n.fields[ks] = model(vals.TV{T: *t.Elem, V: v.Elems[i]}, info, depth+1)
		}
		sort.Strings(raw) // keys are ordered as byte strings, before any decoding of invalid UTF-8
		for _, rk := range raw {
			n.keys = append(n.keys, perByteValid(rk))
		}
		if len(v.Keys) == 0 {
			info.corners["empty"] = true
		}
		return n
	case "ptr":
		if v.Nil {
			info.corners["nil"] = true
			return node{kind: "null"}
		}
		return model(vals.TV{T: *t.Elem, V: v.Elems[0]}, info, depth)
	case "struct":
		n := node{kind: "obj", fields: map[string]node{}}
		eff := map[string]bool{}
		for _, f := range t.Fields {
			name, _, skip := tagInfo(f.Tag)
			if skip {
				continue
			}
			if name == "" {
				name = f.Name
			}
			if eff[name] {
				info.dupKeys = true // encoding/json drops conflicting fields at the type level
			}
			eff[name] = true
		}
		for i, f := range t.Fields {
			name, omit, skip := tagInfo(f.Tag)
			if skip {
				info.corners["tag-"] = true
				continue
			}
			ftv := vals.TV{T: f.T, V: v.Elems[i]}
			if omit {
				info.corners["omitempty"] = true
				if isEmpty(ftv) {
					continue
				}
			}
			if name == "" {
				name = f.Name
			}
			if _, dup := n.fields[name]; dup {
				info.dupKeys = true
			}
			n.keys = append(n.keys, name)
			n.fields[name] = model(ftv, info, depth+1)
		}
		return n
	case "lib":
		switch t.Lib {
		case "MyString", "StrStringer", "EnvStr":
			return node{kind: "str", s: perByteValid(string(v.S))}
		case "MyInt", "IntStringer":
			return node{kind: "num", f: float64(v.I)}
		case "MyFloat":
			f := v.F()
			if math.IsNaN(f) || math.IsInf(f, 0) {
				info.nonFinite = true
			}
			return node{kind: "num", f: f}
		case "MyBool":
			return node{kind: "bool", b: v.B}
		case "MyErr":
			info.hasError = true
			return node{kind: "str", s: perByteValid("err:" + string(v.S))}
		case "error":
			if v.Nil {
				return node{kind: "null"}
			}
			info.hasError = true
			return node{kind: "str", s: perByteValid(string(v.S))}
		}
		// library structs: model through reflection of the concrete Go value with the same rules
		info.corners["libstruct"] = true
		if t.Lib == "Outer" {
			info.hasEmbedded = true
		}
		return modelReflect(tv.Value(), info, depth)
	}
	info.odd = "kind " + t.K
	return node{kind: "null"}
}

// modelReflect models library struct values (field rules as documented: exported
// fields, json tag name, "-" and omitempty).
func modelReflect(v reflect.Value, info *modelInfo, depth int) node {
	switch v.Kind() {
	case reflect.Struct:
		n := node{kind: "obj", fields: map[string]node{}}
		for i := 0; i < v.NumField(); i++ {
			f := v.Type().Field(i)
			if f.PkgPath != "" {
				continue
			}
			name, omit, skip := tagInfo(string(f.Tag))
			if skip {
				continue
			}
			fv := v.Field(i)
			if omit {
				switch fv.Kind() {
				case reflect.Bool:
					if !fv.Bool() {
						continue
					}
				case reflect.Int:
					if fv.Int() == 0 {
						continue
					}
				case reflect.Float64:
					if fv.Float() == 0 {
						continue
					}
				case reflect.String, reflect.Slice, reflect.Map:
					if fv.Len() == 0 {
						continue
					}
				case reflect.Pointer, reflect.Interface:
					if fv.IsNil() {
						continue
					}
				}
			}
			if name == "" {
				name = f.Name
			}
			n.keys = append(n.keys, name)
			n.fields[name] = modelReflect(fv, info, depth+1)
		}
		return n
	case reflect.Int:
		return node{kind: "num", f: float64(v.Int())}
	case reflect.Float64:
		return node{kind: "num", f: v.Float()}
	case reflect.Bool:
		return node{kind: "bool", b: v.Bool()}
	case reflect.String:
		return node{kind: "str", s: perByteValid(v.String())}
	case reflect.Slice:
		if v.IsNil() {
			return node{kind: "null"}
		}
		n := node{kind: "arr", arr: []node{}}
		for i := 0; i < v.Len(); i++ {
			n.arr = append(n.arr, modelReflect(v.Index(i), info, depth+1))
		}
		return n
	case reflect.Map:
		if v.IsNil() {
			return node{kind: "null"}
		}
		n := node{kind: "obj", fields: map[string]node{}, sorted: true}
		for _, k := range v.MapKeys() {
			n.keys = append(n.keys, k.String())
			n.fields[k.String()] = modelReflect(v.MapIndex(k), info, depth+1)
		}
		sort.Strings(n.keys)
		return n
	case reflect.Pointer, reflect.Interface:
		if v.IsNil() {
			return node{kind: "null"}
		}
		return modelReflect(v.Elem(), info, depth)
	}
	return node{kind: "null"}
}

var dateLayouts = []string{"2006-01-02T15:04:05.000Z07:00"}

// parseJSDate parses the ECMAScript date-time string format, including the
// expanded-year form ±YYYYYY.
func parseJSDate(s string) (time.Time, error) {
	if len(s) > 7 && (s[0] == '+' || s[0] == '-') {
		var y int
		if _, err := fmt.Sscanf(s[1:7], "%06d", &y); err != nil || s[7] != '-' {
			return time.Time{}, fmt.Errorf("bad expanded year in %q", s)
		}
		if s[0] == '-' {
			if y == 0 {
				return time.Time{}, fmt.Errorf("-000000 is not a valid year")
			}
			y = -y
		}
		tm, err := time.Parse(dateLayouts[0], "2000"+s[7:])
		if err != nil {
			return time.Time{}, err
		}
		return tm.AddDate(y-2000, 0, 0), nil
	}
	return time.Parse(dateLayouts[0], s)
}

// compareJS compares the parsed JS value with the model.
func compareJS(got jstok.Value, want node, path string) string {
	switch want.kind {
	case "null":
		if got.Kind != "null" {
			return fmt.Sprintf("%s: got %s, want null", path, got.Kind)
		}
	case "bool":
		if got.Kind != "bool" || got.Bool != want.b {
			return fmt.Sprintf("%s: got %s %v, want %v", path, got.Kind, got.Bool, want.b)
		}
	case "num":
		if got.Kind != "number" {
			return fmt.Sprintf("%s: got %s, want number %v", path, got.Kind, want.f)
		}
		if math.IsNaN(want.f) {
			if !math.IsNaN(got.Num) {
				return fmt.Sprintf("%s: got %v, want NaN", path, got.Num)
			}
			return ""
		}
		if want.is32 {
			if float32(got.Num) != float32(want.f) {
				return fmt.Sprintf("%s: got %v, want float32 %v", path, got.Num, want.f)
			}
			return ""
		}
		if got.Num != want.f || math.Signbit(got.Num) != math.Signbit(want.f) {
			return fmt.Sprintf("%s: got %v, want %v", path, got.Num, want.f)
		}
	case "str":
		if got.Kind != "string" || got.Str != want.s {
			return fmt.Sprintf("%s: got %s %q, want string %q", path, got.Kind, got.Str, want.s)
		}
	case "date":
		if got.Kind != "date" {
			return fmt.Sprintf("%s: got %s, want Date", path, got.Kind)
		}
		tm, err := parseJSDate(got.Str)
		if err != nil {
			return fmt.Sprintf("%s: new Date(%q) is not an ISO date-time with milliseconds: %v", path, got.Str, err)
		}
		if tm.UnixMilli() != want.ms {
			return fmt.Sprintf("%s: Date %q is instant %d ms, want %d ms", path, got.Str, tm.UnixMilli(), want.ms)
		}
	case "arr":
		if got.Kind != "array" || len(got.Arr) != len(want.arr) {
			return fmt.Sprintf("%s: got %s of %d, want array of %d", path, got.Kind, len(got.Arr), len(want.arr))
		}
		for i := range want.arr {
			if m := compareJS(got.Arr[i], want.arr[i], fmt.Sprintf("%s[%d]", path, i)); m != "" {
				return m
			}
		}
	case "obj":
		if got.Kind != "object" {
			return fmt.Sprintf("%s: got %s, want object", path, got.Kind)
		}
		if len(got.Keys) != len(want.keys) {
			return fmt.Sprintf("%s: got keys %q, want %q", path, got.Keys, want.keys)
		}
		for i, k := range want.keys {
			if got.Keys[i] != k {
				return fmt.Sprintf("%s: key #%d is %q, want %q (keys %q; sorted required: %v)", path, i, got.Keys[i], k, got.Keys, want.sorted)
			}
			if m := compareJS(got.Fields[k], want.fields[k], path+"."+k); m != "" {
				return m
			}
		}
	}
	return ""
}

// compareJSON compares two decoded JSON documents (json.Number aware).
func compareJSON(a, b any, path string) string {
	switch x := a.(type) {
	case json.Number:
		y, ok := b.(json.Number)
		if !ok {
			return fmt.Sprintf("%s: number %s vs %T", path, x, b)
		}
		ra, ok1 := new(big.Rat).SetString(string(x))
		rb, ok2 := new(big.Rat).SetString(string(y))
		if !ok1 || !ok2 || ra.Cmp(rb) != 0 {
			return fmt.Sprintf("%s: number %s, encoding/json gives %s", path, x, y)
		}
	case []any:
		y, ok := b.([]any)
		if !ok || len(x) != len(y) {
			return fmt.Sprintf("%s: array of %d vs %T", path, len(x), b)
		}
		for i := range x {
			if m := compareJSON(x[i], y[i], fmt.Sprintf("%s[%d]", path, i)); m != "" {
				return m
			}
		}
	case map[string]any:
		y, ok := b.(map[string]any)
		if !ok {
			return fmt.Sprintf("%s: object vs %T", path, b)
		}
		if len(x) != len(y) {
			return fmt.Sprintf("%s: object keys %v, encoding/json gives %v", path, keysOf(x), keysOf(y))
		}
		for k, xv := range x {
			yv, ok := y[k]
			if !ok {
				return fmt.Sprintf("%s: key %q not produced by encoding/json (its keys %v)", path, k, keysOf(y))
			}
			if m := compareJSON(xv, yv, path+"."+k); m != "" {
				return m
			}
		}
	default:
		if !reflect.DeepEqual(a, b) {
			return fmt.Sprintf("%s: %#v, encoding/json gives %#v", path, a, b)
		}
	}
	return ""
}

func keysOf(m map[string]any) []string {
	var k []string
	for s := range m {
		k = append(k, s)
	}
	sort.Strings(k)
	return k
}

func decodeJSON(b []byte) (any, error) {
	d := json.NewDecoder(bytes.NewReader(b))
	d.UseNumber()
	var v any
	if err := d.Decode(&v); err != nil {
		return nil, err
	}
	if d.More() {
		return nil, fmt.Errorf("trailing data")
	}
	return v, nil
}

// equivalenceDomain reports whether encoding/json equivalence is claimed for the value.
func equivalenceDomain(tv vals.TV, info *modelInfo) (bool, string) {
	if info.hasError {
		return false, "error_values_shown_as_message"
	}
	if info.dupKeys {
		return false, "duplicate_keys"
	}
	if hasOddKeys(tv) {
		return false, "map_key_not_string_or_integer"
	}
	return true, ""
}

func hasOddKeys(tv vals.TV) bool {
	t, v := tv.T, tv.V
	switch t.K {
	case "map":
		switch t.Key.K {
		case "string", "int", "int8", "int16", "int32", "int64", "uint", "uint8", "uint16", "uint32", "uint64":
		case "lib":
			if t.Key.Lib != "MyString" && t.Key.Lib != "MyInt" {
				return true
			}
		default:
			return true
		}
		for _, e := range v.Elems {
			if hasOddKeys(vals.TV{T: *t.Elem, V: e}) {
				return true
			}
		}
	case "slice", "array":
		for _, e := range v.Elems {
			if hasOddKeys(vals.TV{T: *t.Elem, V: e}) {
				return true
			}
		}
	case "ptr":
		if !v.Nil {
			return hasOddKeys(vals.TV{T: *t.Elem, V: v.Elems[0]})
		}
	case "struct":
		for i, f := range t.Fields {
			if hasOddKeys(vals.TV{T: f.T, V: v.Elems[i]}) {
				return true
			}
		}
	case "iface":
		if v.Dyn != nil {
			return hasOddKeys(*v.Dyn)
		}
	}
	return false
}

var lastClass string

func judge(c Case) string {
	lastClass = ""
	rt := c.TV.T.Type()
	ptr := reflect.New(rt)
	ptr.Elem().Set(c.TV.Value())
	file, tmpl := "i.js", "var x = {{ v }};"
	if c.Ctx == "json" {
		file, tmpl = "i.json", "{{ v }}"
	}
	t, res := sg.BuildTemplate(map[string]string{file: tmpl}, file, sg.Opts{Globals: native.Declarations{"v": reflect.Zero(reflect.PointerTo(rt)).Interface()}})
	if res.BuildPanic != nil {
		return fmt.Sprintf("build panic: %v", res.BuildPanic)
	}
	if res.BuildErr != nil {
		// the type is not accepted for the context: outside the property ("any value of a type accepted")
		ev.Excluded("type_not_accepted_for_context")
		return ""
	}
	res = sg.RunTemplate(t, sg.Opts{Vars: map[string]any{"v": ptr.Interface()}})
	if d := res.Describe(); d != "" {
		lastClass = "run-failed"
		return fmt.Sprintf("showing %s value %s failed: %s", rt, c.Show, d)
	}
	info := &modelInfo{corners: map[string]bool{}}
	want := model(c.TV, info, 0)
	if info.odd != "" {
		ev.Excluded("unmodelled_" + info.odd)
		return ""
	}
	if c.Ctx == "js" {
		out := strings.TrimSuffix(strings.TrimPrefix(res.Out, "var x = "), ";")
		if info.dupKeys {
			ev.Excluded("duplicate_keys")
			return ""
		}
		got, err := jstok.ParseValue(out)
		if err != nil {
			if info.nonFinite {
				lastClass = "nonfinite"
			}
			return fmt.Sprintf("%s value %s renders as %q, not one valid JavaScript value expression: %v", rt, c.Show, out, err)
		}
		if info.dupKeys {
			ev.Excluded("duplicate_keys")
			return ""
		}
		if m := compareJS(got, want, "v"); m != "" {
			return fmt.Sprintf("%s value %s renders as %q: %s", rt, c.Show, out, m)
		}
		return ""
	}
	// JSON
	out := []byte(res.Out)
	if !json.Valid(out) {
		if info.nonFinite {
			lastClass = "nonfinite"
		}
		return fmt.Sprintf("%s value %s renders as %q, which is not valid JSON", rt, c.Show, out)
	}
	ref, err := json.Marshal(c.TV.Interface())
	if err != nil {
		ev.Excluded("encoding_json_cannot_encode")
		return ""
	}
	if ok, why := equivalenceDomain(c.TV, info); !ok {
		ev.Excluded(why)
		return ""
	}
	g, err1 := decodeJSON(out)
	w, err2 := decodeJSON(ref)
	if err1 != nil || err2 != nil {
		return fmt.Sprintf("decode: %v %v", err1, err2)
	}
	if m := compareJSON(g, w, "v"); m != "" {
		if info.corners["time"] {
			lastClass = "time"
		}
		if info.hasEmbedded {
			lastClass = "embedded"
		}
		if info.corners["nilbytes"] {
			lastClass = "nilbytes"
		}
		return fmt.Sprintf("%s value %s renders as %s, encoding/json gives %s: %s", rt, c.Show, out, ref, m)
	}
	return ""
}

func init() {
	ev.RegisterReplay("show", func(t ev.TB, raw json.RawMessage) {
		var c Case
		if err := json.Unmarshal(raw, &c); err != nil {
			t.Fatalf("bad case: %v", err)
		}
		if msg := judge(c); msg != "" {
			t.Fatalf("%s", msg)
		}
	})
}

func classify(c Case, msg string) string {
	switch lastClass {
	case "nonfinite":
		return "C08-nonfinite-floats"
	case "time":
		return "C08-json-time-subsecond"
	case "embedded":
		return "C08-json-embedded-struct"
	case "nilbytes":
		return "C08-json-nil-byte-slice"
	}
	return ""
}

func TestPropShow(t *testing.T) {
	opts := vals.Options{MaxDepth: 3, Time: true, NonFinite: !ev.IsKnown("C08-nonfinite-floats"), Uintptr: true, StructLib: true, ErrorIface: true}
	ev.Check(t, ev.N{Quick: 30000, Thorough: 3000000}, func(t *rapid.T) {
		tv := vals.Gen(t, opts)
		c := Case{TV: tv, Ctx: rapid.SampledFrom([]string{"js", "json"}).Draw(t, "ctx")}
		c.Type = tv.T.Type().String()
		c.Show = fmt.Sprintf("%#v", tv.Interface())
		if len(c.Show) > 300 {
			c.Show = c.Show[:300] + "…"
		}
		ev.Eval()
		ev.Label("ctx_" + c.Ctx)
		info := &modelInfo{corners: map[string]bool{}}
		model(tv, info, 0)
		if info.depth >= 2 || len(info.corners) > 0 {
			var cs []string
			for k := range info.corners {
				cs = append(cs, k)
				ev.Label("corner_" + k)
			}
			sort.Strings(cs)
			ev.NontrivialSample(map[string]string{"ctx": c.Ctx, "type": c.Type, "value": c.Show}, c.Ctx, c.Type, strings.Join(cs, ","), c.Show)
		}
		if msg := judge(c); msg != "" {
			if id := classify(c, msg); id != "" && ev.Known(id) {
				return
			}
			ev.Fail(t, "show", c, "%s", msg)
		}
	})
}

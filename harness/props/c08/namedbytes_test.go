package c08

import (
	"fmt"
	"testing"

	"verif/harness/gen/vals"
	"verif/harness/lib/ev"
)

// TestExhNamedBytes: values of defined types whose underlying type is a slice of a uint8 kind
// (type RawBytes []byte, type Octets []MyOctet), alone and inside a slice, a pointer and a struct,
// shown in JSON; the oracle is the one of the property, encoding/json on the same value (which
// encodes every such slice as a base64 string). A defined byte slice was shown as an array of
// numbers (repaired; witness regress/C08/json-defined-byte-slice.json).
func TestExhNamedBytes(t *testing.T) {
	lib := func(n string) vals.T { return vals.T{K: "lib", Lib: n} }
	contents := []vals.V{{Nil: true}, {S: []byte{}}, {S: []byte{1, 2}}, {S: []byte{0xff, 0, '<', '"', 0x7f, 0x80}}, {S: []byte("hello world, this is longer than one base64 block")}}
	for _, name := range []string{"RawBytes", "Octets"} {
		base := lib(name)
		for _, v := range contents {
			if name == "Octets" && v.Nil {
				continue // vals builds Octets from the bytes only
			}
			forms := []vals.TV{
				{T: base, V: v},
				{T: vals.T{K: "slice", Elem: &base}, V: vals.V{Elems: []vals.V{v, v}}},
				{T: vals.T{K: "ptr", Elem: &base}, V: vals.V{Elems: []vals.V{v}}},
				{T: vals.T{K: "struct", Fields: []vals.FT{{Name: "F0", T: base}, {Name: "F1", T: vals.T{K: "int"}}}}, V: vals.V{Elems: []vals.V{v, {I: 7}}}},
			}
			for _, tv := range forms {
				c := Case{TV: tv, Ctx: "json", Type: tv.T.Type().String()}
				c.Show = fmt.Sprintf("%#v", tv.Interface())
				ev.Eval()
				ev.Label("named_byte_slice")
				ev.Nontrivial("named_bytes", c.Type, c.Show)
				if msg := judge(c); msg != "" {
					if id := classify(c, msg); id != "" && ev.Known(id) {
						continue
					}
					ev.Fail(t, "show", c, "%s", msg)
				}
			}
		}
	}
}

// C28 — cloning a tree gives an independent equal copy, and walking visits every node
// exactly once.
package c28

import (
	"encoding/json"
	"fmt"
	"reflect"
	"sort"
	"strings"
	"testing"

	"github.com/open2b/scriggo/ast"
	"github.com/open2b/scriggo/ast/astutil"
	"pgregory.net/rapid"

	"verif/harness/gen/exprgen"
	"verif/harness/gen/goprog"
	"verif/harness/gen/tmplset"
	"verif/harness/lib/asttree"
	"verif/harness/lib/ev"
)

func TestMain(m *testing.M)    { ev.Main(m, "C28") }
func TestReplay(t *testing.T)  { ev.Replay(t) }
func TestRegress(t *testing.T) { ev.Regress(t) }

// Case is a template file set; the unexpanded tree of Main and the expanded tree of the
// set are cloned and walked.
type Case struct {
	Files  map[string]string `json:"files"`
	Main   string            `json:"main"`
	Origin string            `json:"origin"`
}

func guard(f func()) (p any) {
	defer func() { p = recover() }()
	f()
	return nil
}

// checkClone checks one clone function on one node.
func checkClone(what string, orig ast.Node, clone func() ast.Node) string {
	before := asttree.Render(orig, true)
	var c ast.Node
	if p := guard(func() { c = clone() }); p != nil {
		return fmt.Sprintf("%s of a %T panicked: %v", what, orig, p)
	}
	if c == nil || reflect.ValueOf(c).IsNil() {
		return fmt.Sprintf("%s of a %T returned nil", what, orig)
	}
	if got := asttree.Render(c, true); got != before {
		return fmt.Sprintf("%s of a %T is not equal to the original: %s", what, orig, asttree.FirstDiff(before, got))
	}
	if shared := asttree.SharedPointers(orig, c); len(shared) > 0 {
		sort.Strings(shared)
		return fmt.Sprintf("%s of a %T shares %d node(s) or position(s) with the original: %v", what, orig, len(shared), shared[:min(len(shared), 5)])
	}
	asttree.Scramble(c)
	if after := asttree.Render(orig, true); after != before {
		return fmt.Sprintf("changing the %s of a %T changed the original: %s", what, orig, asttree.FirstDiff(before, after))
	}
	return ""
}

type counter struct {
	visits map[ast.Node]int
	order  []ast.Node
	ends   int
}

func (c *counter) Visit(n ast.Node) astutil.Visitor {
	if n == nil {
		c.ends++
		return nil
	}
	c.visits[n]++
	c.order = append(c.order, n)
	return c
}

// checkWalk compares the nodes Walk and Inspect visit with the reflection enumeration.
// walkModel lists the nodes Walk must visit, in order. With the recorded finding it is the
// behaviour the repository's TestWalk pins: the function of a call is not visited; of a
// function declaration or literal only the nodes of the body are visited (not its name,
// type and body block); the trees of Extends, Import and Render are left to the visitor
// (documented in walk.go). Without it, every node of the tree.
func walkModel(root ast.Node) []ast.Node {
	pinned := ev.IsKnown("C28-walk-skips-call-function-and-function-parts")
	var out []ast.Node
	var rec func(n ast.Node, depth int)
	rec = func(n ast.Node, depth int) {
		out = append(out, n)
		if depth > 10000 {
			return
		}
		for _, e := range asttree.Edges(n) {
			switch n.(type) {
			case *ast.Extends, *ast.Import, *ast.Render:
				if e.Field == "Tree" {
					continue // documented: left to the visitor
				}
			}
			if pinned {
				switch n.(type) {
				case *ast.Call:
					if e.Field == "Func" {
						continue
					}
				case *ast.Func:
					if e.Field == "Ident" || e.Field == "Type" {
						continue
					}
					if e.Field == "Body" {
						for _, c := range asttree.Children(e.Node) {
							rec(c, depth+1)
						}
						continue
					}
				}
			}
			rec(e.Node, depth+1)
		}
	}
	rec(root, 0)
	return out
}

func checkWalk(root ast.Node) string {
	want := walkModel(root)
	if len(want) != len(asttree.All(root)) {
		ev.Known("C28-walk-skips-call-function-and-function-parts")
	}
	wantCount := map[ast.Node]int{}
	for _, n := range want {
		wantCount[n]++
	}
	c := &counter{visits: map[ast.Node]int{}}
	if p := guard(func() { astutil.Walk(c, root) }); p != nil {
		return fmt.Sprintf("Walk of a %T panicked: %v", root, p)
	}
	for n, k := range wantCount {
		if c.visits[n] != k {
			return fmt.Sprintf("Walk visited a %T %d time(s); the tree holds it %d time(s) (%s)", n, c.visits[n], k, describeNode(n))
		}
	}
	for n, k := range c.visits {
		if wantCount[n] == 0 {
			return fmt.Sprintf("Walk visited a %T %d time(s) that is not a node of the tree (%s)", n, k, describeNode(n))
		}
	}
	if c.ends != len(c.order) {
		return fmt.Sprintf("Walk called Visit(nil) %d times for %d nodes", c.ends, len(c.order))
	}
	// pre-order: the order must be the depth-first order of the tree
	for i := range want {
		if i < len(c.order) && c.order[i] != want[i] {
			return fmt.Sprintf("Walk order differs from depth-first source order at visit %d: %T (%s), expected %T (%s)", i+1, c.order[i], describeNode(c.order[i]), want[i], describeNode(want[i]))
		}
	}
	seen := map[ast.Node]int{}
	if p := guard(func() {
		astutil.Inspect(root, func(n ast.Node) bool {
			if n != nil {
				seen[n]++
			}
			return true
		})
	}); p != nil {
		return fmt.Sprintf("Inspect of a %T panicked: %v", root, p)
	}
	for n, k := range wantCount {
		if seen[n] != k {
			return fmt.Sprintf("Inspect visited a %T %d time(s); the tree holds it %d time(s) (%s)", n, seen[n], k, describeNode(n))
		}
	}
	return ""
}

func describeNode(n ast.Node) string {
	s := asttree.Render(n, false)
	if len(s) > 120 {
		s = s[:120] + "…"
	}
	return s
}

func judge(c Case) (msg string, nodes int, parsed bool) {
	var roots []*ast.Tree
	if t, err := asttree.Parse(c.Files, c.Main); err == nil {
		roots = append(roots, t)
	}
	if len(c.Files) > 1 {
		if t, err := asttree.ParseExpanded(c.Files, c.Main); err == nil {
			roots = append(roots, t)
		}
	}
	if len(roots) == 0 {
		return "", 0, false
	}
	for ri, tree := range roots {
		which := "unexpanded tree"
		if ri == 1 {
			which = "expanded tree"
		}
		ev.Eval()
		if m := checkClone("CloneTree", tree, func() ast.Node { return astutil.CloneTree(tree) }); m != "" {
			return which + ": " + m, nodes, true
		}
		if m := checkWalk(tree); m != "" {
			return which + ": " + m, nodes, true
		}
		seenType := map[string]int{}
		for _, n := range asttree.All(tree) {
			nodes++
			tn := fmt.Sprintf("%T", n)
			if seenType[tn] >= 3 {
				continue // three nodes of every type per tree
			}
			seenType[tn]++
			ev.Eval()
			ev.Label("node_" + tn)
			n := n
			if m := checkClone("CloneNode", n, func() ast.Node { return astutil.CloneNode(n) }); m != "" {
				return which + ": " + m, nodes, true
			}
			if e, ok := n.(ast.Expression); ok {
				if m := checkClone("CloneExpression", n, func() ast.Node { return astutil.CloneExpression(e) }); m != "" {
					return which + ": " + m, nodes, true
				}
			}
			if m := checkWalk(n); m != "" {
				return which + ": " + m, nodes, true
			}
		}
	}
	return "", nodes, true
}

func describe(c Case) string {
	var names []string
	for n := range c.Files {
		names = append(names, n)
	}
	sort.Strings(names)
	var b strings.Builder
	for _, n := range names {
		fmt.Fprintf(&b, "\n--- %s\n%s", n, c.Files[n])
	}
	return b.String()
}

func init() {
	ev.RegisterReplay("clone", func(t ev.TB, raw json.RawMessage) {
		var c Case
		if err := json.Unmarshal(raw, &c); err != nil {
			t.Fatalf("bad case: %v", err)
		}
		if msg, _, _ := judge(c); msg != "" {
			t.Fatalf("%s%s", msg, describe(c))
		}
	})
}

func genCase(t *rapid.T) Case {
	switch rapid.IntRange(0, 9).Draw(t, "origin") {
	case 0, 1:
		return Case{Files: map[string]string{"index.html": "{{ " + exprgen.Expr(t, true, rapid.IntRange(0, 4).Draw(t, "depth")) + " }}"}, Main: "index.html", Origin: "expression"}
	case 2:
		return Case{Files: map[string]string{"index.html": "{% " + exprgen.Stmt(t, true, rapid.IntRange(0, 2).Draw(t, "depth")) + " %}"}, Main: "index.html", Origin: "statement"}
	case 3, 4, 5:
		return Case{Files: map[string]string{"index.html": exprgen.Template(t)}, Main: "index.html", Origin: "template"}
	case 6, 7:
		ts := tmplset.Gen(t)
		return Case{Files: ts.Files, Main: ts.Main, Origin: "template-set"}
	default:
		p := goprog.Gen(t, goprog.Off{})
		body := strings.TrimPrefix(p.Src, "package main\n")
		return Case{Files: map[string]string{"index.html": "{%%\n" + body + "\n%%}"}, Main: "index.html", Origin: "goprog"}
	}
}

func TestPropCloneWalk(t *testing.T) {
	ev.Check(t, ev.N{Quick: 3000, Thorough: 200000}, func(t *rapid.T) {
		c := genCase(t)
		ev.Journal("clone", c)
		msg, nodes, parsed := judge(c)
		if !parsed {
			ev.Excluded("source_does_not_parse_" + c.Origin)
			return
		}
		ev.Label("origin_" + c.Origin)
		if nodes >= 3 {
			ev.NontrivialSample(map[string]any{"origin": c.Origin, "nodes": nodes, "files": len(c.Files)}, describe(c))
		}
		if msg != "" {
			ev.Fail(t, "clone", c, "%s%s", msg, describe(c))
		}
	})
}

// C15 — template text is emitted verbatim except for the documented removals.
package c15

import (
	"encoding/json"
	"fmt"
	"regexp"
	"strings"
	"testing"

	"pgregory.net/rapid"

	"verif/harness/lib/ev"
	"verif/harness/lib/sg"
)

func TestMain(m *testing.M)    { ev.Main(m, "C15") }
func TestReplay(t *testing.T)  { ev.Replay(t) }
func TestRegress(t *testing.T) { ev.Regress(t) }

// Part is one piece of the template.
type Part struct {
	Kind string `json:"kind"` // text comment stmt show raw-open raw-content raw-close if-open if-close shebang
	Src  []byte `json:"src"`  // source bytes
	Out  []byte `json:"out"`  // bytes the piece itself emits (shows, text); nil for syntax
	Sub  string `json:"sub"`  // statement sub-kind, for labels
}

type Case struct {
	Ext   string `json:"ext"`
	Parts []Part `json:"parts"`
	Show  string `json:"show"`
}

func (c Case) source() string {
	var b strings.Builder
	for _, p := range c.Parts {
		b.Write(p.Src)
	}
	return b.String()
}

// kinds whose line must be cut when they stand alone (observed on the pinned tree and
// stated by the property: "content-free lines that consist solely of statements and spaces")
var mustCut = map[string]bool{"comment": true, "if-open": true, "if-close": true, "raw-open": false, "raw-close": false, "stmt": false}

type frag struct {
	text      string
	removable int  // index of the cuttable logical line it belongs to, -1 if not removable
	isText    bool // literal text (as opposed to token output)
}

type lineInfo struct {
	must bool
}

// model returns the fragments of expected output and the cut units.
//
// Physical lines are delimited by LF. A line is content-free when every byte of
// it outside template tokens is a space, tab or CR, it touches at least one
// statement or comment token (a token that starts, ends or passes through it)
// and no show token. On a content-free line the blanks before the first token
// and the blanks after the last token (with the line's LF) are two cut units.
// A unit MUST be cut when its line holds exactly one token, entirely inside
// the line, of a kind in mustCut, and the line ends with LF; otherwise cutting
// it is optional. Blanks between two tokens and everything on other lines are
// never cut. Raw content counts as text.
func model(c Case) ([]frag, []lineInfo) {
	type piece struct {
		part  int
		s     string
		token bool
		line  int
		whole bool // token entirely inside its line
		first bool // first piece of its token
	}
	var pieces []piece
	line := 0
	for i, p := range c.Parts {
		src := string(p.Src)
		isToken := !(p.Kind == "text" || p.Kind == "raw-content")
		first := true
		whole := !strings.Contains(src, "\n")
		for {
			j := strings.IndexByte(src, '\n')
			if j < 0 {
				if src != "" || (isToken && first) {
					pieces = append(pieces, piece{i, src, isToken, line, whole, first})
				}
				break
			}
			pieces = append(pieces, piece{i, src[:j+1], isToken, line, whole, first})
			first = false
			line++
			src = src[j+1:]
		}
	}
	nLines := line + 1
	type lstat struct {
		tokens, cuttable, shows int
		blank, whole, endsLF    bool
		kind                    string
		firstTok, lastTok       int // piece indexes
	}
	st := make([]lstat, nLines)
	for i := range st {
		st[i].blank, st[i].whole, st[i].firstTok, st[i].lastTok = true, true, -1, -1
	}
	for pi, pc := range pieces {
		p := c.Parts[pc.part]
		l := &st[pc.line]
		if strings.HasSuffix(pc.s, "\n") && !pc.token {
			l.endsLF = true
		}
		if pc.token {
			l.tokens++
			l.kind = p.Kind
			if !pc.whole {
				l.whole = false
			}
			if p.Kind == "show" {
				l.shows++
			} else {
				l.cuttable++
			}
			if l.firstTok < 0 {
				l.firstTok = pi
			}
			l.lastTok = pi
			continue
		}
		if strings.Trim(pc.s, " \t\r\n") != "" {
			l.blank = false
		}
	}
	var lines []lineInfo
	unitLead := make([]int, nLines)
	unitTrail := make([]int, nLines)
	for l := range st {
		unitLead[l], unitTrail[l] = -1, -1
		x := st[l]
		if !x.blank || x.cuttable == 0 || x.shows > 0 {
			continue
		}
		must := x.tokens == 1 && x.whole && x.endsLF && mustCut[x.kind]
		unitLead[l] = len(lines)
		lines = append(lines, lineInfo{must: must})
		unitTrail[l] = len(lines)
		lines = append(lines, lineInfo{must: must})
	}
	var frags []frag
	for pi, pc := range pieces {
		p := c.Parts[pc.part]
		if pc.token {
			if pc.first && len(p.Out) > 0 {
				frags = append(frags, frag{string(p.Out), -1, false})
			}
			continue
		}
		x := st[pc.line]
		unit := -1
		switch {
		case unitLead[pc.line] < 0:
		case pi < x.firstTok:
			unit = unitLead[pc.line]
		case pi > x.lastTok:
			unit = unitTrail[pc.line]
		}
		frags = append(frags, frag{pc.s, unit, true})
	}
	return frags, lines
}

func judge(c Case) string {
	file := "index." + c.Ext
	src := c.source()
	res := sg.Render(map[string]string{file: src}, file, sg.Opts{})
	if res.BuildPanic != nil {
		return fmt.Sprintf("build panic: %v\n template: %q", res.BuildPanic, src)
	}
	if res.BuildErr != nil {
		if strings.Contains(res.BuildErr.Error(), "cannot use raw in") {
			ev.Excluded("raw_inside_markdown_code_block") // documented restriction, the generator does not track Markdown code blocks
			return ""
		}
		// every other generated template is valid: failing to build it loses all of its text
		return fmt.Sprintf("a valid template does not build: %v\n template: %q", res.BuildErr, src)
	}
	if d := res.Describe(); d != "" {
		return "run failed: " + d
	}
	frags, lines := model(c)
	// enumerate the choices for optional lines
	var optional []int
	for i, l := range lines {
		if !l.must {
			optional = append(optional, i)
		}
	}
	if len(optional) > 12 {
		optional = optional[:12]
	}
	build := func(mask int) string {
		cut := make([]bool, len(lines))
		for i, l := range lines {
			cut[i] = l.must
		}
		for b, li := range optional {
			if mask&(1<<b) != 0 {
				cut[li] = true
			}
		}
		var sb strings.Builder
		for _, f := range frags {
			if f.removable >= 0 && cut[f.removable] {
				continue
			}
			sb.WriteString(f.text)
		}
		return sb.String()
	}
	for mask := 0; mask < 1<<len(optional); mask++ {
		if build(mask) == res.Out {
			if len(lines) > 0 {
				ev.Label(fmt.Sprintf("cut_lines_%d", min(len(lines), 4)))
			}
			return ""
		}
	}
	return fmt.Sprintf("output differs from every output the cut rules allow.\n template: %q\n output:   %q\n nearest (mandatory cuts only): %q\n (all optional cuts): %q", src, res.Out, build(0), build(1<<len(optional)-1))
}

func init() {
	ev.RegisterReplay("verbatim", func(t ev.TB, raw json.RawMessage) {
		var c Case
		if err := json.Unmarshal(raw, &c); err != nil {
			t.Fatalf("bad case: %v", err)
		}
		if msg := judge(c); msg != "" {
			t.Fatalf("%s", msg)
		}
	})
}

// ---- generator

var atoms = []string{"a", "text", " ", "  ", "\t", "\n", "\n\n", "\r\n", "\r", " \n", "\t\n", "\n ", "{", "}", "{ ", "} }", "%", "% }", "#", "# ", "##", "\\", "\"", "'", "`", "<", ">", "<p>", "</p>", "<b", "<!--", "-->", "&amp;", "*", "_", "é", "日本", "\ufeff", "\x00", "\f", "\v", "//", "/*", "*/", "http://x.y/", "0", "{{", "end", "raw", "{ %", "$", "|"}

var exts = []string{"txt", "html", "css", "js", "json", "md"}

func genText(t *rapid.T, ext string) string {
	n := rapid.IntRange(0, 5).Draw(t, "ntext")
	var b strings.Builder
	for i := 0; i < n; i++ {
		a := rapid.SampledFrom(atoms).Draw(t, "atom")
		if a == "{{" {
			a = "{ {"
		}
		b.WriteString(a)
	}
	s := b.String()
	if ext == "html" || ext == "md" {
		// keep the lexer in text context: an unclosed tag, comment or CDATA start would put later tokens inside a tag
		s = strings.NewReplacer("<b", "<b>", "<!--", "<!-- -->", "<", "&lt;").Replace(strings.NewReplacer("<p>", "\x01P\x01", "</p>", "\x01E\x01").Replace(s))
		s = strings.NewReplacer("\x01P\x01", "<p>", "\x01E\x01", "</p>").Replace(s)
	}
	if ext == "js" || ext == "css" || ext == "json" {
		// quotes and comment openers change the context of later shows; constants are shown, so keep text neutral
		s = strings.NewReplacer("\"", "", "'", "", "`", "", "//", "/", "/*", "/").Replace(s)
	}
	if ext == "md" {
		s = strings.NewReplacer("\\", "", "http://x.y/", "http x y").Replace(s)
	}
	return neutral(s)
}

// neutral makes sure no template syntax arises from literal text: no "{{", "{%", "{#", "#}" and no trailing '{'.
func neutral(s string) string {
	for i := 0; i < 3; i++ {
		for _, bad := range []string{"{{", "{%", "{#", "#}"} {
			s = strings.ReplaceAll(s, bad, bad[:1]+" "+bad[1:])
		}
	}
	s = strings.TrimRight(s, "{")
	return s
}

var reEndNoMarker = regexp.MustCompile(`\{%\s*end(\s+raw)?\s*%\}`)

var counter int

// multiline reports whether multi-line tokens and a final non-text token may be generated
// (off while the known finding C15-cut-at-nontext-line-change is listed).
func multilineAllowed() bool { return !ev.IsKnown("C15-cut-at-nontext-line-change") }

func genParts(t *rapid.T, ext string, depth int) []Part {
	var parts []Part
	n := rapid.IntRange(1, 6).Draw(t, "nparts")
	for i := 0; i < n; i++ {
		if s := genText(t, ext); s != "" {
			parts = append(parts, Part{Kind: "text", Src: []byte(s), Out: []byte(s)})
		}
		switch rapid.IntRange(0, 11).Draw(t, "part") {
		case 0, 1:
			c := rapid.SampledFrom([]string{"{# c #}", "{##}", "{# a {# nested #} b #}", "{# multi\nline #}", "{#\n#}", "{# {{ x }} {% y %} #}", "{# # #}"}).Draw(t, "comment")
			if !multilineAllowed() {
				c = strings.ReplaceAll(c, "\n", " ")
			}
			parts = append(parts, Part{Kind: "comment", Src: []byte(c)})
		case 2, 3:
			counter++
			v := fmt.Sprintf("x%d", counter)
			s := rapid.SampledFrom([]string{"{% var " + v + " = 1 %}", "{% " + v + " := \"s\" %}{% _ = " + v + " %}", "{%% " + v + " := 2; _ = " + v + " %%}", "{%%\n" + v + " := 3\n_ = " + v + "\n%%}", "{% _ = 5 %}", "{%  _  =  6  %}"}).Draw(t, "stmt")
			if !multilineAllowed() && strings.HasPrefix(s, "{%%\n") {
				s = "{%% " + v + " := 3; _ = " + v + " %%}"
			}
			if strings.Count(s, "%}") == 2 {
				i := strings.Index(s, "%}") + 2
				parts = append(parts, Part{Kind: "stmt", Src: []byte(s[:i]), Sub: "decl"}, Part{Kind: "stmt", Src: []byte(s[i:]), Sub: "assign"})
			} else {
				parts = append(parts, Part{Kind: "stmt", Src: []byte(s), Sub: "stmt"})
			}
		case 4, 5:
			lit := rapid.SampledFrom([]string{"lit", "", " ", "\\n", "a b", "{%", "#}", "}}"}).Draw(t, "lit")
			out := strings.ReplaceAll(lit, "\\n", "\n")
			form := rapid.SampledFrom([]string{"{{ \"LIT\" }}", "{{\"LIT\"}}", "{% show \"LIT\" %}"}).Draw(t, "showform")
			if ext != "txt" {
				// in other formats constants are escaped by context; use a value no context changes
				lit, out = "k9", "k9"
				if ext == "js" || ext == "json" || ext == "css" {
					out = "\"k9\""
				}
			}
			parts = append(parts, Part{Kind: "show", Src: []byte(strings.Replace(form, "LIT", lit, 1)), Out: []byte(out)})
		case 6:
			num := rapid.IntRange(0, 99).Draw(t, "num")
			parts = append(parts, Part{Kind: "show", Src: []byte(fmt.Sprintf("{{ %d }}", num)), Out: []byte(fmt.Sprint(num))})
		case 7:
			if depth > 0 {
				open := rapid.SampledFrom([]string{"{% if true %}", "{% if 1 < 2 %}", "{%if true%}"}).Draw(t, "ifopen")
				parts = append(parts, Part{Kind: "if-open", Src: []byte(open)})
				parts = append(parts, genParts(t, ext, depth-1)...)
				parts = append(parts, Part{Kind: "if-close", Src: []byte(rapid.SampledFrom([]string{"{% end %}", "{% end if %}", "{%end%}"}).Draw(t, "ifclose"))})
			}
		case 8, 9:
			marker := rapid.SampledFrom([]string{"", "", " code", " m1"}).Draw(t, "marker")
			// raw content: pieces of look-alike syntax, including truncated terminators right before the real one
			rawAtoms := []string{"raw {{ x }} text", "\n  {% if %}\n", "{# not a comment #}", "\n", " ", "a", "{% end %}", "{% end raw %}", "{{", "#}", "line1\nline2\n",
				"{% end", "{%end", "{% end raw", "{% end raw cod", "{% end raw codex %}", "{% end raw code", "{%", "{", "%}", "end raw code %}", "{% endraw code %}", "{% end  raw  m1 %}", "{% end raw m1", "\t", "{% raw code %}", "{% end code %}", "{% end m1 %}"}
			var cb strings.Builder
			for k := rapid.IntRange(0, 4).Draw(t, "nraw"); k > 0; k-- {
				cb.WriteString(rapid.SampledFrom(rawAtoms).Draw(t, "rawatom"))
			}
			content := cb.String()
			if marker == "" && reEndNoMarker.MatchString(content) {
				marker = " code"
			}
			// the content must not contain a terminator of its own block
			if marker != "" {
				m := strings.TrimSpace(marker)
				re := regexp.MustCompile(`\{%\s*end\s+(raw\s+)?` + m + `\s*%\}`)
				content = re.ReplaceAllString(content, "{% end raw other %}")
			}
			closer := "{% end %}"
			if marker != "" {
				closer = "{% end raw" + marker + " %}"
			} else if rapid.Bool().Draw(t, "closer") {
				closer = "{% end raw %}"
			}
			parts = append(parts, Part{Kind: "raw-open", Src: []byte("{% raw" + marker + " %}")}, Part{Kind: "raw-content", Src: []byte(content), Out: []byte(content)}, Part{Kind: "raw-close", Src: []byte(closer)})
		default:
		}
	}
	if s := genText(t, ext); s != "" {
		parts = append(parts, Part{Kind: "text", Src: []byte(s), Out: []byte(s)})
	}
	return parts
}

func TestPropVerbatim(t *testing.T) {
	ev.Check(t, ev.N{Quick: 40000, Thorough: 4000000}, func(t *rapid.T) {
		ext := rapid.SampledFrom(exts).Draw(t, "ext")
		c := Case{Ext: ext, Parts: genParts(t, ext, 2)}
		if len(c.Parts) == 0 {
			c.Parts = []Part{{Kind: "text", Src: []byte("z"), Out: []byte("z")}}
		}
		// merge adjacent text parts and re-neutralise the joints
		var merged []Part
		for _, p := range c.Parts {
			if n := len(merged); n > 0 && p.Kind == "text" && merged[n-1].Kind == "text" {
				j := neutral(string(merged[n-1].Src) + string(p.Src))
				merged[n-1].Src, merged[n-1].Out = []byte(j), []byte(j)
				continue
			}
			merged = append(merged, p)
		}
		c.Parts = merged
		if !multilineAllowed() {
			if last := c.Parts[len(c.Parts)-1]; last.Kind != "text" {
				c.Parts = append(c.Parts, Part{Kind: "text", Src: []byte("z"), Out: []byte("z")})
			}
		}
		// merge adjacent text parts so that line analysis sees them as the lexer does
		c.Show = c.source()
		ev.Eval()
		ev.Label("ext_" + ext)
		boundary := false
		var kinds []string
		for i, p := range c.Parts {
			kinds = append(kinds, p.Kind)
			if p.Kind != "text" && p.Kind != "raw-content" {
				prevNL := i == 0 || strings.HasSuffix(string(c.Parts[i-1].Src), "\n") || strings.TrimRight(string(c.Parts[i-1].Src), " \t\r") != string(c.Parts[i-1].Src)
				nextNL := i == len(c.Parts)-1 || strings.HasPrefix(strings.TrimLeft(string(c.Parts[i+1].Src), " \t\r"), "\n")
				if prevNL || nextNL {
					boundary = true
				}
			}
			if p.Kind == "raw-content" && (strings.Contains(string(p.Src), "{%") || strings.Contains(string(p.Src), "{{")) {
				boundary = true
			}
		}
		if boundary {
			ev.Label("nontrivial")
			ev.NontrivialSample(map[string]string{"ext": ext, "template": c.Show}, ext, c.Show)
		}
		if msg := judge(c); msg != "" {
			if id := classify(c); id != "" && ev.Known(id) {
				return
			}
			ev.Fail(t, "verbatim", c, "%s", msg)
		}
	})
}

// classify: the recorded finding concerns templates in which a line change is
// detected at a non-text token: a token spanning lines, or a non-text token
// that ends the file.
func classify(c Case) string {
	if len(c.Parts) == 0 {
		return ""
	}
	if last := c.Parts[len(c.Parts)-1]; last.Kind != "text" && last.Kind != "raw-content" {
		return "C15-cut-at-nontext-line-change"
	}
	for _, p := range c.Parts {
		if p.Kind != "text" && p.Kind != "raw-content" && strings.Contains(string(p.Src), "\n") {
			return "C15-cut-at-nontext-line-change"
		}
	}
	return ""
}

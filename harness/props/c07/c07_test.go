// C07 — escaped values decode back to the exact original text.
package c07

import (
	"bytes"
	"encoding/json"
	"fmt"
	"net/url"
	"regexp"
	"strings"
	"sync"
	"testing"
	"unicode/utf8"

	"github.com/open2b/scriggo"
	"github.com/open2b/scriggo/native"
	"golang.org/x/net/html"
	"pgregory.net/rapid"

	"verif/harness/lib/ev"
	"verif/harness/lib/sg"
	"verif/harness/oracle/csstok"
	"verif/harness/oracle/jstok"
)

func TestMain(m *testing.M)    { ev.Main(m, "C07") }
func TestReplay(t *testing.T)  { ev.Replay(t) }
func TestRegress(t *testing.T) { ev.Regress(t) }

type Case struct {
	Ctx  string `json:"ctx"`
	V    []byte `json:"v"`
	Show string `json:"show"`
}

type context struct {
	file string // template file name (decides the format)
	tmpl string
	// extract returns the decoded slot content (between the literal 'a' and 'b'), or an error
	extract func(out string) (string, error)
	// norm is the target language's own input normalisation applied to the expected value
	norm func(v string) string
}

// perByteValid replaces each invalid byte by U+FFFD (what decoders of UTF-8 text do).
func perByteValid(s string) string {
	if utf8.ValidString(s) {
		return s
	}
	var b strings.Builder
	for i := 0; i < len(s); {
		r, sz := utf8.DecodeRuneInString(s[i:])
		if r == utf8.RuneError && sz == 1 {
			b.WriteRune(0xFFFD)
		} else {
			b.WriteString(s[i : i+sz])
		}
		i += sz
	}
	return b.String()
}

// htmlNorm: HTML input-stream preprocessing (CR/CRLF → LF); NUL is a parse
// error that parsers drop or replace, so it is removed from both sides.
func htmlNorm(v string) string {
	v = strings.ReplaceAll(v, "\r\n", "\n")
	v = strings.ReplaceAll(v, "\r", "\n")
	v = strings.ReplaceAll(v, "\x00", "")
	v = strings.ReplaceAll(v, "\ufffd", "")
	return v
}

func ident(v string) string { return v }

// cssNorm: CSS cannot represent U+0000 (the escape \0 and a raw NUL both mean U+FFFD).
func cssNorm(v string) string { return strings.ReplaceAll(perByteValid(v), "\x00", "\ufffd") }

func findElem(n *html.Node, id string) *html.Node {
	if n.Type == html.ElementNode {
		for _, a := range n.Attr {
			if a.Key == "id" && a.Val == id {
				return n
			}
		}
	}
	for c := n.FirstChild; c != nil; c = c.NextSibling {
		if r := findElem(c, id); r != nil {
			return r
		}
	}
	return nil
}

func textOf(n *html.Node) string {
	var b strings.Builder
	for c := n.FirstChild; c != nil; c = c.NextSibling {
		if c.Type == html.TextNode {
			b.WriteString(c.Data)
		} else {
			b.WriteString("<!" + c.Data + ">") // any element inside means the value leaked markup
		}
	}
	return b.String()
}

func strip(s string) (string, error) {
	if len(s) < 2 || s[0] != 'a' || s[len(s)-1] != 'b' {
		return "", fmt.Errorf("slot %q does not have the form a…b", s)
	}
	return s[1 : len(s)-1], nil
}

func elemText(id string) func(string) (string, error) {
	return func(out string) (string, error) {
		doc, err := html.Parse(strings.NewReader(out))
		if err != nil {
			return "", err
		}
		n := findElem(doc, id)
		if n == nil {
			return "", fmt.Errorf("element #%s not found in %q", id, out)
		}
		return strip(htmlNorm(textOf(n)))
	}
}

func attrVal(id, key string) func(string) (string, error) {
	return func(out string) (string, error) {
		doc, err := html.Parse(strings.NewReader(out))
		if err != nil {
			return "", err
		}
		n := findElem(doc, id)
		if n == nil {
			return "", fmt.Errorf("element #%s not found in %q", id, out)
		}
		for _, a := range n.Attr {
			if a.Key == key {
				return strip(htmlNorm(a.Val))
			}
		}
		return "", fmt.Errorf("attribute %s missing in %q", key, out)
	}
}

func scriptText(out, id string) (string, error) {
	doc, err := html.Parse(strings.NewReader(out))
	if err != nil {
		return "", err
	}
	n := findElem(doc, id)
	if n == nil {
		return "", fmt.Errorf("element #%s not found in %q", id, out)
	}
	if n.FirstChild == nil || n.FirstChild.NextSibling != nil {
		return "", fmt.Errorf("raw text element #%s does not hold one text node in %q", id, out)
	}
	return n.FirstChild.Data, nil
}

// jsString finds the single string literal of a `var x = <lit>;` statement.
func jsString(src string, wrapped bool) (string, error) {
	toks := jstok.Significant(jstok.Tokenize(src))
	var strs []jstok.Token
	for _, t := range toks {
		if t.Kind == jstok.Error {
			return "", fmt.Errorf("JS does not tokenize: %q", src)
		}
		if t.Kind == jstok.String {
			strs = append(strs, t)
		}
	}
	if len(strs) != 1 || len(toks) != 5 || toks[0].Text != "var" || toks[2].Text != "=" || toks[3].Kind != jstok.String || toks[4].Text != ";" {
		return "", fmt.Errorf("JS statement is not `var x = <string>;`: %v", toks)
	}
	if wrapped {
		return strip(strs[0].Value)
	}
	return strs[0].Value, nil
}

func jsonString(src string, wrapped bool) (string, error) {
	var m map[string]string
	if err := json.Unmarshal([]byte(src), &m); err != nil {
		return "", fmt.Errorf("JSON does not parse: %v in %q", err, src)
	}
	if len(m) != 1 {
		return "", fmt.Errorf("JSON object has %d keys in %q", len(m), src)
	}
	if wrapped {
		return strip(m["k"])
	}
	return m["k"], nil
}

func cssString(src string, wrapped bool) (string, error) {
	toks := csstok.Significant(csstok.Tokenize(csstok.Preprocess(src)))
	// p { content : <string> }
	if len(toks) != 6 || toks[0].Kind != csstok.Ident || toks[1].Kind != csstok.LBrace || toks[2].Kind != csstok.Ident || toks[3].Kind != csstok.Colon || toks[4].Kind != csstok.String || toks[5].Kind != csstok.RBrace {
		return "", fmt.Errorf("CSS is not `p { content: <string> }`: %v", toks)
	}
	if wrapped {
		return strip(toks[4].Value)
	}
	return toks[4].Value, nil
}

func queryValue(href string) (string, error) {
	u, err := url.Parse(href)
	if err != nil {
		return "", fmt.Errorf("URL does not parse: %v", err)
	}
	if u.Path != "/p" {
		return "", fmt.Errorf("URL path changed: %q", href)
	}
	parts := strings.Split(u.RawQuery, "&")
	if len(parts) != 2 || parts[1] != "z=1" || !strings.HasPrefix(parts[0], "q=") {
		return "", fmt.Errorf("query %q is not q=…&z=1", u.RawQuery)
	}
	dec, err := url.QueryUnescape(strings.TrimPrefix(parts[0], "q="))
	if err != nil {
		return "", fmt.Errorf("query value does not percent-decode: %v", err)
	}
	return strip(dec)
}

var reMdURL = regexp.MustCompile(`^see http://h\.com/p\?q=(.*)&z=1 ok\n$`)

var contexts = map[string]context{
	"html_text":     {"i.html", `<p id="t">a{{ v }}b</p>`, elemText("t"), htmlNorm},
	"html_title":    {"i.html", `<html><head><title id="t">a{{ v }}b</title></head></html>`, elemText("t"), htmlNorm},
	"html_textarea": {"i.html", `<textarea id="t">a{{ v }}b</textarea>`, elemText("t"), htmlNorm},
	"attr_dq":       {"i.html", `<p id="t" title="a{{ v }}b">x</p>`, attrVal("t", "title"), htmlNorm},
	"attr_sq":       {"i.html", `<p id="t" title='a{{ v }}b'>x</p>`, attrVal("t", "title"), htmlNorm},
	"attr_unq":      {"i.html", `<p id="t" title=a{{ v }}b>x</p>`, attrVal("t", "title"), htmlNorm},
	"script_dq": {"i.html", `<script id="t">var x = "a{{ v }}b";</script>`, func(out string) (string, error) {
		s, err := scriptText(out, "t")
		if err != nil {
			return "", err
		}
		return jsString(s, true)
	}, perByteValid},
	"script_sq": {"i.html", `<script id="t">var x = 'a{{ v }}b';</script>`, func(out string) (string, error) {
		s, err := scriptText(out, "t")
		if err != nil {
			return "", err
		}
		return jsString(s, true)
	}, perByteValid},
	"script_value": {"i.html", `<script id="t">var x = {{ v }};</script>`, func(out string) (string, error) {
		s, err := scriptText(out, "t")
		if err != nil {
			return "", err
		}
		return jsString(s, false)
	}, perByteValid},
	"jsonld_string": {"i.html", `<script id="t" type="application/ld+json">{"k":"a{{ v }}b"}</script>`, func(out string) (string, error) {
		s, err := scriptText(out, "t")
		if err != nil {
			return "", err
		}
		return jsonString(s, true)
	}, perByteValid},
	"style_dq": {"i.html", `<style id="t">p { content: "a{{ v }}b" }</style>`, func(out string) (string, error) {
		s, err := scriptText(out, "t")
		if err != nil {
			return "", err
		}
		return cssString(s, true)
	}, cssNorm},
	"style_sq": {"i.html", `<style id="t">p { content: 'a{{ v }}b' }</style>`, func(out string) (string, error) {
		s, err := scriptText(out, "t")
		if err != nil {
			return "", err
		}
		return cssString(s, true)
	}, cssNorm},
	"style_value": {"i.html", `<style id="t">p { content: {{ v }} }</style>`, func(out string) (string, error) {
		s, err := scriptText(out, "t")
		if err != nil {
			return "", err
		}
		return cssString(s, false)
	}, cssNorm},
	"js_dq":       {"i.js", `var x = "a{{ v }}b";`, func(out string) (string, error) { return jsString(out, true) }, perByteValid},
	"js_sq":       {"i.js", `var x = 'a{{ v }}b';`, func(out string) (string, error) { return jsString(out, true) }, perByteValid},
	"js_value":    {"i.js", `var x = {{ v }};`, func(out string) (string, error) { return jsString(out, false) }, perByteValid},
	"json_string": {"i.json", `{"k":"a{{ v }}b"}`, func(out string) (string, error) { return jsonString(out, true) }, perByteValid},
	"json_value":  {"i.json", `{"k":{{ v }}}`, func(out string) (string, error) { return jsonString(out, false) }, perByteValid},
	"css_dq":      {"i.css", `p { content: "a{{ v }}b" }`, func(out string) (string, error) { return cssString(out, true) }, cssNorm},
	"css_sq":      {"i.css", `p { content: 'a{{ v }}b' }`, func(out string) (string, error) { return cssString(out, true) }, cssNorm},
	"css_value":   {"i.css", `p { content: {{ v }} }`, func(out string) (string, error) { return cssString(out, false) }, cssNorm},
	"url_query_dq": {"i.html", `<a id="t" href="/p?q=a{{ v }}b&z=1">x</a>`, func(out string) (string, error) {
		doc, err := html.Parse(strings.NewReader(out))
		if err != nil {
			return "", err
		}
		n := findElem(doc, "t")
		if n == nil {
			return "", fmt.Errorf("element not found in %q", out)
		}
		for _, a := range n.Attr {
			if a.Key == "href" {
				return queryValue(a.Val)
			}
		}
		return "", fmt.Errorf("href missing in %q", out)
	}, ident},
	"url_query_unq": {"i.html", `<a id="t" href=/p?q=a{{ v }}b&z=1>x</a>`, func(out string) (string, error) {
		doc, err := html.Parse(strings.NewReader(out))
		if err != nil {
			return "", err
		}
		n := findElem(doc, "t")
		if n == nil {
			return "", fmt.Errorf("element not found in %q", out)
		}
		for _, a := range n.Attr {
			if a.Key == "href" {
				return queryValue(a.Val)
			}
		}
		return "", fmt.Errorf("href missing in %q", out)
	}, ident},
	"md_url_query": {"i.md", "see http://h.com/p?q=a{{ v }}b&z=1 ok\n", func(out string) (string, error) {
		m := reMdURL.FindStringSubmatch(out)
		if m == nil {
			return "", fmt.Errorf("Markdown output %q lost its shape", out)
		}
		dec, err := url.QueryUnescape(m[1])
		if err != nil {
			return "", err
		}
		return strip(dec)
	}, ident},
}

var (
	tmplMu sync.Mutex
	tmpls  = map[string]*scriggo.Template{}
)

func tmplFor(name string) (*scriggo.Template, error) {
	tmplMu.Lock()
	defer tmplMu.Unlock()
	if t, ok := tmpls[name]; ok {
		return t, nil
	}
	c := contexts[name]
	t, res := sg.BuildTemplate(map[string]string{c.file: c.tmpl}, c.file, sg.Opts{Globals: native.Declarations{"v": (*string)(nil)}})
	if d := res.Describe(); d != "" {
		return nil, fmt.Errorf("template of context %s: %s", name, d)
	}
	tmpls[name] = t
	return t, nil
}

func judge(c Case) string {
	ctx, ok := contexts[c.Ctx]
	if !ok {
		return "unknown context " + c.Ctx
	}
	t, err := tmplFor(c.Ctx)
	if err != nil {
		return err.Error()
	}
	v := string(c.V)
	res := sg.RunTemplate(t, sg.Opts{Vars: map[string]any{"v": v}})
	if d := res.Describe(); d != "" {
		return fmt.Sprintf("render of %q in %s failed: %s", v, c.Ctx, d)
	}
	got, err := ctx.extract(res.Out)
	if err != nil {
		return fmt.Sprintf("value %q in %s: output %q: %v", v, c.Ctx, res.Out, err)
	}
	want := ctx.norm(v)
	if strings.HasPrefix(c.Ctx, "html_") || strings.HasPrefix(c.Ctx, "attr_") {
		// the tokenizer passes invalid UTF-8 through unchanged; compare bytes
	} else if !strings.HasPrefix(c.Ctx, "url_") && !strings.HasPrefix(c.Ctx, "md_") {
		got = perByteValid(got)
	}
	if got != want {
		return fmt.Sprintf("value %q in %s renders as %q which decodes to %q, want %q", v, c.Ctx, res.Out, got, want)
	}
	return ""
}

func init() {
	ev.RegisterReplay("decode", func(t ev.TB, raw json.RawMessage) {
		var c Case
		if err := json.Unmarshal(raw, &c); err != nil {
			t.Fatalf("bad case: %v", err)
		}
		if msg := judge(c); msg != "" {
			t.Fatalf("%s", msg)
		}
	})
}

// dictionary of escape-relevant prefixes
var dict = []string{
	"<", ">", "&", "\"", "'", "`", "\\", "\\\\", "/", "=", " ", "\t", "\n", "\r", "\f", "\v", "\x00", "\x01", "\x1f", "\x7f", "+", "%", "%4", "%zz", "?", "#", ";", ":", ",", "(", ")", "{", "}", "*", "@", "!",
	"&amp", "&amp;", "&#39", "&#39;", "&lt", "&quot;", "&#x27;", "&#", "&#x", "\\3c", "\\3c ", "\\u003c", "\\x3c", "\\0", "\\n", "</script", "</style", "</ScRiPt>", "<!--", "-->", "]]>", "*/", "//", "${", "\u2028", "\u2029", "\u0085", "\u00a0", "\ufeff", "\ufffd", "é", "日", "😀", "\xff", "\xc3", "\xe2\x82", "\xf0\x9f\x98",
	"a", "f", "0", "9", "z", "G",
}

var contextNames []string

func init() {
	for n := range contexts {
		contextNames = append(contextNames, n)
	}
	// deterministic order
	for i := range contextNames {
		for j := i + 1; j < len(contextNames); j++ {
			if contextNames[j] < contextNames[i] {
				contextNames[i], contextNames[j] = contextNames[j], contextNames[i]
			}
		}
	}
}

func nontrivial(v string) bool {
	// an escape-relevant character followed by a character that could extend the escape
	for i := 0; i+1 < len(v); i++ {
		if strings.IndexByte("<>&\"'`\\\n\r\t\f\x00%+ =;:(){}/", v[i]) >= 0 || v[i] < 0x20 {
			n := v[i+1]
			if n >= '0' && n <= '9' || n >= 'a' && n <= 'f' || n >= 'A' && n <= 'F' || n == ';' || n == '#' || n == ' ' || n == '\t' || n == '\n' || n == '"' || n == '\'' || n == 'x' || n == 'u' {
				return true
			}
		}
	}
	return false
}

// TestExhSuccessors: every dictionary entry followed by every ASCII successor
// (and preceded by nothing / one benign char), in every context. Sharded by context.
func TestExhSuccessors(t *testing.T) {
	shard, shards := ev.Shard()
	count, nt := 0, 0
	for ci, name := range contextNames {
		if ci%shards != shard {
			continue
		}
		for _, d := range dict {
			for s := 0; s < 128; s++ {
				for _, pre := range []string{"", "x"} {
					v := pre + d + string([]byte{byte(s)})
					c := Case{Ctx: name, V: []byte(v), Show: fmt.Sprintf("%q", v)}
					count++
					if nontrivial(v) {
						nt++
						if count%9973 == 0 {
							ev.Sample(map[string]string{"ctx": name, "value": c.Show})
						}
					}
					if msg := judge(c); msg != "" {
						if id := classify(c, msg); id != "" && ev.Known(id) {
							continue
						}
						ev.Fail(t, "decode", c, "%s", msg)
					}
				}
			}
		}
		// non-ASCII successors, sampled (every 17th code point of the BMP in thorough, a fixed set in quick)
		succ := []rune{0x80, 0xa0, 0xe9, 0x2028, 0x2029, 0xfeff, 0xfffd, 0x1f600, 0x3cc}
		if ev.Thorough() {
			for r := rune(0x80); r < 0xffff; r += 17 {
				if r < 0xd800 || r > 0xdfff {
					succ = append(succ, r)
				}
			}
		}
		for _, d := range dict {
			for _, r := range succ {
				v := d + string(r)
				c := Case{Ctx: name, V: []byte(v), Show: fmt.Sprintf("%q", v)}
				count++
				nt++
				if msg := judge(c); msg != "" {
					if id := classify(c, msg); id != "" && ev.Known(id) {
						continue
					}
					ev.Fail(t, "decode", c, "%s", msg)
				}
			}
		}
	}
	ev.EvalN(count)
	ev.LabelN("successor_sweep", count)
	ev.NontrivialCount(nt)
	ev.Exhaustive()
	ev.Note("successor sweep: %d dictionary entries x 128 ASCII successors x 2 prefixes x %d contexts, exhaustive", len(dict), len(contextNames))
}

func genValue(t *rapid.T) string {
	n := rapid.IntRange(0, 6).Draw(t, "n")
	var b bytes.Buffer
	for i := 0; i < n; i++ {
		switch rapid.IntRange(0, 5).Draw(t, "k") {
		case 0:
			b.WriteString(rapid.String().Draw(t, "u"))
		case 1:
			b.Write(rapid.SliceOfN(rapid.Byte(), 0, 4).Draw(t, "raw"))
		default:
			b.WriteString(rapid.SampledFrom(dict).Draw(t, "d"))
		}
	}
	return b.String()
}

func TestPropRandom(t *testing.T) {
	ev.Check(t, ev.N{Quick: 40000, Thorough: 4000000}, func(t *rapid.T) {
		v := genValue(t)
		c := Case{Ctx: rapid.SampledFrom(contextNames).Draw(t, "ctx"), V: []byte(v), Show: fmt.Sprintf("%q", v)}
		ev.Eval()
		ev.Label("ctx_" + c.Ctx)
		if nontrivial(v) {
			ev.NontrivialSample(map[string]string{"ctx": c.Ctx, "value": c.Show}, c.Ctx, v)
		}
		if msg := judge(c); msg != "" {
			if id := classify(c, msg); id != "" && ev.Known(id) {
				return
			}
			ev.Fail(t, "decode", c, "%s", msg)
		}
	})
}

func classify(c Case, msg string) string { return "" }

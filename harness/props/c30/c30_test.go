// C30 — building is deterministic: the same sources and options always give the same
// disassembly, the same UsedVars and the same behaviour, within one process (where map
// iteration order changes from build to build) and across processes (where hash seeds and
// addresses change).
package c30

import (
	"bufio"
	"crypto/sha256"
	"encoding/hex"
	"encoding/json"
	"fmt"
	"os"
	"os/exec"
	"sort"
	"strconv"
	"strings"
	"testing"

	"github.com/open2b/scriggo"
	"github.com/open2b/scriggo/native"
	"pgregory.net/rapid"

	"verif/harness/gen/gopkgs"
	"verif/harness/gen/goprog"
	"verif/harness/gen/tmpl"
	"verif/harness/gen/tmplset"
	"verif/harness/lib/ev"
	"verif/harness/lib/sg"
)

func TestMain(m *testing.M) {
	if f := os.Getenv("C30_CHILD"); f != "" {
		child(f)
		return
	}
	ev.Main(m, "C30")
}
func TestReplay(t *testing.T)  { ev.Replay(t) }
func TestRegress(t *testing.T) { ev.Regress(t) }

// Case is a set of sources built as a program or as a template.
type Case struct {
	Kind   string            `json:"kind"` // program | template
	Files  map[string]string `json:"files"`
	Main   string            `json:"main,omitempty"` // template file
	Shape  string            `json:"shape"`          // generator that produced it
	NVars  int               `json:"nvars"`          // template: string globals v0..v{n-1} (tmpl holes)
	Pkgs   []string          `json:"pkgs,omitempty"` // program: package paths to disassemble
	Params int               `json:"params"`         // disassembly text length (templates)
}

func hostPackage() native.Packages { return gopkgs.HostPackage() }

// observation is what a build exposes.
type observation struct {
	BuildErr string            `json:"build_err"`
	Disasm   map[string]string `json:"disasm"` // package path (or "main") -> sha256 of the assembly
	UsedVars []string          `json:"used_vars"`
	Run      string            `json:"run"`           // output, printed text and error of one run
	Raw      map[string]string `json:"raw,omitempty"` // the assemblies themselves (for the report)
}

func digest(b []byte) string {
	h := sha256.Sum256(b)
	return hex.EncodeToString(h[:8])
}

func templateGlobals(c Case) (native.Declarations, map[string]any) {
	return tmplset.Globals(c.NVars, 0)
}

func observe(c Case, run bool) (o observation) {
	o.Disasm = map[string]string{}
	o.Raw = map[string]string{}
	switch c.Kind {
	case "program":
		var p *scriggo.Program
		var err error
		func() {
			defer func() {
				if e := recover(); e != nil {
					err = fmt.Errorf("BUILD PANIC: %v", e)
				}
			}()
			p, err = scriggo.Build(sg.Files(c.Files), &scriggo.BuildOptions{Packages: hostPackage()})
		}()
		if err != nil {
			o.BuildErr = err.Error()
			return o
		}
		for _, path := range c.Pkgs {
			asm, err := disassemble(func() ([]byte, error) { return p.Disassemble(path) })
			if err != nil {
				o.Disasm[path] = "error: " + err.Error()
				continue
			}
			o.Disasm[path] = digest(asm)
			o.Raw[path] = string(asm)
		}
		if run {
			res := sg.RunProgram(p, sg.Opts{})
			o.Run = strconv.QuoteToASCII(res.Printed + "\n--\n" + res.Describe())
		}
	case "template":
		g, vars := templateGlobals(c)
		t, res := sg.BuildTemplate(c.Files, c.Main, sg.Opts{Globals: g, Markdown: true, Packages: hostPackage()})
		if res.BuildPanic != nil {
			o.BuildErr = fmt.Sprintf("BUILD PANIC: %v", res.BuildPanic)
			return o
		}
		if res.BuildErr != nil {
			o.BuildErr = res.BuildErr.Error()
			return o
		}
		asm, err := disassemble(func() ([]byte, error) { return t.Disassemble(c.Params), nil })
		if err != nil {
			o.Disasm["main"] = "error: " + err.Error()
		}
		if err == nil {
			o.Disasm["main"] = digest(asm)
			o.Raw["main"] = string(asm)
		}
		o.UsedVars = t.UsedVars()
		if run {
			r := sg.RunTemplate(t, sg.Opts{Vars: vars})
			o.Run = strconv.QuoteToASCII(r.Out + "\n--\n" + r.Printed + "\n--\n" + r.Describe())
		}
	}
	return o
}

// disassemble runs a Disassemble method under recover.
func disassemble(f func() ([]byte, error)) (asm []byte, err error) {
	defer func() {
		if e := recover(); e != nil {
			err = fmt.Errorf("DISASSEMBLE PANIC: %v", e)
		}
	}()
	return f()
}

func (o observation) key() string {
	b, _ := json.Marshal(o)
	return string(b)
}

func firstDiff(a, b string) string {
	if ua, err := strconv.Unquote(a); err == nil {
		a = ua
	}
	if ub, err := strconv.Unquote(b); err == nil {
		b = ub
	}
	la, lb := strings.Split(a, "\n"), strings.Split(b, "\n")
	for i := 0; i < len(la) && i < len(lb); i++ {
		if la[i] != lb[i] {
			return fmt.Sprintf("line %d: %q vs %q", i+1, la[i], lb[i])
		}
	}
	return fmt.Sprintf("lengths %d vs %d lines", len(la), len(lb))
}

func compare(what string, a, b observation) string {
	if a.BuildErr != b.BuildErr {
		return fmt.Sprintf("%s: build results differ: %q vs %q", what, a.BuildErr, b.BuildErr)
	}
	var paths []string
	for p := range a.Disasm {
		paths = append(paths, p)
	}
	sort.Strings(paths)
	for _, p := range paths {
		if a.Disasm[p] != b.Disasm[p] {
			d := ""
			if a.Raw != nil && b.Raw != nil {
				d = ": " + firstDiff(a.Raw[p], b.Raw[p])
			}
			return fmt.Sprintf("%s: the disassembly of %q differs%s", what, p, d)
		}
	}
	if fmt.Sprint(a.UsedVars) != fmt.Sprint(b.UsedVars) {
		return fmt.Sprintf("%s: UsedVars differ: %v vs %v", what, a.UsedVars, b.UsedVars)
	}
	if a.Run != b.Run {
		return fmt.Sprintf("%s: behaviour differs: %s", what, firstDiff(a.Run, b.Run))
	}
	return ""
}

const buildsPerCase = 4

// judge builds the case several times in this process and compares everything observable.
func judge(c Case) (string, observation) {
	first := observe(c, true)
	for i := 1; i < buildsPerCase; i++ {
		ev.Eval()
		o := observe(c, true)
		if msg := compare(fmt.Sprintf("build 1 vs build %d in one process", i+1), first, o); msg != "" {
			return msg, first
		}
	}
	for p, d := range first.Disasm {
		if strings.Contains(d, "DISASSEMBLE PANIC") {
			return fmt.Sprintf("there is no disassembly of %q to compare: %s", p, d), first
		}
	}
	if first.UsedVars != nil {
		if !sort.StringsAreSorted(first.UsedVars) {
			return fmt.Sprintf("UsedVars is not sorted: %v", first.UsedVars), first
		}
	}
	return "", first
}

func describe(c Case) string {
	var names []string
	for n := range c.Files {
		names = append(names, n)
	}
	sort.Strings(names)
	var b strings.Builder
	for _, n := range names {
		fmt.Fprintf(&b, "\n--- %s\n%s", n, c.Files[n])
	}
	return b.String()
}

func init() {
	ev.RegisterReplay("det", func(t ev.TB, raw json.RawMessage) {
		var c Case
		if err := json.Unmarshal(raw, &c); err != nil {
			t.Fatalf("bad case: %v", err)
		}
		// the replay repeats the in-process comparison many times and adds a child process
		for i := 0; i < 10; i++ {
			if msg, _ := judge(c); msg != "" {
				t.Fatalf("%s%s", msg, describe(c))
			}
		}
		if msg := crossProcess([]Case{c}); msg != "" {
			t.Fatalf("%s%s", msg, describe(c))
		}
	})
}

func nontrivial(c Case, o observation) bool {
	if o.BuildErr != "" {
		return false
	}
	return len(c.Files) >= 3 || len(o.UsedVars) >= 3 || strings.Count(c.Files["main.go"], "\nvar ") >= 3
}

func record(c Case, o observation) {
	if o.BuildErr != "" {
		ev.Label("build_error")
		ev.Label("build_error_" + c.Shape)
		ev.Note("%s does not build: %s", c.Shape, o.BuildErr)
	} else {
		ev.Label("builds_" + c.Shape)
	}
	if nontrivial(c, o) {
		ev.NontrivialSample(map[string]any{"shape": c.Shape, "files": len(c.Files), "used_vars": o.UsedVars, "source": clip(describe(c), 700)}, describe(c))
	}
}

func clip(s string, n int) string {
	if len(s) > n {
		return s[:n] + "…"
	}
	return s
}

func TestPropDeterministic(t *testing.T) {
	ev.Check(t, ev.N{Quick: 1600, Thorough: 60000}, func(t *rapid.T) {
		c := genCase(t)
		ev.Journal("det", c)
		msg, o := judge(c)
		record(c, o)
		if msg != "" {
			ev.Fail(t, "det", c, "%s%s", msg, describe(c))
		}
	})
}

// ---- across processes

type childOut struct {
	Obs []observation `json:"obs"`
}

// child is the body of the re-executed test binary: build every case of the file once.
func child(file string) {
	data, err := os.ReadFile(file)
	if err != nil {
		fmt.Fprintln(os.Stderr, err)
		os.Exit(3)
	}
	var cases []Case
	if err := json.Unmarshal(data, &cases); err != nil {
		fmt.Fprintln(os.Stderr, err)
		os.Exit(3)
	}
	var out childOut
	for _, c := range cases {
		out.Obs = append(out.Obs, observe(c, true))
	}
	w := bufio.NewWriter(os.Stdout)
	_ = json.NewEncoder(w).Encode(out)
	_ = w.Flush()
	os.Exit(0)
}

// crossProcess builds the cases here and in two fresh processes and compares.
func crossProcess(cases []Case) string {
	f, err := os.CreateTemp("", "c30-*.json")
	if err != nil {
		return "INFRA: " + err.Error()
	}
	defer os.Remove(f.Name())
	_ = json.NewEncoder(f).Encode(cases)
	f.Close()
	var here []observation
	for _, c := range cases {
		here = append(here, observe(c, true))
	}
	for round := 0; round < 2; round++ {
		cmd := exec.Command(os.Args[0], "-test.run", "^$")
		cmd.Env = append(os.Environ(), "C30_CHILD="+f.Name())
		cmd.Stderr = os.Stderr
		outb, err := cmd.Output()
		if err != nil {
			return "INFRA: child process: " + err.Error()
		}
		var out childOut
		if err := json.Unmarshal(outb, &out); err != nil || len(out.Obs) != len(cases) {
			return fmt.Sprintf("INFRA: child output: %v (%d observations for %d cases)", err, len(out.Obs), len(cases))
		}
		for i := range cases {
			ev.Eval()
			a := here[i]
			if msg := compare(fmt.Sprintf("this process vs fresh process %d", round+1), a, out.Obs[i]); msg != "" {
				return fmt.Sprintf("case %d: %s%s", i, msg, describe(cases[i]))
			}
		}
	}
	return ""
}

func TestPropAcrossProcesses(t *testing.T) {
	n := ev.Count(ev.N{Quick: 800, Thorough: 20000})
	gen := rapid.Custom(genCase)
	base := ev.Seed("across")
	const batch = 100
	for start := 0; start < n; start += batch {
		var cases []Case
		for i := start; i < start+batch && i < n; i++ {
			c := gen.Example(int(base%1000003) + i)
			cases = append(cases, c)
		}
		msg := crossProcess(cases)
		for _, c := range cases {
			o := observe(c, false)
			ev.Label("across_processes")
			record(c, o)
		}
		if strings.HasPrefix(msg, "INFRA: ") {
			t.Skipf("%s", msg)
		}
		if msg != "" {
			// find the failing case to write a one-case replay file
			for _, c := range cases {
				if m := crossProcess([]Case{c}); m != "" && !strings.HasPrefix(m, "INFRA: ") {
					ev.Fail(t, "det", c, "%s", m)
					return
				}
			}
			ev.Fail(t, "det", cases[0], "%s (not reproduced case by case)", msg)
			return
		}
	}
}

// ---- generators

func genCase(t *rapid.T) Case {
	switch rapid.IntRange(0, 9).Draw(t, "shape") {
	case 0, 1, 2:
		m := gopkgs.Gen(t)
		return Case{Kind: "program", Shape: "packages", Files: m.Files, Pkgs: m.Pkgs}
	case 3, 4:
		p := goprog.Gen(t, goprog.Off{})
		return Case{Kind: "program", Shape: "goprog", Files: map[string]string{"go.mod": "module m\n", "main.go": p.Src}, Pkgs: []string{"main"}}
	case 5, 6, 7:
		ts := tmplset.Gen(t)
		return Case{Kind: "template", Shape: "template-set", Files: ts.Files, Main: ts.Main, Params: rapid.SampledFrom([]int{-1, 0, 8}).Draw(t, "textlen")}
	default:
		format := rapid.SampledFrom([]string{"html", "html", "js", "css", "json", "md", "text"}).Draw(t, "format")
		d := tmpl.Gen(t, format, 6, tmpl.Off{})
		return Case{Kind: "template", Shape: "tmpl-" + format, Files: map[string]string{d.File: d.Src}, Main: d.File, NVars: len(d.Holes), Params: rapid.SampledFrom([]int{-1, 0, 8}).Draw(t, "textlen")}
	}
}

// TestTriage is a development aid: C30_GREP=<text> prints the generated cases whose build
// error contains the text.
func TestTriage(t *testing.T) {
	pat := os.Getenv("C30_GREP")
	if pat == "" {
		t.Skip("development aid")
	}
	gen := rapid.Custom(genCase)
	found := 0
	for i := 0; i < 20000 && found < 3; i++ {
		c := gen.Example(i)
		o := observe(c, false)
		if strings.Contains(o.BuildErr, pat) {
			found++
			fmt.Printf("=== %s\n%s\n", o.BuildErr, describe(c))
		}
	}
}

// C14 — goroutine and channel programs whose output is schedule-independent print what the
// gc-built program prints, under every explored schedule, and the interpreter shows no data
// race while running them (the package is built with the race detector).
package c14

import (
	"encoding/json"
	"fmt"
	"runtime"
	"strings"
	"sync"
	"testing"

	"github.com/open2b/scriggo"
	"pgregory.net/rapid"

	"verif/harness/gen/goconc"
	"verif/harness/gen/gopkgs"
	"verif/harness/lib/ev"
	"verif/harness/lib/gcref"
	"verif/harness/lib/sg"
)

func TestMain(m *testing.M)    { ev.Main(m, "C14") }
func TestReplay(t *testing.T)  { ev.Replay(t) }
func TestRegress(t *testing.T) { ev.Regress(t) }

// Case is a program and the GOMAXPROCS values to run it under.
type Case struct {
	Src   string `json:"src"`
	Procs []int  `json:"gomaxprocs"`
}

// runScriggo runs the program once; printing is serialised by the hook's mutex, the
// order of the lines is the program's business.
func runScriggo(src string) (out string, failure string) {
	var p *scriggo.Program
	var err error
	var bp any
	func() {
		defer func() { bp = recover() }()
		p, err = scriggo.Build(scriggo.Files{"go.mod": []byte("module m\n"), "main.go": []byte(src)}, &scriggo.BuildOptions{Packages: gopkgs.HostPackage(), AllowGoStmt: true})
	}()
	if bp != nil {
		return "", fmt.Sprintf("Build panicked: %v", bp)
	}
	if err != nil {
		return "", "Build rejects a program gc accepts: " + err.Error()
	}
	var mu sync.Mutex
	var b strings.Builder
	var rp any
	func() {
		defer func() { rp = recover() }()
		err = p.Run(&scriggo.RunOptions{Print: func(v any) {
			mu.Lock()
			b.WriteString(sg.FormatPrint(v))
			mu.Unlock()
		}})
	}()
	mu.Lock()
	out = b.String()
	mu.Unlock()
	if rp != nil {
		return out, fmt.Sprintf("Run panicked: %v", rp)
	}
	if err != nil {
		return out, "Run returned " + err.Error()
	}
	return out, ""
}

func module(src string) map[string]string {
	return map[string]string{"go.mod": "module m\n", "main.go": src}
}

func firstDiff(a, b string) string {
	la, lb := strings.Split(a, "\n"), strings.Split(b, "\n")
	for i := 0; i < len(la) || i < len(lb); i++ {
		var x, y string
		if i < len(la) {
			x = la[i]
		}
		if i < len(lb) {
			y = lb[i]
		}
		if x != y {
			return fmt.Sprintf("line %d: gc %q, scriggo %q", i+1, x, y)
		}
	}
	return "none"
}

func compare(c Case, ref gcref.Transcript) string {
	if ref.BuildErr != "" {
		ev.Excluded("generator_program_rejected_by_gc")
		ev.Note("gc rejects a generated program: %s", ref.BuildErr)
		return ""
	}
	if ref.Fatal != "" || ref.Panic != "" {
		ev.Excluded("gc_run_does_not_complete")
		ev.Note("gc run ends with %q %q", ref.Fatal, ref.Panic)
		return ""
	}
	old := runtime.GOMAXPROCS(0)
	defer runtime.GOMAXPROCS(old)
	for _, procs := range c.Procs {
		runtime.GOMAXPROCS(procs)
		ev.Eval()
		out, failure := runScriggo(c.Src)
		if failure != "" {
			return fmt.Sprintf("GOMAXPROCS %d: %s", procs, failure)
		}
		if out != ref.Out {
			return fmt.Sprintf("GOMAXPROCS %d: printed output differs: %s\n--- gc:\n%s--- scriggo:\n%s", procs, firstDiff(ref.Out, out), ref.Out, out)
		}
	}
	return ""
}

func init() {
	ev.RegisterReplay("conc", func(t ev.TB, raw json.RawMessage) {
		var c Case
		if err := json.Unmarshal(raw, &c); err != nil {
			t.Fatalf("bad case: %v", err)
		}
		ts, err := gcref.RunModules([]map[string]string{module(c.Src)})
		if err != nil {
			t.Fatalf("infrastructure: gc reference unavailable: %v", err)
		}
		for i := 0; i < 10; i++ {
			if msg := compare(c, ts[0]); msg != "" {
				t.Fatalf("%s\n--- program:\n%s", msg, c.Src)
			}
		}
	})
}

func TestPropConcurrent(t *testing.T) {
	off := goconc.Off{}
	if ev.IsKnown("C14-loop-variable-shared-by-iterations") {
		off["loop-var"] = true
	}
	batch := 16
	ev.Check(t, ev.N{Quick: 24, Thorough: 240}, func(t *rapid.T) {
		n := rapid.IntRange(batch/2, batch).Draw(t, "nprograms")
		progs := make([]goconc.Prog, n)
		cases := make([]Case, n)
		mods := make([]map[string]string, n)
		for i := range progs {
			progs[i] = goconc.GenOff(t, off)
			cases[i].Src = progs[i].Src
			k := rapid.IntRange(2, 4).Draw(t, "nruns")
			for j := 0; j < k; j++ {
				cases[i].Procs = append(cases[i].Procs, rapid.SampledFrom([]int{1, 2, 3, 4, 8, 16}).Draw(t, "gomaxprocs"))
			}
			mods[i] = module(progs[i].Src)
		}
		ts, err := gcref.RunModules(mods)
		if err != nil {
			panic("infrastructure: gc reference unavailable: " + err.Error())
		}
		for i, c := range cases {
			for _, p := range progs[i].Patterns {
				ev.Label("pattern_" + p)
			}
			ev.NontrivialSample(map[string]any{"patterns": progs[i].Patterns, "gomaxprocs": c.Procs, "gc_output": ts[i].Out}, c.Src, fmt.Sprint(c.Procs))
			ev.Journal("conc", c)
			if msg := compare(c, ts[i]); msg != "" {
				ev.Fail(t, "conc", c, "%s\n--- program:\n%s", msg, c.Src)
			}
		}
	})
}

// TestPropGcStable: the reference itself must be schedule-independent; every generated
// pattern is run by gc several times (different cache keys through a trailing comment) and
// must print the same text. A pattern that fails here is a generator bug, not a finding.
func TestPropGcStable(t *testing.T) {
	if s, _ := ev.Shard(); s != 0 {
		t.Skip("shard 0 only")
	}
	gen := rapid.Custom(func(t *rapid.T) goconc.Prog {
		return goconc.GenOff(t, goconc.Off{"loop-var": ev.IsKnown("C14-loop-variable-shared-by-iterations")})
	})
	var mods []map[string]string
	const progs, reps = 24, 3
	for i := 0; i < progs; i++ {
		p := gen.Example(int(ev.Seed("stable")%100000) + i)
		for r := 0; r < reps; r++ {
			mods = append(mods, module(p.Src+fmt.Sprintf("\n// repetition %d\n", r)))
		}
	}
	ts, err := gcref.RunModules(mods)
	if err != nil {
		t.Skipf("gc reference unavailable: %v", err)
	}
	for i := 0; i < progs; i++ {
		for r := 1; r < reps; r++ {
			ev.Eval()
			ev.Label("gc_repetition")
			if ts[i*reps+r].Out != ts[i*reps].Out {
				t.Errorf("generator bug: gc prints different outputs for the same program:\n%s\n---\n%s\n--- program:\n%s", ts[i*reps].Out, ts[i*reps+r].Out, mods[i*reps]["main.go"])
			}
		}
	}
}
